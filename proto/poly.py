"""Laurent-polynomial normal-form value lattice (prototype)."""
from fractions import Fraction
import ast
class Top: 
    def __repr__(s): return 'TOP'
TOP=Top()
class P:
    # dict: monomial(frozenset of (sym,exp)) -> Fraction
    def __init__(s,t=None): s.t={k:v for k,v in (t or {}).items() if v!=0}
    @staticmethod
    def const(c): return P({frozenset():Fraction(c)})
    @staticmethod
    def sym(n): return P({frozenset({(n,1)}):Fraction(1)})
    def __add__(a,b):
        t=dict(a.t)
        for k,v in b.t.items(): t[k]=t.get(k,0)+v
        return P(t)
    def __neg__(a): return P({k:-v for k,v in a.t.items()})
    def __sub__(a,b): return a+(-b)
    @staticmethod
    def mm(m1,m2):
        d=dict(m1)
        for s_,e in m2: d[s_]=d.get(s_,0)+e
        return frozenset((k,v) for k,v in d.items() if v!=0)
    def __mul__(a,b):
        t={}
        for k1,v1 in a.t.items():
            for k2,v2 in b.t.items():
                k=P.mm(k1,k2); t[k]=t.get(k,0)+v1*v2
        return P(t)
    def inv(a):
        if len(a.t)!=1: return None
        (k,v),=a.t.items()
        return P({frozenset((s_,-e) for s_,e in k):1/v})
    def __eq__(a,b): return isinstance(b,P) and a.t==b.t
    def __hash__(a): return hash(frozenset(a.t.items()))
    def __repr__(a):
        if not a.t: return '0'
        out=[]
        for k,v in sorted(a.t.items(),key=lambda kv:sorted(kv[0])):
            m='*'.join(f'{s_}^{e}' if e!=1 else s_ for s_,e in sorted(k))
            out.append(f'{v}'+('*'+m if m else ''))
        return ' + '.join(out)
