import ast,sys
def show(path, only=None):
    src=open(path).read(); lines=src.split('\n')
    tree=ast.parse(src)
    skip=set()
    for n in ast.walk(tree):
        if isinstance(n,(ast.FunctionDef,ast.ClassDef,ast.Module,ast.AsyncFunctionDef)):
            b=n.body
            if b and isinstance(b[0],ast.Expr) and isinstance(b[0].value,ast.Constant) and isinstance(b[0].value.value,str):
                for i in range(b[0].lineno,b[0].end_lineno+1): skip.add(i)
        # standalone string exprs
        if isinstance(n,ast.Expr) and isinstance(n.value,ast.Constant) and isinstance(n.value.value,str):
            for i in range(n.lineno,n.end_lineno+1): skip.add(i)
    print('#####',path)
    for i,l in enumerate(lines,1):
        if i in skip: continue
        if not l.strip(): continue
        if l.strip().startswith('#') and len(l.strip())>1 and False: continue
        print(f'{i}\t{l}')
for p in sys.argv[1:]:
    show(p)
