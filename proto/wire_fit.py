import ast
for path in ('/repo/autoarray/fit/fit_dataset.py','/repo/autoarray/fit/fit_interferometer.py'):
    t=ast.parse(open(path).read())
    for c in t.body:
        if not isinstance(c,ast.ClassDef): continue
        for m in c.body:
            if not isinstance(m,ast.FunctionDef): continue
            if not any(ast.unparse(d)=='property' for d in m.decorator_list): continue
            P=m.name
            for n in ast.walk(m):
                if isinstance(n,ast.Call) and isinstance(n.func,ast.Attribute) and isinstance(n.func.value,ast.Name) and n.func.value.id=='fit_util':
                    callee=n.func.attr
                    stem=callee
                    for suf in ('_with_mask_fast_from','_with_mask_from','_with_noise_covariance_from','_complex_from','_from'):
                        if stem.endswith(suf): stem=stem[:-len(suf)]; break
                    ok = stem==P
                    kw={k.arg:ast.unparse(k.value) for k in n.keywords}
                    bad=[f'{k}={v}' for k,v in kw.items() if v not in (f'self.{k}',) and not (k=='log_curvature_regularization_term' or k=='log_regularization_term' or k=='regularization_term' or k=='noise_covariance_matrix_inv')]
                    print(('OK ' if ok and not bad else 'BAD'),c.name,P,'->',callee, bad)
                if isinstance(n,ast.Attribute) and isinstance(n.value,ast.Call) and ast.unparse(n.value)=='super()':
                    print(('OK ' if n.attr==P else 'BAD'),c.name,P,'-> super().'+n.attr)
