import sys, types, numpy as np, warnings, logging
warnings.filterwarnings("ignore"); logging.disable(logging.CRITICAL)
pl=types.ModuleType('pylops')
class LinearOperator:
    def __init__(self,*a,**k): pass
pl.LinearOperator=LinearOperator; sys.modules['pylops']=pl
import autoarray as aa
m=aa.Mask2D.circular(shape_native=(7,7),radius=2.0,pixel_scales=1.0)
uv=np.random.default_rng(0).normal(size=(5,2))*1e4
img_slim=aa.Array2D(values=np.arange(m.pixels_in_mask,dtype=float),mask=m)
img_nat=aa.Array2D(values=np.arange(m.pixels_in_mask,dtype=float),mask=m,store_native=True)
for pre in (True,False):
    t=aa.TransformerDFT(uv_wavelengths=uv,real_space_mask=m,preload_transform=pre)
    a=np.array(t.visibilities_from(img_slim))
    try:
        b=np.array(t.visibilities_from(img_nat)); print('preload',pre,'native-vs-slim max diff',np.abs(a-b).max() if a.shape==b.shape else ('shape',a.shape,b.shape))
    except Exception as e: print('preload',pre,'EXC',type(e).__name__,str(e)[:80])
