import numpy as np, warnings, logging, re, types
warnings.filterwarnings("ignore"); logging.disable(logging.CRITICAL)
import autoarray.util.fnnls as F
from scipy.optimize import nnls
src=open(F.__file__).read()
src2=src.replace("        d = s_chol.clip(min=0)\n","        d = s_chol.clip(min=0)\n        w = ZTx - (ZTZ) @ d\n")
assert src2!=src
mod=types.ModuleType('f2'); exec(compile(src2,'f2','exec'),mod.__dict__)
rng=np.random.default_rng(1)
bad=bad2=0
for t in range(300):
    n=6; A=rng.normal(size=(12,n)); Q=A.T@A+0.1*np.eye(n); D=A.T@rng.normal(size=12)
    L=np.linalg.cholesky(Q); ref,_=nnls(L.T, np.linalg.solve(L,D))
    P0=np.linalg.solve(Q,D)>0
    for which,fn in (('orig',F.fnnls_cholesky),('fresh_w',mod.fnnls_cholesky)):
        try: s=fn(Q.copy(),D.copy(),P_initial=P0)
        except Exception: s=None
        ok = s is not None and np.abs(s-ref).max()<1e-6
        if which=='orig' and not ok: bad+=1
        if which=='fresh_w' and not ok: bad2+=1
print('orig bad',bad,'fresh_w bad',bad2)
