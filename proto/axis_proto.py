import ast, os, sys
NONE,A0,A1,MIX='-','A0','A1','MIX'
def join(a,b):
    if a==NONE: return b
    if b==NONE: return a
    if a==b: return a
    return MIX
AXIS_TUPLES={'shape','shape_native','kernel_shape_native','pixel_scales','origin','origins','centre','centres_scaled','central_pixel_coordinates','central_scaled_coordinates','coordinates','resized_shape','new_shape','scaled_coordinates_2d','pixel_coordinates_2d','border_origin','coordinate','kernel_shape','padded_shape','image_shape'}
EXTENT={'shape','shape_native','kernel_shape_native','resized_shape','new_shape','kernel_shape','padded_shape','image_shape'}
def last_name(e):
    if isinstance(e,ast.Name): return e.id
    if isinstance(e,ast.Attribute): return e.attr
    return None
class Fn:
    def __init__(s,fn,path):
        s.fn=fn; s.path=path; s.env={}; s.rep=[]
    def const_idx(s,sl):
        if isinstance(sl,ast.Constant) and sl.value in (0,1): return sl.value
        return None
    def is_extent(s,e):
        return isinstance(e,ast.Subscript) and last_name(e.value) in EXTENT and s.const_idx(e.slice) is not None
    def ev(s,e):
        if isinstance(e,ast.Name): return s.env.get(e.id,NONE)
        if isinstance(e,ast.Constant): return NONE
        if isinstance(e,ast.Subscript):
            nm=last_name(e.value); k=s.const_idx(e.slice)
            if nm in AXIS_TUPLES and k is not None: return (A0,A1)[k]
            if isinstance(e.slice,ast.Tuple):
                els=e.slice.elts
                # check sinks
                if len(els)==2:
                    c1=s.const_idx(els[1])
                    if c1 is not None and not isinstance(els[0],ast.Constant):
                        # (N,2) component select
                        s.ev(els[0]); return (A0,A1)[c1]
                    t0=s.ev(els[0]); t1=s.ev(els[1])
                    if t0 in (A1,MIX) : s.rep.append((e.lineno,'row-index has %s: %s'%(t0,ast.unparse(e))))
                    if t1 in (A0,MIX) : s.rep.append((e.lineno,'col-index has %s: %s'%(t1,ast.unparse(e))))
                    return NONE
                if len(els)==3:
                    c2=s.const_idx(els[2])
                    t0=s.ev(els[0]); t1=s.ev(els[1])
                    if t0 in (A1,MIX) : s.rep.append((e.lineno,'row-index has %s: %s'%(t0,ast.unparse(e))))
                    if t1 in (A0,MIX) : s.rep.append((e.lineno,'col-index has %s: %s'%(t1,ast.unparse(e))))
                    return (A0,A1)[c2] if c2 is not None else NONE
            return NONE
        if isinstance(e,ast.BinOp):
            if isinstance(e.op,(ast.Mult,ast.Div,ast.FloorDiv,ast.Mod)) and (s.is_extent(e.right) or s.is_extent(e.left)):
                other = e.left if s.is_extent(e.right) else e.right
                if not isinstance(other,ast.Constant):
                    s.ev(other); return NONE
            return join(s.ev(e.left),s.ev(e.right))
        if isinstance(e,ast.UnaryOp): return s.ev(e.operand)
        if isinstance(e,ast.Call):
            fnm=last_name(e.func)
            args=[s.ev(a) for a in e.args]+[s.ev(k.value) for k in e.keywords]
            if fnm in ('int','float','abs','ceil','floor','round'):
                return args[0] if args else NONE
            if fnm=='range':
                t=NONE
                for a in args: t=join(t,a)
                return t
            return NONE
        if isinstance(e,ast.Compare):
            ts=[s.ev(e.left)]+[s.ev(c) for c in e.comparators]
            d=[t for t in ts if t in (A0,A1)]
            if A0 in d and A1 in d or MIX in ts and (A0 in d or A1 in d):
                s.rep.append((e.lineno,'compare mixes axes: %s'%ast.unparse(e)))
            return NONE
        if isinstance(e,ast.BoolOp):
            for v in e.values: s.ev(v)
            return NONE
        if isinstance(e,ast.Tuple):
            for v in e.elts: s.ev(v)
            return NONE
        for c in ast.iter_child_nodes(e):
            if isinstance(c,ast.expr): s.ev(c)
        return NONE
    def assign(s,t,val,valnode=None):
        if isinstance(t,ast.Name):
            s.env[t.id]=join(s.env.get(t.id,NONE),val) if False else val
        elif isinstance(t,ast.Subscript):
            tt=s.ev(t)  # component tag of target
            if tt in (A0,A1) and val in (A0,A1,MIX) and val!=tt:
                s.rep.append((t.lineno,'store %s value into %s slot: %s'%(val,tt,ast.unparse(t))))
        elif isinstance(t,ast.Tuple) and valnode is not None and isinstance(valnode,ast.Tuple) and len(valnode.elts)==len(t.elts):
            for a,b in zip(t.elts,valnode.elts): s.assign(a,s.ev(b),b)
        elif isinstance(t,ast.Tuple) and len(t.elts)==2:
            # unpack of an index pair: y,x
            s.assign(t.elts[0],A0); s.assign(t.elts[1],A1)
    def run(s):
        for _ in range(2):
            s.rep=[]
            s.block(s.fn.body)
        return s.rep
    def block(s,body):
        for st in body:
            if isinstance(st,ast.Assign):
                v=s.ev(st.value)
                for t in st.targets: s.assign(t,v,st.value)
            elif isinstance(st,ast.AugAssign):
                v=s.ev(st.value)
                if isinstance(st.target,ast.Name):
                    s.env[st.target.id]=join(s.env.get(st.target.id,NONE),v)
                else: s.assign(st.target,v)
            elif isinstance(st,ast.For):
                it=st.iter
                if isinstance(it,ast.Call) and last_name(it.func)=='range':
                    s.assign(st.target,s.ev(it))
                elif isinstance(it,ast.Call) and last_name(it.func)=='enumerate' and isinstance(st.target,ast.Tuple):
                    s.assign(st.target.elts[1], s.ev(it.args[0]) if it.args else NONE)
                else: s.ev(it)
                s.block(st.body); s.block(st.orelse)
            elif isinstance(st,(ast.If,ast.While)):
                s.ev(st.test); s.block(st.body); s.block(st.orelse)
            elif isinstance(st,ast.Return) and st.value is not None: s.ev(st.value)
            elif isinstance(st,ast.Expr): s.ev(st.value)
            elif isinstance(st,ast.Try):
                s.block(st.body)
                for h in st.handlers: s.block(h.body)
files=sys.argv[1:]
tot=0
for p in files:
    t=ast.parse(open(p).read())
    for n in ast.walk(t):
        if isinstance(n,ast.FunctionDef):
            tot+=1
            r=Fn(n,p).run()
            for ln,m in sorted(set(r)): print(f"{p}:{ln} {n.name}: {m}")
print('functions',tot)
