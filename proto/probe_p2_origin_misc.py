import numpy as np, autoarray as aa, os, warnings, tempfile, logging
warnings.filterwarnings("ignore"); logging.disable(logging.CRITICAL)
rng=np.random.default_rng(0)
def mk(origin):
    return aa.Mask2D.circular(shape_native=(11,11),radius=3.0,pixel_scales=1.0,origin=origin,centre=(0.0,0.0))
m0=mk((0.0,0.0)); d=(1.0,-2.0); m1=mk(d)
g0=aa.Grid2D.from_mask(m0); g1=aa.Grid2D.from_mask(m1)
print('from_mask shift', np.unique(np.round(np.array(g1)-np.array(g0),9),axis=0))
print('padded_grid shift', np.unique(np.round(np.array(g1.padded_grid_from((3,3)))-np.array(g0.padded_grid_from((3,3))),9),axis=0))
print('zoom_mask_unmasked origin', m0.zoom_mask_unmasked.origin, m1.zoom_mask_unmasked.origin)
ov=aa.image_mesh.Overlay(shape=(5,5))
a=np.array(ov.image_plane_mesh_grid_from(mask=m0)); 
try:
    b=np.array(ov.image_plane_mesh_grid_from(mask=m1)); print('overlay shapes',a.shape,b.shape, (np.unique(np.round(b-a,9),axis=0) if a.shape==b.shape else 'DIFF SHAPE'))
except Exception as e: print('overlay EXC',type(e).__name__,e)
# noise scaling
def ds(m):
    data=aa.Array2D.no_mask(values=np.ones((11,11)),pixel_scales=1.0,origin=m.origin); noise=aa.Array2D.no_mask(values=np.ones((11,11)),pixel_scales=1.0,origin=m.origin)
    return aa.Imaging(data=data,noise_map=noise,psf=aa.Kernel2D.no_blur(pixel_scales=1.0))
print('noise scaling origin', ds(m1).apply_noise_scaling(mask=m1).data.mask.origin)
sim=aa.SimulatorImaging(exposure_time=100.0,add_poisson_noise_to_data=False,include_poisson_noise_in_noise_map=False)
im=aa.Array2D.no_mask(values=np.ones((7,7)),pixel_scales=1.0,origin=d)
print('simulator origin', sim.via_image_from(im).data.mask.origin)
nm=aa.preprocess.noise_map_with_signal_to_noise_limit_from(data=im,noise_map=im,signal_to_noise_limit=0.5)
print('sn limit origin', nm.mask.origin)
# 6: constructor mutating caller's array
arr=rng.normal(size=(11,11,2)); before=arr.copy(); aa.Grid2D(values=arr,mask=m0); print('Grid2D mutated caller array:', not np.array_equal(arr,before))
arr2=rng.normal(size=(11,11)); b2=arr2.copy(); aa.Array2D(values=arr2,mask=m0); print('Array2D mutated caller array:', not np.array_equal(arr2,b2))
# 10 residual flux fraction
class F(aa.FitDataset):
    def __init__(s,dataset,model): super().__init__(dataset=dataset); s._m=model
    @property
    def model_data(s): return s._m
dset=ds(m0).apply_mask(m0)
fit=F(dset, aa.Array2D(values=0.5*np.ones(m0.pixels_in_mask),mask=m0))
print('rff == chi2map', np.allclose(fit.residual_flux_fraction_map, fit.chi_squared_map), 'expected', (fit.residual_map/fit.data)[0], 'got', fit.residual_flux_fraction_map[0])
# 11 edge indices with outer ring
mk2=np.ones((5,5),bool); mk2[0,0]=False; mk2[2,1:4]=False
mm=aa.Mask2D(mask=mk2,pixel_scales=1.0)
print('edge_slim', mm.derive_indexes.edge_slim, 'native_for_slim', mm.derive_indexes.native_for_slim.tolist(), 'edge_native', mm.derive_indexes.edge_native.tolist())
# 13 bare file name
os.chdir(tempfile.mkdtemp())
try:
    aa.Array2D.no_mask(values=np.ones((3,3)),pixel_scales=1.0).output_to_fits(file_path='bare.fits',overwrite=True); print('bare file OK', os.path.exists('bare.fits'))
except Exception as e: print('bare file EXC',type(e).__name__,e)
# 14 anisotropic header
arr=aa.Array2D.no_mask(values=np.ones((3,4)),pixel_scales=(1.0,2.0))
print('header', arr.pixel_scale_header)
h=arr.hdu_for_output; back=aa.Array2D.from_primary_hdu(h); print('read back scales', back.pixel_scales)
