"""Prototype: mutation summaries + alias tracking, bottom-up over a name-resolved call graph."""
import ast, os, sys, collections
ROOT='/repo/autoarray'
mods={}
for dp,_,fs in os.walk(ROOT):
    if '/plot' in dp or '/mock' in dp: continue
    for f in fs:
        if f.endswith('.py'):
            p=os.path.join(dp,f); mods[p]=ast.parse(open(p).read())
# function index: by (qual) and by simple name -> list
funcs={}   # key -> (path, cls or None, node)
byname=collections.defaultdict(list)
cached=collections.defaultdict(set)   # class -> cached prop names
props=collections.defaultdict(set)
for p,t in mods.items():
    for n in t.body:
        if isinstance(n,ast.FunctionDef):
            funcs[(p,None,n.name)]=n; byname[n.name].append((p,None,n.name))
        if isinstance(n,ast.ClassDef):
            for m in n.body:
                if isinstance(m,ast.FunctionDef):
                    funcs[(p,n.name,m.name)]=m; byname[m.name].append((p,n.name,m.name))
                    decs=[ast.unparse(d) for d in m.decorator_list]
                    if any('cached_property' in d for d in decs): cached[n.name].add(m.name)
                    if any(d=='property' for d in decs): props[n.name].add(m.name)
all_cached=set().union(*cached.values())
FRESH_FUNCS={'zeros','ones','full','array','copy','deepcopy','empty','zeros_like','ones_like','stack','vstack','hstack','concatenate','where','delete','dot','matmul','add','subtract','multiply','divide','sqrt','square','invert','linspace','arange','mean','sum','abs','flipud','fliplr','append','unique','diag','solve','inv','cholesky','exp','log','arctan2','cos','sin','median','max','min','argsort','argwhere','block_diag','insert','sorted','list','dict','tuple','int','float','len','range','enumerate','zip','reversed','sign','clip','meshgrid','ravel_fresh','griddata','cumsum','real','imag','isnan','any','all','np_array','asarray_fresh','normalized','native','slim','astype','reshape_fresh'}
ALIAS_FUNCS={'convert_array','convert_grid','asarray','ravel','reshape','squeeze','transpose'}
class Own:  # ownership lattice element: set of tags
    pass
def analyse(key):
    p,cls,name=key; fn=funcs[key]
    params=[a.arg for a in fn.args.args+fn.args.kwonlyargs]
    env={}
    for a in params:
        env[a]={('PARAM',a)} if a not in('self','cls') else {('SELF',)}
    muts=[]   # (tagset, lineno, text)
    calls=[]  # (callee simple name, {param:tagset} , lineno)
    def own(e):
        if isinstance(e,ast.Name): return env.get(e.id,set())
        if isinstance(e,ast.Attribute):
            base=own(e.value)
            out=set()
            if e.attr in all_cached: out.add(('CACHED',e.attr))
            for t in base:
                if t[0]=='SELF': out.add(('SELFATTR',e.attr))
                elif t[0]=='SELFATTR' and t[1]=='preloads': out.add(('PRELOAD',e.attr))
                elif t[0]=='PARAM' and t[1]=='preloads': out.add(('PRELOAD',e.attr))
                elif t[0] in('PARAM','SELFATTR','CACHED','PRELOAD'):
                    if e.attr in ('native','slim','T','real','imag','array','_array','values','mask','grid'):  # views / storage
                        if e.attr in('native','slim'): pass  # fresh (constructor copy) -- arrays; grids alias? crude: fresh
                        else: out.add(t)
                    else: out.add(t) if e.attr not in props.get('',()) else None
            return out
        if isinstance(e,ast.Subscript): return own(e.value)
        if isinstance(e,ast.Call):
            f=e.func; nm=f.attr if isinstance(f,ast.Attribute) else getattr(f,'id','')
            if nm in ALIAS_FUNCS:
                src=e.args[0] if e.args else (e.keywords[0].value if e.keywords else None)
                if isinstance(f,ast.Attribute) and nm in('ravel','reshape','squeeze','transpose') : src=f.value
                return own(src) if src is not None else set()
            if nm=='get' : return set()
            return set()  # call result fresh (refined by returns_alias later - skipped)
        if isinstance(e,ast.IfExp): return own(e.body)|own(e.orelse)
        if isinstance(e,ast.BoolOp):
            s=set()
            for v in e.values: s|=own(v)
            return s
        return set()
    def record_call(c):
        f=c.func; nm=f.attr if isinstance(f,ast.Attribute) else getattr(f,'id',None)
        if nm is None: return
        b={}
        for i,a in enumerate(c.args): b[i]=own(a)
        for k in c.keywords:
            if k.arg: b[k.arg]=own(k.value)
        calls.append((nm,b,c.lineno,isinstance(f,ast.Attribute)))
    def visit(body):
        for st in body:
            for c in ast.walk(st):
                if isinstance(c,ast.Call): record_call(c)
            if isinstance(st,ast.Assign):
                o=own(st.value)
                for t in st.targets:
                    if isinstance(t,ast.Name): env[t.id]=set(o)
                    elif isinstance(t,ast.Tuple):
                        for el in t.elts:
                            if isinstance(el,ast.Name): env[el.id]=set(o)
                    elif isinstance(t,(ast.Subscript,)):
                        tg=own(t.value)
                        if tg: muts.append((tg,st.lineno,ast.unparse(st)[:70]))
                    elif isinstance(t,ast.Attribute):
                        tg=own(t.value)
                        tg={x for x in tg if x[0]!='SELF'} if name=='__init__' or True else tg
                        if tg: muts.append((tg,st.lineno,ast.unparse(st)[:70]))
            elif isinstance(st,ast.AugAssign):
                t=st.target
                tg=own(t) if isinstance(t,ast.Name) else own(t.value)
                if tg: muts.append((tg,st.lineno,ast.unparse(st)[:70]))
            elif isinstance(st,(ast.For,ast.While)):
                if isinstance(st,ast.For) and isinstance(st.target,ast.Name): env[st.target.id]=own(st.iter)
                visit(st.body); visit(st.orelse)
            elif isinstance(st,ast.If): visit(st.body); visit(st.orelse)
            elif isinstance(st,ast.With): visit(st.body)
            elif isinstance(st,ast.Try):
                visit(st.body)
                for h in st.handlers: visit(h.body)
                visit(st.orelse); visit(st.finalbody)
    visit(fn.body)
    return params,muts,calls
info={k:analyse(k) for k in funcs}
# summaries: mutated params by function key
mutp={k:set() for k in funcs}
for k,(params,muts,calls) in info.items():
    for tg,ln,tx in muts:
        for t in tg:
            if t[0]=='PARAM': mutp[k].add(t[1])
changed=True
while changed:
    changed=False
    for k,(params,muts,calls) in info.items():
        for nm,b,ln,isattr in calls:
            for ck in byname.get(nm,[]):
                cparams=[a for a in info[ck][0] if a not in('self','cls')] if ck[1] else info[ck][0]
                for mp in mutp[ck]:
                    tg=set()
                    if mp in b: tg=b[mp]
                    elif mp in cparams and cparams.index(mp) in b: tg=b[cparams.index(mp)]
                    for t in tg:
                        if t[0]=='PARAM' and t[1] not in mutp[k]:
                            mutp[k].add(t[1]); changed=True
print('functions',len(funcs))
print('== functions mutating a parameter (transitively):')
for k,v in sorted(mutp.items(),key=str):
    if v: print('  ',k[0][len(ROOT)+1:],k[1],k[2],sorted(v))
print('== writes reaching SELFATTR / CACHED / PRELOAD (direct or via mutating callee):')
for k,(params,muts,calls) in sorted(info.items(),key=str):
    if k[2] in('__init__','__setitem__','__array_finalize__') or k[2].startswith('set_'): continue
    for tg,ln,tx in muts:
        bad=[t for t in tg if t[0] in('SELFATTR','CACHED','PRELOAD')]
        if bad: print('  ',k[0][len(ROOT)+1:],k[1],k[2],ln,bad,tx)
    for nm,b,ln,isattr in calls:
        for ck in byname.get(nm,[]):
            cparams=[a for a in info[ck][0] if a not in('self','cls')] if ck[1] else info[ck][0]
            for mp in mutp[ck]:
                tg=b.get(mp) or (b.get(cparams.index(mp)) if mp in cparams else None) or set()
                bad=[t for t in tg if t[0] in('SELFATTR','CACHED','PRELOAD')]
                if bad: print('  ',k[0][len(ROOT)+1:],k[1],k[2],ln,bad,'via',nm,mp)
