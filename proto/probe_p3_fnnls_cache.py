import numpy as np, warnings, logging
warnings.filterwarnings("ignore"); logging.disable(logging.CRITICAL)
import autoarray as aa
from autoarray.util.fnnls import fnnls_cholesky
from scipy.optimize import nnls
rng=np.random.default_rng(1)
bad=0;tot=0;worst=0
for t in range(300):
    n=6; A=rng.normal(size=(12,n)); Q=A.T@A+0.1*np.eye(n); D=A.T@rng.normal(size=12)
    # reference via scipy nnls on cholesky factor
    L=np.linalg.cholesky(Q); ref,_=nnls(L.T, np.linalg.solve(L,D))
    P0=np.linalg.solve(Q,D)>0
    try:
        s=fnnls_cholesky(Q.copy(),D.copy(),P_initial=P0)
    except Exception as e:
        s=None
    tot+=1
    if s is None or np.abs(s-ref).max()>1e-6:
        bad+=1; 
        if s is not None: worst=max(worst,np.abs(s-ref).max())
    s2=fnnls_cholesky(Q.copy(),D.copy())
    assert np.abs(s2-ref).max()<1e-6
print('warm start nonoptimal',bad,'/',tot,'worst',worst)
# 9 stale cache
m=aa.Mask2D.circular(shape_native=(9,9),radius=3.0,pixel_scales=1.0)
g=aa.Grid2D.from_mask(m); _=g.is_uniform; g2=g*g  # squared grid not uniform
print('derived is_uniform (cached from source):', g2.is_uniform, ' fresh:', aa.Grid2D(values=np.array(g2),mask=m).is_uniform)
v=aa.Visibilities(visibilities=np.array([1+1j,2+0j])); _=v.amplitudes; print('amplitudes of 2*v', (v*2).amplitudes, 'expected', np.abs(np.array(v*2)))
