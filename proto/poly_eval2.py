import ast,sys
sys.path.insert(0,'/tmp/w')
from poly import P,TOP
from fractions import Fraction
import poly_eval as pe
# monkeypatch ev to support uninterpreted functions and record comparisons
Interp=pe.Interp
orig_ev=Interp.ev
def ev(s,e,env,alias,depth):
    if isinstance(e,ast.Call):
        f=e.func; nm=f.attr if isinstance(f,ast.Attribute) else getattr(f,'id',None)
        if nm in ('sqrt','cos','sin','log','exp','abs','arctan2','radians'):
            args=[s.ev(a,env,alias,depth) for a in e.args]
            if all(isinstance(a,P) for a in args): return P.sym(f"{nm}({', '.join(map(repr,args))})")
            return TOP
        if nm=='int':
            v=s.ev(e.args[0],env,alias,depth)
            if isinstance(v,P): return P.sym(f"int({v!r})")
            return TOP
        if nm=='full': return {}
    if isinstance(e,ast.Compare):
        l=s.ev(e.left,env,alias,depth); rs=[s.ev(c,env,alias,depth) for c in e.comparators]
        env.setdefault('#cmp',[]).append((l,[type(o).__name__ for o in e.ops],rs))
        return TOP
    if isinstance(e,ast.BoolOp):
        for v in e.values: s.ev(v,env,alias,depth)
        return TOP
    return orig_ev(s,e,env,alias,depth)
Interp.ev=ev
orig_block=Interp.block
def block(s,body,env,alias,depth):
    for st in body:
        if isinstance(st,ast.If): s.ev(st.test,env,alias,depth)
    return orig_block(s,body,env,alias,depth)
Interp.block=block
R='/repo/autoarray/'
I=Interp({'geometry_util':R+'geometry/geometry_util.py','mask_2d_util':R+'mask/mask_2d_util.py','array_2d_util':R+'structures/arrays/array_2d_util.py'})
H,W=P.sym('H'),P.sym('W'); s0,s1=P.sym('s0'),P.sym('s1'); cy,cx=P.sym('cy'),P.sym('cx')
fn=I.funcs[('mask_2d_util','mask_2d_circular_from')]
env={'shape_native':(H,W),'pixel_scales':(s0,s1),'radius':P.sym('R'),'centre':(cy,cx)}
# mask_2d.shape -> use shape_native: emulate by pre-binding mask_2d as symbolic with shape
class S(str): pass
I.block(fn.body,env,'mask_2d_util',0)
for k in ('y_scaled','x_scaled','r_scaled'): print(k, env.get(k))
print('cmp', env.get('#cmp'))
