import ast, os
ROOT='/repo/autoarray'
mods={}
for dp,_,fs in os.walk(ROOT):
    if '/plot' in dp: continue
    for f in fs:
        if f.endswith('.py'):
            p=os.path.join(dp,f); mods[p]=ast.parse(open(p).read())
# table: class.method or module.func having origin/origins param
table=set(); classes_with=set()
for p,t in mods.items():
    modname=os.path.basename(p)[:-3]
    for n in t.body:
        if isinstance(n,ast.FunctionDef):
            ps=[a.arg for a in n.args.args]
            if 'origin' in ps or 'origins' in ps: table.add((modname,n.name))
        if isinstance(n,ast.ClassDef):
            for m in n.body:
                if isinstance(m,ast.FunctionDef):
                    ps=[a.arg for a in m.args.args]
                    if 'origin' in ps or 'origins' in ps:
                        table.add((n.name, m.name))
                        if m.name=='__init__': classes_with.add(n.name)
GEO={'pixel_scales','shape_native','shape','pixel_scale','mask','shape_slim'}
def rooted_geo(e):
    for n in ast.walk(e):
        if isinstance(n,ast.Attribute) and n.attr in GEO and not (isinstance(n.value,ast.Name) and n.value.id in('np',)):
            # X.attr where X is Name/Attribute chain (object)
            return ast.unparse(n)
    return None
sites=0; miss=[]
for p,t in mods.items():
    for fn in ast.walk(t):
        if not isinstance(fn,ast.FunctionDef): continue
        for c in ast.walk(fn):
            if not isinstance(c,ast.Call): continue
            f=c.func; key=None
            if isinstance(f,ast.Name) and f.id in classes_with: key=(f.id,'__init__')
            elif isinstance(f,ast.Attribute) and isinstance(f.value,ast.Name):
                if (f.value.id,f.attr) in table: key=(f.value.id,f.attr)
                elif f.value.id=='cls' and any(m==f.attr for (_,m) in table): key=('cls',f.attr)
            elif isinstance(f,ast.Name) and f.id=='cls': key=('cls','__init__')
            if key is None: continue
            sites+=1
            kws={k.arg for k in c.keywords}
            if 'origin' in kws or 'origins' in kws: continue
            geo=[rooted_geo(k.value) for k in c.keywords]+[rooted_geo(a) for a in c.args]
            geo=[g for g in geo if g]
            miss.append((p[len(ROOT)+1:],c.lineno,fn.name,ast.unparse(f),geo))
print('table',len(table),'sites',sites,'missing origin',len(miss))
for m in miss: print(m)
