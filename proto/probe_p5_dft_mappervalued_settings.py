import numpy as np, warnings, logging
warnings.filterwarnings("ignore"); logging.disable(logging.CRITICAL)
import autoarray as aa
from autoarray.operators import transformer_util as tu
rng=np.random.default_rng(0)
grid=rng.normal(size=(5,2))*1e-5; uv=rng.normal(size=(4,2))*1e4
M=rng.normal(size=(5,3))
T=tu.transformed_mapping_matrix_jit(M,grid,uv)
cols=np.stack([tu.visibilities_jit(M[:,j],grid,uv) for j in range(3)],axis=1)
print('#3 matrix vs per-column max diff', np.abs(T-cols).max())
# 7 MapperValued
class MM:
    def __init__(s): s.mapping_matrix=np.ones((4,3)); 
    class G: mask=aa.Mask2D.all_false(shape_native=(2,2),pixel_scales=1.0)
    mapper_grids=G()
mp=MM(); vals=np.array([1.0,2.0,3.0]); mv=aa.MapperValued(mapper=mp,values=vals,mesh_pixel_mask=np.array([True,False,False]))
mv.mapped_reconstructed_image_from()
print('#7 caller values after query', vals, ' mapper.mapping_matrix col0', mp.mapping_matrix[:,0])
# 8 shared default settings
import inspect
from autoarray.inversion.inversion import factory
d=inspect.signature(factory.inversion_interferometer_from).parameters['settings'].default
d2=inspect.signature(factory.inversion_imaging_from).parameters['settings'].default
print('#8 default before', d.use_w_tilde, 'same object as imaging default?', d is d2)
try:
    factory.inversion_interferometer_from(dataset=None,linear_obj_list=[])
except Exception as e: pass
print('#8 default after ', d.use_w_tilde, ' fresh SettingsInversion().use_w_tilde =', aa.SettingsInversion().use_w_tilde)
