import ast,os
ROOT='/repo/autoarray'
def is_range_shape(it,k):
    return isinstance(it,ast.Call) and getattr(it.func,'id',None)=='range'
for dp,_,fs in os.walk(ROOT):
    if '/plot' in dp: continue
    for f in fs:
        if not f.endswith('.py'): continue
        p=os.path.join(dp,f); t=ast.parse(open(p).read())
        for fn in ast.walk(t):
            if not isinstance(fn,ast.FunctionDef): continue
            for n in ast.walk(fn):
                if isinstance(n,ast.For) and is_range_shape(n.iter,0):
                    for m in n.body:
                        if isinstance(m,ast.For) and is_range_shape(m.iter,1):
                            for g in m.body:
                                if isinstance(g,ast.If):
                                    tst=ast.unparse(g.test)
                                    # counters incremented inside
                                    incs=[ast.unparse(a.target) for a in ast.walk(g) if isinstance(a,ast.AugAssign) and isinstance(a.target,ast.Name) and isinstance(a.op,ast.Add) and isinstance(a.value,ast.Constant) and a.value.value==1]
                                    if incs and ('mask' in tst or 'not ' in tst):
                                        print(f"{p[len(ROOT)+1:]}:{n.lineno} {fn.name}: outer={ast.unparse(n.iter)} inner={ast.unparse(m.iter)} guard={tst[:50]} counters={incs}")
