import numpy as np, autoarray as aa, os, warnings
warnings.filterwarnings("ignore")
from autoarray.inversion.inversion.imaging import inversion_imaging_util as u
from autoarray.operators.convolver import Convolver
rng=np.random.default_rng(0)
# --- 1: non-square kernel w_tilde_data vs mapping
mask=np.ones((9,11),bool); mask[3:6,3:8]=False
m=aa.Mask2D(mask=mask,pixel_scales=1.0)
img=aa.Array2D(values=rng.normal(size=(9,11)),mask=m); noise=aa.Array2D(values=1+rng.random((9,11)),mask=m)
for ks in [(3,3),(3,5),(5,3)]:
    k=aa.Kernel2D.no_mask(values=rng.random(ks),pixel_scales=1.0)
    conv=Convolver(mask=m,kernel=k)
    n=m.pixels_in_mask
    B=conv.convolve_mapping_matrix(np.eye(n))
    d_map=B.T@(np.array(img.slim)/np.array(noise.slim)**2)
    try:
        wd=u.w_tilde_data_imaging_from(np.array(img.native),np.array(noise.native),np.array(k.native),m.derive_indexes.native_for_slim)
        print(ks,'w_tilde_data max diff',np.abs(wd-d_map).max())
    except Exception as e: print(ks,'w_tilde_data EXC',type(e).__name__,e)
    try:
        W=u.w_tilde_curvature_imaging_from(np.array(noise.native),np.array(k.native),m.derive_indexes.native_for_slim)
        F=B.T@np.diag(1/np.array(noise.slim)**2)@B
        print(ks,'w_tilde_curv max diff',np.abs(W-F).max())
    except Exception as e: print(ks,'w_tilde_curv EXC',type(e).__name__,e)
# --- 2: negative mapping matrix entries
k=aa.Kernel2D.no_mask(values=rng.random((3,3)),pixel_scales=1.0); conv=Convolver(mask=m,kernel=k)
M=rng.normal(size=(m.pixels_in_mask,4))
print('convolve_matrix linear? diff',np.abs(conv.convolve_mapping_matrix(M)- (conv.convolve_mapping_matrix(np.abs(M)*(M>0)) - conv.convolve_mapping_matrix(np.abs(M)*(M<0)))).max())
# --- 4: signed PSF w_tilde preload
ks=rng.normal(size=(3,3)); k=aa.Kernel2D.no_mask(values=ks,pixel_scales=1.0)
pre,idx,lens=u.w_tilde_curvature_preload_imaging_from(np.array(noise.native),np.array(k.native),m.derive_indexes.native_for_slim)
W=u.w_tilde_curvature_imaging_from(np.array(noise.native),np.array(k.native),m.derive_indexes.native_for_slim)
n=m.pixels_in_mask; Wp=np.zeros((n,n)); c=0
for i in range(n):
    for j in range(int(lens[i])):
        Wp[i,int(idx[c])]+=pre[c]; c+=1
Wp=Wp+Wp.T
print('signed PSF preload vs dense max diff',np.abs(Wp-W).max())
