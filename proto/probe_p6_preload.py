import numpy as np, warnings, logging
warnings.filterwarnings("ignore"); logging.disable(logging.CRITICAL)
import autoarray as aa
from autoarray import fixtures as fx
ds=fx.make_masked_imaging_7x7()
m1=fx.make_rectangular_mapper_7x7_3x3(); m2=fx.make_rectangular_mapper_7x7_3x3()
inv0=aa.Inversion(dataset=ds,linear_obj_list=[m1,m2],settings=aa.SettingsInversion(use_w_tilde=True,use_positive_only_solver=False))
print(type(inv0).__name__)
diag=inv0._curvature_matrix_mapper_diag.copy(); dvm=inv0._data_vector_mapper
pre=aa.Preloads(curvature_matrix_mapper_diag=diag.copy(), data_vector_mapper=np.array(dvm).copy())
before=pre.curvature_matrix_mapper_diag.copy()
inv1=aa.Inversion(dataset=ds,linear_obj_list=[m1,m2],settings=aa.SettingsInversion(use_w_tilde=True,use_positive_only_solver=False),preloads=pre)
F1=inv1.curvature_matrix
print('#12 preload diag changed by inversion:', not np.array_equal(before,pre.curvature_matrix_mapper_diag), 'offdiag block now nonzero:', np.abs(pre.curvature_matrix_mapper_diag[:9,9:]).max())
print('curvature equal to no-preload:', np.allclose(F1,inv0.curvature_matrix))
