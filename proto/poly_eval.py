import ast,sys
sys.path.insert(0,'/tmp/w')
from poly import P,TOP
from fractions import Fraction
class Interp:
    def __init__(s,modules):
        s.funcs={}
        for alias,path in modules.items():
            t=ast.parse(open(path).read())
            for n in t.body:
                if isinstance(n,ast.FunctionDef): s.funcs[(alias,n.name)]=n
        s.fresh=0
    def call(s,alias,name,kw,depth=0):
        fn=s.funcs[(alias,name)]
        env={}
        params=[a.arg for a in fn.args.args]
        defaults=dict(zip(params[len(params)-len(fn.args.defaults):],fn.args.defaults))
        for p in params:
            if p in kw: env[p]=kw[p]
            elif p in defaults: env[p]=s.ev(defaults[p],{},alias,depth)
            else: env[p]=TOP
        return s.block(fn.body,env,alias,depth)
    def block(s,body,env,alias,depth):
        ret=None
        for st in body:
            if isinstance(st,ast.Assign):
                v=s.ev(st.value,env,alias,depth)
                for t in st.targets: s.assign(t,v,env,alias,depth)
            elif isinstance(st,ast.AugAssign):
                cur=s.ev(st.target,env,alias,depth); v=s.ev(st.value,env,alias,depth)
                s.assign(st.target,s.binop(st.op,cur,v),env,alias,depth)
            elif isinstance(st,ast.For):
                # loop var = atom
                it=st.iter
                if isinstance(st.target,ast.Name):
                    env[st.target.id]=P.sym('$'+st.target.id)
                    env['#range:'+st.target.id]=ast.unparse(it)
                r=s.block(st.body,env,alias,depth)
                if r is not None: ret=r
            elif isinstance(st,ast.If):
                r=s.block(st.body,env,alias,depth)
                r2=s.block(st.orelse,env,alias,depth)
            elif isinstance(st,ast.Return):
                ret=s.ev(st.value,env,alias,depth); env['#ret']=ret
            elif isinstance(st,ast.Expr): pass
        return env.get('#ret',ret)
    def assign(s,t,v,env,alias,depth):
        if isinstance(t,ast.Name): env[t.id]=v
        elif isinstance(t,ast.Subscript):
            base=t.value
            if isinstance(base,ast.Name):
                key=s.idxkey(t.slice,env,alias,depth)
                arr=env.setdefault(base.id,{})
                if isinstance(arr,dict): arr[key]=v
        elif isinstance(t,ast.Tuple) and isinstance(v,tuple):
            for a,b in zip(t.elts,v): s.assign(a,b,env,alias,depth)
    def idxkey(s,sl,env,alias,depth):
        # key = last constant component index if any, else '*'
        els=sl.elts if isinstance(sl,ast.Tuple) else [sl]
        last=els[-1]
        if isinstance(last,ast.Constant): return last.value
        return '*'
    def binop(s,op,a,b):
        if a is TOP or b is TOP or not isinstance(a,P) or not isinstance(b,P): return TOP
        if isinstance(op,ast.Add): return a+b
        if isinstance(op,ast.Sub): return a-b
        if isinstance(op,ast.Mult): return a*b
        if isinstance(op,ast.Div):
            i=b.inv(); return a*i if i is not None else TOP
        if isinstance(op,ast.Pow):
            if len(b.t)==1 and frozenset() in b.t and b.t[frozenset()].denominator==1 and 0<=b.t[frozenset()]<=4:
                r=P.const(1)
                for _ in range(int(b.t[frozenset()])): r=r*a
                return r
        return TOP
    def ev(s,e,env,alias,depth):
        if isinstance(e,ast.Constant):
            if isinstance(e.value,(int,float)) and not isinstance(e.value,bool): return P.const(Fraction(str(e.value)))
            return TOP
        if isinstance(e,ast.Name): return env.get(e.id,TOP)
        if isinstance(e,ast.Tuple): return tuple(s.ev(x,env,alias,depth) for x in e.elts)
        if isinstance(e,ast.UnaryOp) and isinstance(e.op,ast.USub):
            v=s.ev(e.operand,env,alias,depth); return -v if isinstance(v,P) else TOP
        if isinstance(e,ast.BinOp): return s.binop(e.op,s.ev(e.left,env,alias,depth),s.ev(e.right,env,alias,depth))
        if isinstance(e,ast.Subscript):
            base=s.ev(e.value,env,alias,depth)
            if isinstance(base,tuple) and isinstance(e.slice,ast.Constant): return base[e.slice.value]
            if isinstance(base,dict):
                k=s.idxkey(e.slice,env,alias,depth); return base.get(k,TOP)
            if isinstance(base,str):  # symbolic array: element atom by component
                k=s.idxkey(e.slice,env,alias,depth)
                # element atom: name[comp]; generic element of row indexed by loop var
                return P.sym(f'{base}[{k}]')
            return TOP
        if isinstance(e,ast.Attribute):
            if e.attr=='shape':
                b=s.ev(e.value,env,alias,depth)
                if isinstance(b,str): return (P.sym(f'{b}.shape0'),P.sym(f'{b}.shape1'))
            return TOP
        if isinstance(e,ast.Call):
            f=e.func
            nm=f.attr if isinstance(f,ast.Attribute) else getattr(f,'id',None)
            if nm in ('float',): return s.ev(e.args[0],env,alias,depth)
            if nm=='int':
                v=s.ev(e.args[0],env,alias,depth)
                return ('int',v)
            if nm=='zeros' : return {}
            mod=f.value.id if isinstance(f,ast.Attribute) and isinstance(f.value,ast.Name) else alias
            if (mod,nm) in s.funcs and depth<4:
                fn=s.funcs[(mod,nm)]
                params=[a.arg for a in fn.args.args]
                kw={p:s.ev(a,env,alias,depth) for p,a in zip(params,e.args)}
                kw.update({k.arg:s.ev(k.value,env,alias,depth) for k in e.keywords})
                return s.call(mod,nm,kw,depth+1)
            return TOP
        return TOP
R='/repo/autoarray/'
I=Interp({'geometry_util':R+'geometry/geometry_util.py','grid_2d_util':R+'structures/grids/grid_2d_util.py','mask_2d_util':R+'mask/mask_2d_util.py','over_sample_util':R+'operators/over_sampling/over_sample_util.py'})
H,W=P.sym('H'),P.sym('W'); s0,s1=P.sym('s0'),P.sym('s1'); oy,ox=P.sym('oy'),P.sym('ox')
shape=(H,W); ps=(s0,s1); org=(oy,ox)
print('central_scaled', I.call('geometry_util','central_scaled_coordinate_2d_from',dict(shape_native=shape,pixel_scales=ps,origin=org)))
print('scaled_from_pix', I.call('geometry_util','scaled_coordinates_2d_from',dict(pixel_coordinates_2d=(P.sym('i'),P.sym('j')),shape_native=shape,pixel_scales=ps,origins=org)))
print('pix_from_scaled', I.call('geometry_util','pixel_coordinates_2d_from',dict(scaled_coordinates_2d=(P.sym('y'),P.sym('x')),shape_native=shape,pixel_scales=ps,origins=org)))
r=I.call('grid_2d_util','grid_2d_slim_via_mask_from',dict(mask_2d='M',pixel_scales=ps,origin=org))
print('grid_via_mask', r)
r=I.call('geometry_util','grid_pixels_2d_slim_from',dict(grid_scaled_2d_slim='G',shape_native=shape,pixel_scales=ps,origin=org))
print('grid_pixels', r)
r=I.call('geometry_util','grid_scaled_2d_slim_from',dict(grid_pixels_2d_slim='Q',shape_native=shape,pixel_scales=ps,origin=org))
print('grid_scaled', r)
r=I.call('over_sample_util','grid_2d_slim_over_sampled_via_mask_from',dict(mask_2d='M',pixel_scales=ps,sub_size='SUB',origin=org))
print('oversampled', r)
