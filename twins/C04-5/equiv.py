"""
Differential test for the C04-5 twin (`AbstractInversion.curvature_reg_matrix`).

Prints one sha256 digest over every observed result: values (tobytes), dtypes, shapes, types, exception types,
cache state (`"curvature_matrix" in inversion.__dict__`), aliasing / identity relations between the arrays handed
to the caller, in-place effects on arrays read earlier, and profiling-key order.  Run on the clean tree and on
the twin tree: the two digests must be identical.

    cd /tmp/wt8/C04-5 && PYTHONPATH=/tmp/wt8/C04-5 /venv/bin/python equiv.py
"""
import hashlib
import logging
import warnings

warnings.filterwarnings("ignore")
logging.disable(logging.CRITICAL)

import numpy as np
import autoarray as aa
from autoarray.inversion.inversion.abstract import AbstractInversion
from autoarray.inversion.inversion.dataset_interface import DatasetInterface
from autoarray.preloads import Preloads

H = hashlib.sha256()
N_RECORDS = 0
N_RAISED = 0


def rec(tag, value):
    """Feed one labelled observation into the digest."""
    global N_RECORDS
    N_RECORDS += 1
    H.update(repr(tag).encode())
    if isinstance(value, np.ndarray):
        H.update(type(value).__name__.encode())
        H.update(str(value.dtype).encode())
        H.update(repr(value.shape).encode())
        if value.dtype == object:
            H.update(repr(value.tolist()).encode())
        else:
            H.update(np.ascontiguousarray(value).tobytes())
    elif isinstance(value, (list, tuple)):
        H.update(type(value).__name__.encode())
        for i, v in enumerate(value):
            rec((tag, i), v)
    else:
        H.update(type(value).__name__.encode())
        H.update(repr(value).encode())


def attempt(tag, func):
    """Run func, record its result or the raised exception type; return the result (or None)."""
    try:
        result = func()
    except BaseException as e:  # noqa
        global N_RAISED
        N_RAISED += 1
        rec((tag, "raised"), type(e).__name__)
        return None
    rec((tag, "ok"), result)
    return result


def cache_state(tag, inversion):
    rec(
        (tag, "cache"),
        [
            key in inversion.__dict__
            for key in (
                "curvature_matrix",
                "curvature_reg_matrix",
                "regularization_matrix",
                "curvature_reg_matrix_reduced",
                "reconstruction",
            )
        ],
    )


def same(a, b):
    if isinstance(a, np.ndarray) and isinstance(b, np.ndarray):
        return [a is b, bool(np.shares_memory(a, b))]
    return [a is b, None]


# ------------------------------------------------------------------------------------------------ datasets


def make_imaging(shape, unmasked, holes, pixel_scales, origin, psf_shape, seed, normalized=False):
    rng = np.random.default_rng(seed)
    mask_arr = np.ones(shape, dtype=bool)
    (y0, y1), (x0, x1) = unmasked
    mask_arr[y0:y1, x0:x1] = False
    for hole in holes:
        mask_arr[hole] = True
    mask = aa.Mask2D(mask=mask_arr, pixel_scales=pixel_scales, origin=origin)
    psf_arr = rng.normal(size=psf_shape) if not normalized else rng.uniform(0.1, 1.0, size=psf_shape)
    data_arr = rng.normal(size=shape) + 2.0
    noise_arr = rng.uniform(0.5, 2.0, size=shape)
    dataset = aa.Imaging(
        data=aa.Array2D.no_mask(values=data_arr, pixel_scales=pixel_scales, origin=origin),
        noise_map=aa.Array2D.no_mask(values=noise_arr, pixel_scales=pixel_scales, origin=origin),
        psf=aa.Kernel2D.no_mask(values=psf_arr, pixel_scales=pixel_scales),
        use_normalized_psf=normalized,
        over_sampling=aa.OverSamplingDataset(uniform=aa.OverSamplingUniform(sub_size=1)),
    ).apply_mask(mask=mask)
    return mask, dataset, rng


def rectangular_mapper(mask, sub_size, shape_native, regularization):
    over_sampler = aa.OverSamplerUniform(mask=mask, sub_size=sub_size)
    grid = over_sampler.over_sampled_grid
    mesh_grid = aa.Mesh2DRectangular.overlay_grid(grid=grid, shape_native=shape_native)
    mapper_grids = aa.MapperGrids(mask=mask, source_plane_data_grid=grid, source_plane_mesh_grid=mesh_grid)
    return aa.MapperRectangular(
        mapper_grids=mapper_grids,
        over_sampler=over_sampler,
        border_relocator=None,
        regularization=regularization,
    )


def delaunay_mapper(mask, sub_size, points, regularization):
    over_sampler = aa.OverSamplerUniform(mask=mask, sub_size=sub_size)
    grid = over_sampler.over_sampled_grid
    mesh_grid = aa.Mesh2DDelaunay(values=aa.Grid2DIrregular(values=points))
    mapper_grids = aa.MapperGrids(mask=mask, source_plane_data_grid=grid, source_plane_mesh_grid=mesh_grid)
    return aa.MapperDelaunay(
        mapper_grids=mapper_grids,
        over_sampler=over_sampler,
        border_relocator=None,
        regularization=regularization,
    )


def func_list_obj(mask, rng, parameters, regularization=None):
    return aa.m.MockLinearObjFuncList(
        parameters=parameters,
        grid=aa.Grid2D.from_mask(mask=mask),
        mapping_matrix=rng.uniform(0.1, 1.0, size=(mask.pixels_in_mask, parameters)),
        regularization=regularization,
    )


# ------------------------------------------------------------------------------------------------ read orders


def order_f_first(tag, inv):
    F0 = attempt((tag, "F0"), lambda: inv.curvature_matrix)
    F0_copy = None if F0 is None else np.array(F0)
    cache_state((tag, 0), inv)
    CR = attempt((tag, "CR"), lambda: inv.curvature_reg_matrix)
    cache_state((tag, 1), inv)
    # the in-place effect on the array that the caller read earlier
    rec((tag, "F0 after CR"), F0)
    rec((tag, "F0 vs CR"), same(F0, CR))
    F1 = attempt((tag, "F1"), lambda: inv.curvature_matrix)
    cache_state((tag, 2), inv)
    rec((tag, "F1 vs CR"), same(F1, CR))
    rec((tag, "F1 vs F0"), same(F1, F0))
    if F0_copy is not None and F1 is not None:
        rec((tag, "F1 == F0_copy"), bool(np.array_equal(F0_copy, F1)))
    CR2 = attempt((tag, "CR2"), lambda: inv.curvature_reg_matrix)
    rec((tag, "CR2 is CR"), CR2 is CR)
    F2 = attempt((tag, "F2"), lambda: inv.curvature_matrix)
    rec((tag, "F2 vs F1"), same(F2, F1))
    rec((tag, "CR after F2"), CR)
    attempt((tag, "Hmat"), lambda: inv.regularization_matrix)
    attempt((tag, "D"), lambda: inv.data_vector)


def order_solve_first(tag, inv):
    attempt((tag, "recon"), lambda: inv.reconstruction)
    cache_state((tag, 0), inv)
    attempt((tag, "mapped"), lambda: np.array(inv.mapped_reconstructed_data))
    F1 = attempt((tag, "F1"), lambda: inv.curvature_matrix)
    CR = attempt((tag, "CR"), lambda: inv.curvature_reg_matrix)
    rec((tag, "F1 vs CR"), same(F1, CR))
    cache_state((tag, 1), inv)
    attempt((tag, "CRred"), lambda: inv.curvature_reg_matrix_reduced)
    attempt((tag, "logdetCR"), lambda: inv.log_det_curvature_reg_matrix_term)
    attempt((tag, "logdetH"), lambda: inv.log_det_regularization_matrix_term)
    attempt((tag, "regterm"), lambda: inv.regularization_term)
    F2 = attempt((tag, "F2"), lambda: inv.curvature_matrix)
    rec((tag, "F2 vs F1"), same(F2, F1))
    rec((tag, "CR final"), CR)
    cache_state((tag, 2), inv)
    attempt((tag, "recon_dict"), lambda: [np.array(v) for v in inv.reconstruction_dict.values()])
    attempt((tag, "errors"), lambda: inv.errors)


def order_mutate_between(tag, inv):
    """The caller writes into the arrays it was handed; what do later reads see?"""
    CR = attempt((tag, "CR"), lambda: inv.curvature_reg_matrix)
    F1 = attempt((tag, "F1"), lambda: inv.curvature_matrix)
    if isinstance(CR, np.ndarray) and CR.size:
        CR[0, 0] += 1000.0
    rec((tag, "F1 after CR write"), F1)
    F2 = attempt((tag, "F2"), lambda: inv.curvature_matrix)
    if isinstance(F2, np.ndarray) and F2.size:
        F2[-1, -1] -= 500.0
    attempt((tag, "CR again"), lambda: inv.curvature_reg_matrix)
    attempt((tag, "F3"), lambda: inv.curvature_matrix)
    cache_state((tag, 0), inv)
    attempt((tag, "recon"), lambda: inv.reconstruction)


ORDERS = [("f_first", order_f_first), ("solve_first", order_solve_first), ("mutate", order_mutate_between)]


def run_imaging_config(cfg_tag, mask, dataset, linear_obj_lists, settings_kwargs_list):
    for label, linear_obj_list in linear_obj_lists:
        for skw in settings_kwargs_list:
            for use_w_tilde in (False, True):
                for order_name, order in ORDERS:
                    tag = (cfg_tag, label, tuple(sorted(skw.items())), use_w_tilde, order_name)
                    try:
                        inv = aa.Inversion(
                            dataset=dataset,
                            linear_obj_list=linear_obj_list,
                            settings=aa.SettingsInversion(use_w_tilde=use_w_tilde, **skw),
                        )
                    except BaseException as e:  # noqa
                        rec((tag, "ctor raised"), type(e).__name__)
                        continue
                    rec((tag, "cls"), type(inv).__name__)
                    order(tag, inv)


# ================================================================================================ 1. imaging
# 1a: the trigger of the notes (9x11 frame, 3x5 signed PSF, hole in the mask)
mask, dataset, rng = make_imaging((9, 11), ((2, 7), (3, 8)), [(4, 5)], (1.0, 1.0), (0.0, 0.0), (3, 5), seed=4)
m_rect = rectangular_mapper(mask, 2, (3, 4), aa.reg.Constant(coefficient=1.0))
m_del = delaunay_mapper(mask, 1, rng.uniform(-2.5, 2.5, size=(8, 2)), aa.reg.Constant(coefficient=2.0))
m_rect_noreg = rectangular_mapper(mask, 1, (2, 2), None)
fl = func_list_obj(mask, rng, 2)
fl1 = func_list_obj(mask, rng, 1)
fl_reg = func_list_obj(mask, rng, 3, regularization=aa.reg.Constant(coefficient=0.5))

lists_a = [
    ("[rect]", [m_rect]),
    ("[del]", [m_del]),
    ("[fl]", [fl]),
    ("[fl1]", [fl1]),
    ("[fl,fl1]", [fl, fl1]),
    ("[fl_reg]", [fl_reg]),
    ("[rect_noreg]", [m_rect_noreg]),
    ("[rect,del]", [m_rect, m_del]),
    ("[rect,rect]", [m_rect, m_rect]),
    ("[fl,rect]", [fl, m_rect]),
    ("[rect,fl]", [m_rect, fl]),
    ("[del,fl,rect]", [m_del, fl, m_rect]),
    ("[fl,fl1,del]", [fl, fl1, m_del]),
    ("[rect_noreg,del]", [m_rect_noreg, m_del]),
    ("[fl_reg,fl]", [fl_reg, fl]),
    ("[rect,del,rect,fl]", [m_rect, m_del, m_rect, fl]),
    ("[]", []),
]
run_imaging_config(
    "A",
    mask,
    dataset,
    lists_a,
    [
        {},
        {"use_positive_only_solver": False},
        {"use_positive_only_solver": False, "force_edge_pixels_to_zeros": False},
        {"no_regularization_add_to_curvature_diag_value": 0.25},
    ],
)

# 1b: non-square frame, anisotropic pixel scales, non-zero origin, mask touching the frame edges, tall PSF
mask_b, dataset_b, rng_b = make_imaging(
    (6, 9), ((0, 6), (0, 5)), [(0, 0), (3, 2)], (0.5, 2.0), (1.5, -3.0), (5, 3), seed=11, normalized=True
)
mb_rect = rectangular_mapper(mask_b, 1, (4, 3), aa.reg.Constant(coefficient=3.0))
mb_rect2 = rectangular_mapper(mask_b, 2, (3, 3), aa.reg.ConstantZeroth(coefficient_neighbor=1.0, coefficient_zeroth=0.1))
mb_del = delaunay_mapper(
    mask_b,
    1,
    np.stack([rng_b.uniform(0.2, 2.8, size=7), rng_b.uniform(-10.0, -4.0, size=7)], axis=1),
    aa.reg.Constant(coefficient=0.1),
)
flb = func_list_obj(mask_b, rng_b, 2)
lists_b = [
    ("[rect]", [mb_rect]),
    ("[rect2]", [mb_rect2]),
    ("[rect,rect2]", [mb_rect, mb_rect2]),
    ("[rect2,del]", [mb_rect2, mb_del]),
    ("[fl,del]", [flb, mb_del]),
    ("[rect,fl,del]", [mb_rect, flb, mb_del]),
    ("[fl]", [flb]),
]
run_imaging_config("B", mask_b, dataset_b, lists_b, [{}, {"use_positive_only_solver": False}])

# 1c: a single unmasked pixel
mask_c, dataset_c, rng_c = make_imaging((5, 4), ((2, 3), (1, 2)), [], (1.0, 0.7), (0.0, 0.0), (3, 3), seed=2)
mc_rect = rectangular_mapper(mask_c, 1, (3, 3), aa.reg.Constant(coefficient=1.0))
flc = func_list_obj(mask_c, rng_c, 1)
run_imaging_config(
    "C", mask_c, dataset_c, [("[rect]", [mc_rect]), ("[fl,rect]", [flc, mc_rect]), ("[fl]", [flc])], [{}]
)

# ================================================================================================ 2. preloads
H_single = np.array(m_rect.regularization_matrix)
P_single = H_single.shape[0]
F_pre = np.arange(P_single * P_single, dtype=float).reshape(P_single, P_single)
H_two = np.array(m_rect.regularization_matrix)
two_P = m_rect.params + m_del.params

preload_cases = [
    ("H ok single", [m_rect], dict(regularization_matrix=2.0 * H_single)),
    ("H bad shape single", [m_rect], dict(regularization_matrix=np.ones((3, 3)))),
    ("H broadcast row single", [m_rect], dict(regularization_matrix=np.ones((1, P_single)))),
    ("H bigger single", [m_rect], dict(regularization_matrix=np.ones((2, P_single, P_single)))),
    ("H complex single", [m_rect], dict(regularization_matrix=1j * np.ones((P_single, P_single)))),
    ("H int single", [m_rect], dict(regularization_matrix=np.ones((P_single, P_single), dtype=int))),
    ("H scalar single", [m_rect], dict(regularization_matrix=3.0)),
    ("H list single", [m_rect], dict(regularization_matrix=[[1.0] * P_single] * P_single)),
    ("H str single", [m_rect], dict(regularization_matrix="x")),
    ("F preload single", [m_rect], dict(curvature_matrix=F_pre)),
    ("F preload int single", [m_rect], dict(curvature_matrix=F_pre.astype(int))),
    ("F preload int + H float single", [m_rect], dict(curvature_matrix=F_pre.astype(int), regularization_matrix=0.5 * H_single)),
    ("F preload list single", [m_rect], dict(curvature_matrix=[1.0, 2.0])),
    ("F preload tuple single", [m_rect], dict(curvature_matrix=(1.0, 2.0))),
    ("F preload float single", [m_rect], dict(curvature_matrix=2.5)),
    ("F preload matrix single", [m_rect], dict(curvature_matrix=np.matrix(F_pre))),
    ("F preload readonly single", [m_rect], dict(curvature_matrix="readonly")),
    ("H ok two", [m_rect, m_del], dict(regularization_matrix=np.eye(two_P))),
    ("H bad shape two", [m_rect, m_del], dict(regularization_matrix=np.ones((3, 3)))),
    ("H broadcast row two", [m_rect, m_del], dict(regularization_matrix=np.ones((1, two_P)))),
    ("H bigger two", [m_rect, m_del], dict(regularization_matrix=np.ones((2, two_P, two_P)))),
    ("H complex two", [m_rect, m_del], dict(regularization_matrix=1j * np.ones((two_P, two_P)))),
    ("H scalar two", [m_rect, m_del], dict(regularization_matrix=3.0)),
    ("H str two", [m_rect, m_del], dict(regularization_matrix="x")),
    ("F preload two", [m_rect, m_del], dict(curvature_matrix=np.arange(two_P * two_P, dtype=float).reshape(two_P, two_P))),
    ("F preload int two", [m_rect, m_del], dict(curvature_matrix=np.arange(two_P * two_P).reshape(two_P, two_P))),
    ("F preload list two", [m_rect, m_del], dict(curvature_matrix=[1.0, 2.0])),
    ("F preload float two", [m_rect, m_del], dict(curvature_matrix=2.5)),
    ("F preload matrix two", [fl, m_rect], dict(curvature_matrix=np.matrix(np.ones((2 + P_single, 2 + P_single))))),
    ("F preload no reg", [fl], dict(curvature_matrix=np.ones((2, 2)))),
    ("F preload list no reg", [fl], dict(curvature_matrix=[1.0, 2.0])),
]

for label, linear_obj_list, pre_kwargs in preload_cases:
    for use_w_tilde in (False, True):
        for order_name, order in ORDERS:
            tag = ("preload", label, use_w_tilde, order_name)
            pre_kwargs_now = dict(pre_kwargs)
            originals = {}
            for key, value in list(pre_kwargs_now.items()):
                if isinstance(value, str) and value == "readonly":
                    value = np.array(F_pre)
                    value.setflags(write=False)
                    pre_kwargs_now[key] = value
                elif isinstance(value, np.ndarray):
                    pre_kwargs_now[key] = value.copy()
                originals[key] = pre_kwargs_now[key]
            inv = aa.Inversion(
                dataset=dataset,
                linear_obj_list=linear_obj_list,
                settings=aa.SettingsInversion(use_w_tilde=use_w_tilde),
                preloads=Preloads(**pre_kwargs_now),
            )
            order(tag, inv)
            # the preloaded objects themselves must not have been written to (or must have been: same either way)
            for key, value in originals.items():
                rec((tag, "preload after", key), value)

# ================================================================================================ 3. profiling
for label, linear_obj_list in [("[rect]", [m_rect]), ("[rect,del]", [m_rect, m_del]), ("[fl]", [fl]), ("[fl,rect]", [fl, m_rect])]:
    for use_w_tilde in (False, True):
        run_time_dict = {}
        inv = aa.Inversion(
            dataset=dataset,
            linear_obj_list=linear_obj_list,
            settings=aa.SettingsInversion(use_w_tilde=use_w_tilde),
            run_time_dict=run_time_dict,
        )
        tag = ("profile", label, use_w_tilde)
        attempt((tag, "CR"), lambda: inv.curvature_reg_matrix)
        rec((tag, "keys 0"), list(run_time_dict.keys()))
        attempt((tag, "F"), lambda: inv.curvature_matrix)
        rec((tag, "keys 1"), list(run_time_dict.keys()))
        attempt((tag, "recon"), lambda: inv.reconstruction)
        attempt((tag, "F"), lambda: inv.curvature_matrix)
        rec((tag, "keys 2"), list(run_time_dict.keys()))

# ================================================================================================ 4. interferometer
# PyLops is not installed here, so `aa.Interferometer` cannot be built (its transformer raises at construction; that
# is recorded).  The interferometer inversion classes are still exercised through a `DatasetInterface` carrying a
# small dense DFT "transformer" (they only need `transform_mapping_matrix` and `real_space_mask`).
def _try_real_interferometer():
    from autoarray import fixtures

    return type(fixtures.make_interferometer_7()).__name__


attempt(("interferometer", "real dataset"), _try_real_interferometer)


class DenseDFT:
    def __init__(self, real_space_mask, uv):
        self.real_space_mask = real_space_mask
        grid = np.array(aa.Grid2D.from_mask(mask=real_space_mask))
        phase = -2.0 * np.pi * (np.outer(uv[:, 1], grid[:, 0]) + np.outer(uv[:, 0], grid[:, 1]))
        self.matrix = np.cos(phase) + 1j * np.sin(phase)

    def transform_mapping_matrix(self, mapping_matrix):
        return self.matrix @ np.array(mapping_matrix)

    def visibilities_from(self, image):
        return aa.Visibilities(visibilities=self.matrix @ np.array(image))


rng_i = np.random.default_rng(5)
n_vis = 9
uv = rng_i.uniform(-0.3, 0.3, size=(n_vis, 2))
vis = aa.Visibilities(visibilities=rng_i.normal(size=n_vis) + 1j * rng_i.normal(size=n_vis))
vis_noise = aa.VisibilitiesNoiseMap(
    visibilities=rng_i.uniform(0.5, 2.0, size=n_vis) + 1j * rng_i.uniform(0.5, 2.0, size=n_vis)
)
interferometer = DatasetInterface(data=vis, noise_map=vis_noise, transformer=DenseDFT(mask, uv))

for label, linear_obj_list in [
    ("[rect]", [m_rect]),
    ("[del]", [m_del]),
    ("[rect,del]", [m_rect, m_del]),
    ("[rect,rect]", [m_rect, m_rect]),
    ("[fl,rect]", [fl, m_rect]),
    ("[del,fl,rect]", [m_del, fl, m_rect]),
    ("[fl]", [fl]),
    ("[rect_noreg,del]", [m_rect_noreg, m_del]),
]:
    for use_w_tilde in (False, True):
        for order_name, order in ORDERS:
            tag = ("interferometer", label, use_w_tilde, order_name)
            try:
                inv = aa.Inversion(
                    dataset=interferometer,
                    linear_obj_list=linear_obj_list,
                    settings=aa.SettingsInversion(use_w_tilde=use_w_tilde),
                )
            except BaseException as e:  # noqa
                rec((tag, "ctor raised"), type(e).__name__)
                continue
            rec((tag, "cls"), type(inv).__name__)
            order(tag, inv)

# ================================================================================================ 5. direct subclasses
# Exercise `AbstractInversion.curvature_reg_matrix` itself with arbitrary F / H objects and with `curvature_matrix`
# implemented as a cached property (library style), a plain property (the `del` then raises KeyError) or a raising
# property.  `store` keeps the object that the subclass handed out so that in-place writes are visible.
from autoconf import cached_property


class Reg(aa.reg.Constant):
    pass


class Obj:
    """A minimal linear object: only what `has` / `regularization_list` / `regularization_matrix` need."""

    def __init__(self, regularization, reg_matrix):
        self.regularization = regularization
        self._reg_matrix = reg_matrix
        self.params = 2

    @property
    def regularization_matrix(self):
        if isinstance(self._reg_matrix, BaseException):
            raise self._reg_matrix
        return self._reg_matrix


class NoRegAttr:
    params = 2


def make_cached(F_factory, H=None):
    class Inv(AbstractInversion):
        calls = 0

        @cached_property
        def curvature_matrix(self):
            type(self).calls += 1
            value = F_factory()
            self.store = value
            return value

        if H is not None:

            @cached_property
            def regularization_matrix(self):
                if isinstance(H, BaseException):
                    raise H
                return H

    return Inv


def make_plain(F_factory):
    class Inv(AbstractInversion):
        calls = 0

        @property
        def curvature_matrix(self):
            type(self).calls += 1
            if not hasattr(self, "store"):
                self.store = F_factory()
            return self.store

    return Inv


def make_raising(exc_type):
    class Inv(AbstractInversion):
        calls = 0

        @cached_property
        def curvature_matrix(self):
            type(self).calls += 1
            raise exc_type("F")

    return Inv


dataset_iface = DatasetInterface(data=np.ones(3), noise_map=np.ones(3))
reg = Reg(coefficient=1.0)
eye2 = lambda: np.eye(2)  # noqa
F_factories = [
    ("float 4x4", lambda: np.arange(16.0).reshape(4, 4)),
    ("float 2x2", lambda: np.arange(4.0).reshape(2, 2)),
    ("int 4x4", lambda: np.arange(16).reshape(4, 4)),
    ("float32 4x4", lambda: np.arange(16, dtype=np.float32).reshape(4, 4)),
    ("complex 4x4", lambda: (1 + 2j) * np.arange(16.0).reshape(4, 4)),
    ("matrix 4x4", lambda: np.matrix(np.arange(16.0).reshape(4, 4))),
    ("list", lambda: [1.0, 2.0]),
    ("tuple", lambda: (1.0, 2.0)),
    ("float", lambda: 2.5),
    ("none", lambda: None),
    ("0x0", lambda: np.zeros((0, 0))),
    ("view", lambda: np.arange(32.0).reshape(4, 8)[:, ::2]),
]
obj_lists = [
    ("none", []),
    ("1 reg", [Obj(reg, 2.0 * np.eye(4))]),
    ("1 reg 2x2", [Obj(reg, 2.0 * np.eye(2))]),
    ("1 noreg", [Obj(None, np.zeros((4, 4)))]),
    ("2 reg", [Obj(reg, 2.0 * np.eye(2)), Obj(reg, 3.0 * np.eye(2))]),
    ("reg+noreg", [Obj(reg, 2.0 * np.eye(2)), Obj(None, np.zeros((2, 2)))]),
    ("noreg+reg", [Obj(None, np.zeros((2, 2))), Obj(reg, 2.0 * np.eye(2))]),
    ("2 noreg", [Obj(None, np.zeros((2, 2))), Obj(None, np.zeros((2, 2)))]),
    ("3 mixed", [Obj(reg, np.eye(1)), Obj(None, np.zeros((1, 1))), Obj(reg, 5.0 * np.ones((2, 2)))]),
    ("1 reg raising H", [Obj(reg, ZeroDivisionError("H"))]),
    ("2 reg raising H", [Obj(reg, np.eye(2)), Obj(reg, ZeroDivisionError("H"))]),
    ("1 reg complex H", [Obj(reg, 1j * np.eye(4))]),
    ("2 reg complex H", [Obj(reg, 1j * np.eye(2)), Obj(reg, np.eye(2))]),
    ("1 reg bad shape H", [Obj(reg, np.eye(3))]),
    ("2 reg bad shape H", [Obj(reg, np.eye(3)), Obj(reg, np.eye(2))]),
    ("missing attr", [NoRegAttr()]),
    ("reg + missing attr", [Obj(reg, np.eye(2)), NoRegAttr()]),
]


def exercise(tag, inv, cls):
    CR = attempt((tag, "CR"), lambda: inv.curvature_reg_matrix)
    rec((tag, "calls 0"), cls.calls)
    cache_state((tag, 0), inv)
    store = getattr(inv, "store", "<unset>")
    rec((tag, "store after CR"), store)
    rec((tag, "store vs CR"), same(store, CR))
    F1 = attempt((tag, "F1"), lambda: inv.curvature_matrix)
    rec((tag, "calls 1"), cls.calls)
    rec((tag, "F1 vs CR"), same(F1, CR))
    CR2 = attempt((tag, "CR2"), lambda: inv.curvature_reg_matrix)
    rec((tag, "CR2 is CR"), CR2 is CR)
    rec((tag, "calls 2"), cls.calls)
    cache_state((tag, 1), inv)
    attempt((tag, "CRred"), lambda: inv.curvature_reg_matrix_reduced)
    rec((tag, "store final"), getattr(inv, "store", "<unset>"))
    rec((tag, "calls 3"), cls.calls)


for f_label, F_factory in F_factories:
    for o_label, objs in obj_lists:
        for kind, maker in (("cached", make_cached), ("plain", make_plain)):
            cls = maker(F_factory)
            inv = cls(dataset=dataset_iface, linear_obj_list=list(objs), settings=aa.SettingsInversion())
            exercise(("sub", kind, f_label, o_label), inv, cls)
            # second variant: the caller reads F before asking for F + H
            cls = maker(F_factory)
            inv = cls(dataset=dataset_iface, linear_obj_list=list(objs), settings=aa.SettingsInversion())
            F0 = attempt(("sub-pre", kind, f_label, o_label, "F0"), lambda: inv.curvature_matrix)
            exercise(("sub-pre", kind, f_label, o_label), inv, cls)
            rec(("sub-pre", kind, f_label, o_label, "F0 final"), F0)

for exc_type in (ValueError, KeyError, NotImplementedError):
    for o_label, objs in obj_lists:
        cls = make_raising(exc_type)
        inv = cls(dataset=dataset_iface, linear_obj_list=list(objs), settings=aa.SettingsInversion())
        exercise(("sub-raise", exc_type.__name__, o_label), inv, cls)

# regularization matrix overridden on the inversion (arbitrary H objects, both single and multi regularization)
H_objects = [
    ("eye", lambda: np.eye(4)),
    ("scalar", lambda: 3.0),
    ("list", lambda: [[1.0] * 4] * 4),
    ("int", lambda: np.ones((4, 4), dtype=int)),
    ("complex", lambda: 1j * np.ones((4, 4))),
    ("row", lambda: np.ones((1, 4))),
    ("3d", lambda: np.ones((2, 4, 4))),
    ("str", lambda: "x"),
    ("none", lambda: None),
    ("matrix", lambda: np.matrix(np.eye(4))),
    ("raise", lambda: ZeroDivisionError("H")),
]
for h_label, H_factory in H_objects:
    for f_label, F_factory in F_factories[:7]:
        for o_label in ("1 reg", "2 reg", "reg+noreg", "1 noreg"):
            objs = dict(obj_lists)[o_label]
            cls = make_cached(F_factory, H=H_factory())
            inv = cls(dataset=dataset_iface, linear_obj_list=list(objs), settings=aa.SettingsInversion())
            exercise(("sub-H", h_label, f_label, o_label), inv, cls)

# the abstract base itself
inv = AbstractInversion(dataset=dataset_iface, linear_obj_list=[Obj(reg, np.eye(2))], settings=aa.SettingsInversion())
attempt(("abstract", "CR"), lambda: inv.curvature_reg_matrix)
cache_state(("abstract", 0), inv)
inv = AbstractInversion(dataset=dataset_iface, linear_obj_list=[NoRegAttr()], settings=aa.SettingsInversion())
attempt(("abstract missing attr", "CR"), lambda: inv.curvature_reg_matrix)
cache_state(("abstract missing attr", 0), inv)

print("records", N_RECORDS, "of which raised", N_RAISED)
print("digest", H.hexdigest())
