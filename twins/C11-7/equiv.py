"""
Differential test for the C11-7 twin (helper `OverSamplingDataset.with_defaults_from` used by
`Imaging.apply_over_sampling` / `Interferometer.apply_over_sampling`).

Only the public entry points that exist on BOTH trees are exercised (`apply_over_sampling`), so the script runs
unchanged on the clean HEAD tree and on the twin tree. It prints a sha256 digest over every observed result:
values of the derived datasets' over sampling and grids, the state of every settings object before / after every call
(in-place effects), identity / aliasing facts, the exact type of the returned settings object, raised exception types.

    cd /tmp/wt10/C11-7 && PYTHONPATH=/tmp/wt10/C11-7 /venv/bin/python equiv.py
"""
import hashlib
import itertools
import warnings

warnings.filterwarnings("ignore")

import logging

import numpy as np
import autoarray as aa

logging.disable(logging.CRITICAL)

LOG = []


def rec(*items):
    LOG.append(repr(items))


# --------------------------------------------------------------------------------------------------------------
# scheme objects (truthy, falsy, array valued, iterate) and settings objects
# --------------------------------------------------------------------------------------------------------------


class FalsyUniform(aa.OverSamplingUniform):
    """A scheme whose truth value is False: `a or b` must then pick `b` exactly as the original code does."""

    def __bool__(self):
        return False


class StubTransformer:
    """PyLops / PyNUFFT are not installed, so the library's transformers cannot be constructed; the transformer is not
    involved in the code under test (`apply_over_sampling` only forwards `self.transformer.__class__`)."""

    def __init__(self, uv_wavelengths, real_space_mask):
        self.uv_wavelengths = uv_wavelengths
        self.real_space_mask = real_space_mask


class SubOverSamplingDataset(aa.OverSamplingDataset):
    """A subclass of the settings object: the original code always returns a plain `OverSamplingDataset`."""

    marker = "sub"


def scheme_repr(scheme):
    if scheme is None:
        return None
    out = [type(scheme).__name__]
    sub_size = getattr(scheme, "sub_size", None)
    if sub_size is not None:
        out.append(np.asarray(sub_size).tolist())
    for name in ("fractional_accuracy", "relative_accuracy", "sub_steps"):
        if hasattr(scheme, name):
            out.append((name, repr(getattr(scheme, name))))
    return tuple(out)


def os_repr(over_sampling):
    return (
        type(over_sampling).__name__,
        scheme_repr(over_sampling.uniform),
        scheme_repr(over_sampling.non_uniform),
        scheme_repr(over_sampling.pixelization),
        sorted(vars(over_sampling).keys()),
    )


def os_ids(over_sampling):
    return (
        id(over_sampling.uniform),
        id(over_sampling.non_uniform),
        id(over_sampling.pixelization),
    )


def arr_digest(array):
    if array is None:
        return None
    array = np.ascontiguousarray(np.asarray(array, dtype="float64"))
    return (array.shape, hashlib.sha256(array.tobytes()).hexdigest()[:16])


def grid_repr(grid):
    if grid is None:
        return None
    out = [type(grid).__name__, arr_digest(grid), scheme_repr(grid.over_sampling)]
    try:
        out.append(arr_digest(grid.over_sampler.over_sampled_grid))
    except Exception as e:  # e.g. iterate schemes have no over sampled grid
        out.append(("EXC", type(e).__name__))
    return tuple(out)


def dataset_repr(dataset):
    out = [type(dataset).__name__, os_repr(dataset.over_sampling)]
    for name in ("uniform", "non_uniform", "pixelization"):
        try:
            out.append((name, grid_repr(getattr(dataset.grids, name))))
        except Exception as e:
            out.append((name, "EXC", type(e).__name__))
    try:
        out.append(("grid", arr_digest(dataset.grid)))
    except Exception as e:
        out.append(("grid", "EXC", type(e).__name__))
    return tuple(out)


# --------------------------------------------------------------------------------------------------------------
# datasets
# --------------------------------------------------------------------------------------------------------------


def mask_from(kind, shape, pixel_scales, origin):
    if kind == "none":
        return None
    mask = np.full(shape, True)
    if kind == "edge":  # unmasked pixels touching the edges
        mask[0, :] = False
        mask[:, -1] = False
        mask[-1, 0] = False
    elif kind == "centre":
        mask[1:-1, 1:-1] = False
    elif kind == "single":
        mask[shape[0] // 2, shape[1] // 2] = False
    elif kind == "empty":  # nothing unmasked
        pass
    return aa.Mask2D(mask=mask, pixel_scales=pixel_scales, origin=origin)


def imaging_from(shape, pixel_scales, origin, mask_kind, over_sampling, psf):
    rng = np.random.RandomState(shape[0] * 100 + shape[1])
    data = aa.Array2D.no_mask(
        values=rng.uniform(1.0, 2.0, size=shape),
        pixel_scales=pixel_scales,
        origin=origin,
    )
    noise_map = aa.Array2D.full(
        fill_value=2.0, shape_native=shape, pixel_scales=pixel_scales, origin=origin
    )
    kwargs = {}
    if psf:
        kwargs["psf"] = aa.Kernel2D.no_mask(
            values=[[0.0, 1.0, 0.0], [1.0, 2.0, 1.0], [0.0, 1.0, 0.0]],
            pixel_scales=pixel_scales,
        )
    if over_sampling is not None:
        kwargs["over_sampling"] = over_sampling
    dataset = aa.Imaging(data=data, noise_map=noise_map, **kwargs)
    mask = mask_from(mask_kind, shape, pixel_scales, origin)
    if mask is not None:
        dataset = dataset.apply_mask(mask=mask)
    return dataset


def interferometer_from(shape, pixel_scales, origin, mask_kind, over_sampling):
    n = 5
    rng = np.random.RandomState(7)
    mask = mask_from(mask_kind, shape, pixel_scales, origin)
    if mask is None:
        mask = aa.Mask2D.all_false(
            shape_native=shape, pixel_scales=pixel_scales, origin=origin
        )
    kwargs = {}
    if over_sampling is not None:
        kwargs["over_sampling"] = over_sampling
    return aa.Interferometer(
        data=aa.Visibilities.full(shape_slim=(n,), fill_value=1.0),
        noise_map=aa.VisibilitiesNoiseMap.full(shape_slim=(n,), fill_value=2.0),
        uv_wavelengths=rng.uniform(-1.0e4, 1.0e4, size=(n, 2)),
        real_space_mask=mask,
        transformer_class=StubTransformer,
        **kwargs,
    )


def scheme_from(code, shape):
    if code is None:
        return None
    if code == "falsy":
        return FalsyUniform(sub_size=5)
    if code == "iterate":
        return aa.OverSamplingIterate(fractional_accuracy=0.99, sub_steps=[2, 4])
    return aa.OverSamplingUniform(sub_size=code)


def settings_from(codes, shape, cls=aa.OverSamplingDataset):
    return cls(
        uniform=scheme_from(codes[0], shape),
        non_uniform=scheme_from(codes[1], shape),
        pixelization=scheme_from(codes[2], shape),
    )


# --------------------------------------------------------------------------------------------------------------
# one apply call, fully recorded
# --------------------------------------------------------------------------------------------------------------

OMIT = object()


def apply_and_record(tag, dataset, new):
    own = dataset.over_sampling
    own_before, own_ids = os_repr(own), os_ids(own)
    if new is not OMIT and new is not None and hasattr(new, "uniform"):
        new_before, new_ids = os_repr(new), os_ids(new)
    else:
        new_before = new_ids = None
    try:
        if new is OMIT:
            derived = dataset.apply_over_sampling()
        else:
            derived = dataset.apply_over_sampling(over_sampling=new)
    except Exception as e:
        rec(tag, "EXC", type(e).__name__)
        derived = None
    # in-place effects on the dataset's own settings and on the settings passed in
    rec(tag, "own", own_before, os_repr(own), own_ids == os_ids(own))
    rec(tag, "own still attached", dataset.over_sampling is own)
    if new_before is not None:
        rec(tag, "new", new_before, os_repr(new), new_ids == os_ids(new))
    if derived is None:
        return None
    result = derived.over_sampling
    rec(tag, "derived", dataset_repr(derived))
    rec(tag, "type exact", type(result) is aa.OverSamplingDataset)
    rec(
        tag,
        "aliasing",
        result is own,
        result is new,
        derived is dataset,
        derived.data is dataset.data,
        derived.noise_map is dataset.noise_map,
        type(getattr(derived, "transformer", None)).__name__,
    )
    # the scheme objects themselves are shared (by identity) with the object they were taken from
    if new_before is not None:
        for name in ("uniform", "non_uniform", "pixelization"):
            got = getattr(result, name)
            rec(
                tag,
                "scheme identity",
                name,
                got is getattr(new, name),
                got is getattr(own, name),
            )
    # the source dataset is unchanged
    rec(tag, "source", dataset_repr(dataset))
    return derived


# --------------------------------------------------------------------------------------------------------------
# 1. grid of single calls: geometry x own settings x new settings, Imaging and Interferometer
# --------------------------------------------------------------------------------------------------------------

GEOMETRIES = [
    ((7, 5), (1.0, 0.5), (0.0, 0.0), "none"),
    ((4, 6), (0.3, 0.7), (1.5, -2.0), "edge"),
    ((5, 5), (2.0, 2.0), (-0.5, 0.25), "centre"),
    ((3, 4), (0.1, 0.2), (0.0, 3.0), "single"),
    ((1, 1), (1.0, 1.0), (0.0, 0.0), "none"),
    ((3, 3), (1.0, 2.0), (0.0, 0.0), "empty"),
]

CODES = [
    (None, None, None),
    (2, None, None),
    (None, 3, None),
    (None, None, 3),
    (2, 1, 4),
    ("falsy", None, "falsy"),
    ("iterate", None, 2),
    (1, "falsy", None),
]

for g_index, (shape, pixel_scales, origin, mask_kind) in enumerate(GEOMETRIES):
    for own_codes, new_codes in itertools.product(CODES, CODES):
        # keep the run time bounded: the full product only on the first two geometries
        if g_index >= 2 and (CODES.index(own_codes) + CODES.index(new_codes)) % 3:
            continue
        for kind in ("imaging", "interferometer"):
            tag = ("grid", kind, shape, mask_kind, own_codes, new_codes)
            try:
                own = settings_from(own_codes, shape)
                if kind == "imaging":
                    dataset = imaging_from(
                        shape, pixel_scales, origin, mask_kind, own, psf=shape[0] > 3
                    )
                else:
                    dataset = interferometer_from(
                        shape, pixel_scales, origin, mask_kind, own
                    )
            except Exception as e:
                rec(tag, "BUILD EXC", type(e).__name__)
                continue
            apply_and_record(tag, dataset, settings_from(new_codes, shape))

# array valued sub_size (an Array2D per pixel) as a scheme
shape, pixel_scales = (4, 3), (0.5, 1.0)
sub_size = aa.Array2D.no_mask(
    values=np.arange(1, 13).reshape(shape) % 3 + 1, pixel_scales=pixel_scales
)
for kind in ("imaging", "interferometer"):
    own = aa.OverSamplingDataset(pixelization=aa.OverSamplingUniform(sub_size=sub_size))
    if kind == "imaging":
        dataset = imaging_from(shape, pixel_scales, (0.0, 0.0), "none", own, psf=False)
    else:
        dataset = interferometer_from(shape, pixel_scales, (0.0, 0.0), "none", own)
    new = aa.OverSamplingDataset(uniform=aa.OverSamplingUniform(sub_size=sub_size))
    apply_and_record(("array sub_size", kind), dataset, new)

# --------------------------------------------------------------------------------------------------------------
# 2. sequences with SHARED settings objects and the omitted default argument (the trigger of the seed)
# --------------------------------------------------------------------------------------------------------------

for kind in ("imaging", "interferometer"):

    def make(codes, kind=kind):
        own = None if codes is None else settings_from(codes, (7, 5))
        if kind == "imaging":
            return imaging_from((7, 5), (1.0, 0.5), (0.0, 0.0), "none", own, psf=True)
        return interferometer_from((7, 5), (1.0, 0.5), (0.0, 0.0), "none", own)

    dataset_a = make((None, None, 3))
    dataset_b = make(None)  # uses the module level default settings object
    dataset_c = make((4, 2, None))

    # the same settings object applied to A, B, C, A again, in two different orders
    for order_name, order in (("abca", "abca"), ("cbab", "cbab")):
        shared = settings_from((2, None, None), (7, 5))
        for step, letter in enumerate(order):
            dataset = {"a": dataset_a, "b": dataset_b, "c": dataset_c}[letter]
            apply_and_record(("shared", kind, order_name, step, letter), dataset, shared)
            rec(("shared", kind, order_name, step, "state"), os_repr(shared))

    # the argument omitted: A first, then B, then C, then B again
    for step, letter in enumerate("abcb"):
        dataset = {"a": dataset_a, "b": dataset_b, "c": dataset_c}[letter]
        apply_and_record(("default", kind, step, letter), dataset, OMIT)

    # module level default instances are untouched
    for cls, names in (
        (aa.Imaging, ("__init__", "apply_over_sampling", "from_fits")),
        (aa.Interferometer, ("__init__", "apply_over_sampling", "from_fits")),
    ):
        for name in names:
            function = getattr(cls, name)
            function = getattr(function, "__func__", function)
            for default in function.__defaults__ or ():
                if isinstance(default, aa.OverSamplingDataset):
                    rec(("defaults", kind, cls.__name__, name), os_repr(default))

    # the dataset's own settings object passed as the new settings (self application), and chained derivations
    derived = apply_and_record(("self apply", kind), dataset_a, dataset_a.over_sampling)
    derived = apply_and_record(("chain 1", kind), derived, settings_from((None, 5, None), (7, 5)))
    derived = apply_and_record(("chain 2", kind), derived, derived.over_sampling)
    derived = apply_and_record(("chain 3", kind), derived, OMIT)

    # one settings object owned by two datasets, a third settings object applied to both
    common = settings_from((None, 2, 3), (7, 5))
    if kind == "imaging":
        first = imaging_from((7, 5), (1.0, 0.5), (0.0, 0.0), "none", common, psf=False)
        second = imaging_from((4, 6), (0.3, 0.7), (1.5, -2.0), "edge", common, psf=False)
    else:
        first = interferometer_from((7, 5), (1.0, 0.5), (0.0, 0.0), "none", common)
        second = interferometer_from((4, 6), (0.3, 0.7), (1.5, -2.0), "edge", common)
    new = settings_from((2, None, None), (7, 5))
    apply_and_record(("common owner", kind, 0), first, new)
    apply_and_record(("common owner", kind, 1), second, new)
    apply_and_record(("common owner", kind, 2), first, common)
    rec(("common owner", kind, "state"), os_repr(common), os_repr(new))

    # a subclass instance of the settings object (passed, and owned by the dataset)
    sub_new = settings_from((2, None, None), (7, 5), cls=SubOverSamplingDataset)
    apply_and_record(("subclass new", kind), dataset_a, sub_new)
    sub_own = settings_from((None, None, 3), (7, 5), cls=SubOverSamplingDataset)
    if kind == "imaging":
        dataset_s = imaging_from((7, 5), (1.0, 0.5), (0.0, 0.0), "none", sub_own, psf=False)
    else:
        dataset_s = interferometer_from((7, 5), (1.0, 0.5), (0.0, 0.0), "none", sub_own)
    apply_and_record(("subclass own", kind), dataset_s, settings_from((2, None, None), (7, 5)))

    # invalid argument
    apply_and_record(("none argument", kind), dataset_a, None)

    # a settings object that got an extra attribute: never copied onto the result in the original code
    extra = settings_from((2, None, None), (7, 5))
    extra.note = "user attribute"
    derived = apply_and_record(("extra attribute", kind), dataset_a, extra)
    rec(("extra attribute", kind), hasattr(derived.over_sampling, "note"), extra.note)

    # grids accessed (cached) before deriving: the source's cached grids stay the same objects
    grids = dataset_a.grids
    pixelization = grids.pixelization
    apply_and_record(("cached grids", kind), dataset_a, settings_from((None, None, 2), (7, 5)))
    rec(
        ("cached grids", kind),
        dataset_a.grids is grids,
        dataset_a.grids.pixelization is pixelization,
        grid_repr(dataset_a.grids.pixelization),
    )

digest = hashlib.sha256("\n".join(LOG).encode()).hexdigest()
print("records", len(LOG), "of which exceptions", sum("EXC" in line for line in LOG))
print("digest", digest)
