"""
Differential test for C19-6 (`autoarray.layout.layout_util.region_after_extraction`).

Prints a sha256 digest over the observable results (return value, element types, result type, raised exception
type + message, absence of in-place effects) of many calls. Run on the clean HEAD tree and on the twin tree: the
two digests must be identical.

    cd /tmp/wt8/C19-6 && PYTHONPATH=/tmp/wt8/C19-6 /venv/bin/python equiv.py
"""
import hashlib
import itertools
import random
import warnings

warnings.filterwarnings("ignore")

import numpy as np

import autoarray as aa
from autoarray.layout import layout_util

H = hashlib.sha256()
COUNTS = {"N": 0, "R": 0, "E": 0}


def feed(*items):
    H.update(repr(items).encode())
    H.update(b"\n")


def outcome(func, *args, normalise=False, **kwargs):
    """Observable outcome of a call, as a hashable / repr-able tuple."""
    try:
        result = func(*args, **kwargs)
    except Exception as e:  # noqa
        COUNTS["E"] += 1
        return ("E", type(e).__name__, str(e))
    if result is None:
        COUNTS["N"] += 1
        return ("N",)
    COUNTS["R"] += 1
    region = result.region
    if normalise:
        return ("R", type(result).__name__, tuple(int(v) for v in region))
    return (
        "R",
        type(result).__name__,
        type(region).__name__,
        tuple(region),
        tuple(type(v).__name__ for v in region),
        repr(result),
    )


def rae(o, e, **kw):
    return outcome(
        layout_util.region_after_extraction, original_region=o, extraction_region=e, **kw
    )


# ---------------------------------------------------------------------------------------------------------------
# 1) One axis exhaustive over ALL int intervals (valid, degenerate, inverted, negative) in [-3, 6], the other axis
#    fixed to representative configurations (overlap / no overlap / inverted-and-raising / inverted-none / touching).
# ---------------------------------------------------------------------------------------------------------------
R = range(-3, 7)
other_axis = [
    ((1, 3), (0, 4)),  # plain overlap
    ((2, 5), (3, 9)),  # overlap, window start != 0
    ((1, 3), (3, 6)),  # touching -> no overlap
    ((0, 2), (4, 6)),  # disjoint
    ((4, 1), (0, 3)),  # inverted region whose end lies in the window (original code raises RegionException)
    ((4, 1), (2, 3)),  # inverted region ending before the window
    ((2, 2), (0, 5)),  # zero-width region
    ((1, 4), (5, 2)),  # inverted window
]
for (p, q), (r, s) in other_axis:
    for a, b, c, d in itertools.product(R, repeat=4):
        feed("y-sweep", rae((a, b, p, q), (c, d, r, s)))
        feed("x-sweep", rae((p, q, a, b), (r, s, c, d)))

# ---------------------------------------------------------------------------------------------------------------
# 2) Full 2D exhaustive over all VALID (region, window) pairs on a non-square 5 x 6 grid.
# ---------------------------------------------------------------------------------------------------------------
ys = list(itertools.combinations(range(6), 2))
xs = list(itertools.combinations(range(7), 2))
regions = [y + x for y in ys for x in xs]
for o in regions:
    for e in regions:
        feed("grid", o, e, rae(o, e))

# ---------------------------------------------------------------------------------------------------------------
# 3) Random int 4-tuples (no ordering constraint, negatives allowed, small and large magnitudes).
# ---------------------------------------------------------------------------------------------------------------
rng = random.Random(1906)
for lo, hi, n in [(-4, 12, 40000), (-50, 3000, 10000), (0, 2**40, 5000)]:
    for _ in range(n):
        o = tuple(rng.randint(lo, hi) for _ in range(4))
        e = tuple(rng.randint(lo, hi) for _ in range(4))
        feed("rand", o, e, rae(o, e))

# random VALID regions with anisotropic extents / non-zero, unequal window origins
for _ in range(20000):
    def interval(n):
        i = rng.randint(0, n - 1)
        return i, rng.randint(i + 1, n)

    ny, nx = rng.randint(1, 40), rng.randint(1, 90)
    o = interval(ny) + interval(nx)
    e = interval(ny) + interval(nx)
    feed("randvalid", o, e, rae(o, e))

# ---------------------------------------------------------------------------------------------------------------
# 4) Argument kinds: Region2D objects, None, the NOTES trigger, lists, longer sequences, numpy int arrays, keyword vs
#    positional, input objects not modified, result is a fresh object.
# ---------------------------------------------------------------------------------------------------------------
trigger_o, trigger_e = (1, 8, 2, 4), (1, 4, 2, 10)
feed("trigger", rae(trigger_o, trigger_e))
feed("trigger-demo", rae((1, 8, 2, 6), (0, 3, 1, 6)), rae((1, 8, 2, 4), (0, 6, 5, 9)))
feed("positional", outcome(layout_util.region_after_extraction, trigger_o, trigger_e))
feed("via aa.util", outcome(aa.util.layout.region_after_extraction, trigger_o, trigger_e))

for o, e in [
    (trigger_o, trigger_e),
    ((0, 10, 0, 4), (1, 4, 2, 10)),
    ((2, 9, 7, 12), (1, 4, 2, 10)),
    ((2, 9, 7, 12), (0, 1, 0, 1)),
    ((0, 1, 0, 1), (0, 1, 0, 1)),
    ((0, 1, 0, 1), (0, 7, 0, 3)),
    ((3, 4, 5, 6), (3, 4, 5, 6)),
    ((3, 4, 5, 6), (2, 9, 1, 11)),
]:
    ro, re_ = aa.Region2D(o), aa.Region2D(e)
    for oo, ee in [(ro, e), (o, re_), (ro, re_), (list(o), list(e)), (o + (99, 98), e + (97,))]:
        feed("kinds", o, e, rae(oo, ee))
    # numpy integer inputs: compared by value only (element type of the result is np.int64 vs int, see TWIN_NOTES)
    feed("numpy", rae(np.array(o), np.array(e), normalise=True))
    feed("numpy-scalars", rae(tuple(np.int64(v) for v in o), e, normalise=True))
    # inputs untouched, output a fresh object
    feed("untouched", ro.region, re_.region, type(ro.region).__name__)
    res = layout_util.region_after_extraction(ro, re_)
    feed("fresh", res is ro, res is re_, None if res is None else (res.region is ro.region))

feed("none-original", rae(None, trigger_e), rae(None, None), rae(None, "junk"))
feed("none-window", rae(trigger_o, None)[:2])
feed("scalar-window", rae(trigger_o, 3)[:2])

# ---------------------------------------------------------------------------------------------------------------
# 5) Through Layout2D.layout_extracted_from: non-square shapes, unequal window origins, missing regions, list regions,
#    repeated calls on a shared layout, layout not modified.
# ---------------------------------------------------------------------------------------------------------------
def layout_state(layout):
    return tuple(
        None if r is None else (type(r).__name__, tuple(r[0:4]))
        for r in (layout.parallel_overscan, layout.serial_prescan, layout.serial_overscan)
    ) + (tuple(layout.shape_2d), tuple(layout.original_roe_corner))


def extracted(layout, window):
    try:
        new = layout.layout_extracted_from(extraction_region=window)
    except Exception as e:  # noqa
        return ("E", type(e).__name__, str(e))
    return ("L", layout_state(new), new is layout)


layouts = [
    aa.Layout2D(
        shape_2d=(10, 12),
        parallel_overscan=(1, 8, 2, 4),
        serial_prescan=(0, 10, 0, 4),
        serial_overscan=(2, 9, 7, 12),
    ),
    aa.Layout2D(shape_2d=(7, 3), parallel_overscan=(5, 7, 0, 3)),
    aa.Layout2D(shape_2d=(1, 1), serial_prescan=(0, 1, 0, 1), original_roe_corner=(0, 1)),
    aa.Layout2D(shape_2d=(4, 20)),
    aa.Layout2D(
        shape_2d=(6, 9),
        parallel_overscan=aa.Region2D((4, 6, 1, 8)),
        serial_prescan=[0, 6, 0, 1],
        serial_overscan=(0, 6, 8, 9),
        original_roe_corner=(1, 1),
    ),
]
windows = [
    (1, 4, 2, 10),
    aa.Region2D((1, 4, 2, 10)),
    (0, 10, 0, 12),
    (3, 5, 3, 5),
    (0, 1, 0, 1),
    (5, 7, 0, 3),
    (2, 6, 0, 9),
    (0, 3, 5, 6),
    (9, 10, 11, 12),
    (4, 2, 0, 5),
    (0, 0, 0, 0),
]
for layout in layouts:
    before = layout_state(layout)
    for window in windows + windows[:3]:  # repeated calls on the shared layout object
        feed("layout", extracted(layout, window))
    feed("layout-unchanged", before == layout_state(layout), before)

for _ in range(3000):
    ny, nx = rng.randint(1, 30), rng.randint(1, 30)

    def reg():
        if rng.random() < 0.2:
            return None
        y0 = rng.randint(0, ny - 1)
        x0 = rng.randint(0, nx - 1)
        return (y0, rng.randint(y0 + 1, ny), x0, rng.randint(x0 + 1, nx))

    layout = aa.Layout2D(
        shape_2d=(ny, nx), parallel_overscan=reg(), serial_prescan=reg(), serial_overscan=reg()
    )
    window = reg() or (0, ny, 0, nx)
    feed("layout-rand", layout_state(layout), window, extracted(layout, window))

# ---------------------------------------------------------------------------------------------------------------
# 6) The 1D helper is still public and must be untouched.
# ---------------------------------------------------------------------------------------------------------------
for a, b, c, d in itertools.product(range(-2, 6), repeat=4):
    feed("1d", layout_util.x0x1_after_extraction(x0o=a, x1o=b, x0e=c, x1e=d))

print("outcomes", COUNTS)
print("digest", H.hexdigest())
