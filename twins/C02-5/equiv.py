"""
Differential test for the C02-5 twin (vectorised elliptical mask kernels in autoarray/mask/mask_2d_util.py).

Prints a sha256 digest over the results (shape, dtype, flags, raw bytes, or raised exception type) of

  * mask_2d_util.mask_2d_elliptical_from
  * mask_2d_util.mask_2d_elliptical_annular_from
  * mask_2d_util.elliptical_radius_from (scalar API)
  * aa.Mask2D.elliptical / aa.Mask2D.elliptical_annular (class level, with origin / invert)
  * the neighbouring constructors (circular / circular_annular / circular_anti_annular) as a control

on many inputs.  The digest must be identical on the clean HEAD tree and on the twin tree.

Run:  cd /tmp/wt8/C02-5 && PYTHONPATH=/tmp/wt8/C02-5 /venv/bin/python equiv.py
"""
import hashlib
import itertools
import os
import warnings

import numpy as np

warnings.simplefilter("ignore")

import autoarray as aa
from autoarray.mask import mask_2d_util as u

H = hashlib.sha256()
# optional debugging aid: EQUIV_DUMP=/path writes one line per result so that two runs can be diffed
DUMP = open(os.environ["EQUIV_DUMP"], "w") if os.environ.get("EQUIV_DUMP") else None
N_RESULTS = 0
N_EXC = 0


def feed(tag, value):
    global N_RESULTS
    N_RESULTS += 1
    if DUMP is not None:
        v = value.tobytes().hex()[:4000] + repr(value.shape) if isinstance(value, np.ndarray) else repr(value)
        DUMP.write(repr(tag) + " :: " + v + "\n")
    H.update(repr(tag).encode())
    if isinstance(value, np.ndarray):
        H.update(
            repr(
                (
                    "nd",
                    value.shape,
                    str(value.dtype),
                    bool(value.flags["C_CONTIGUOUS"]),
                    bool(value.flags["WRITEABLE"]),
                )
            ).encode()
        )
        H.update(np.ascontiguousarray(value).tobytes())
    elif isinstance(value, (float, np.floating)):
        H.update(("f", type(value).__name__, float(value).hex()).__repr__().encode())
    else:
        H.update(repr(value).encode())


def call(tag, fn, *args, **kwargs):
    global N_EXC
    try:
        with np.errstate(all="ignore"):
            out = fn(*args, **kwargs)
    except Exception as e:  # noqa
        N_EXC += 1
        feed(tag, ("EXC", type(e).__name__))
        return None
    if isinstance(out, aa.Mask2D):
        feed(tag, np.array(out))
        feed(tag + ("meta",), (tuple(out.pixel_scales), tuple(out.origin), out.shape_native))
    else:
        feed(tag, out)
    return out


rng = np.random.RandomState(20240205)

# ---------------------------------------------------------------------------------------------------------------
# 1. util level, systematic grid of geometries x ellipse parameters (includes the seed trigger: inner_phi != 0 and
#    outer_axis_ratio != 1, plus exact ties: circles with radii equal to exact pixel distances).
# ---------------------------------------------------------------------------------------------------------------

shapes = [(1, 1), (1, 7), (6, 1), (2, 2), (3, 3), (4, 4), (5, 4), (7, 12), (21, 17), (16, 16)]
scales = [(1.0, 1.0), (0.5, 0.5), (0.4, 0.3), (2.0, 0.1), (1, 1)]
centres = [(0.0, 0.0), (0.3, -0.45), (1.0, 1.0), (-2.5, 3.0), (0, 0)]
angles = [0.0, 30.0, 45.0, 60.0, 90.0, 180.0, -75.0, 270.0, 360.0, 123.456, 1.0e6]
ratios = [1.0, 0.5, 0.4, 0.9999, 0.1, 2.0]
radii = [0.0, 0.5, 1.0, 2.0, 2.5, 5.0, np.sqrt(2.0), 100.0]

k = 0
for shape, ps, c in itertools.product(shapes, scales, centres):
    # a deterministic sub-sample of the ellipse parameter space for every geometry
    for _ in range(3):
        a1, a2 = angles[rng.randint(len(angles))], angles[rng.randint(len(angles))]
        q1, q2 = ratios[rng.randint(len(ratios))], ratios[rng.randint(len(ratios))]
        r1, r2 = radii[rng.randint(len(radii))], radii[rng.randint(len(radii))]
        k += 1
        call(("ell", k), u.mask_2d_elliptical_from, shape, ps, r2, q2, a2, c)
        call(
            ("ellann", k),
            u.mask_2d_elliptical_annular_from,
            shape,
            ps,
            min(r1, r2),
            q1,
            a1,
            max(r1, r2),
            q2,
            a2,
            c,
        )

# the exact trigger of the seed notes and friends
call(("trig", 1), u.mask_2d_elliptical_annular_from, (21, 17), (0.5, 0.5), 1.0, 0.5, 30.0, 4.0, 0.4, 60.0, (0.0, 0.0))
call(("trig", 2), u.mask_2d_elliptical_annular_from, (24, 30), (0.4, 0.3), 1.2, 0.6, 75.0, 3.5, 0.35, 20.0, (0.3, -0.45))
call(("trig", 3), u.mask_2d_elliptical_annular_from, (21, 17), (0.5, 0.5), 1.0, 0.5, 0.0, 4.0, 0.4, 60.0, (0.0, 0.0))
call(("trig", 4), u.mask_2d_elliptical_annular_from, (21, 17), (0.5, 0.5), 1.0, 0.5, 90.0, 4.0, 0.4, 0.0, (0.0, 0.0))
call(("trig", 5), u.mask_2d_elliptical_annular_from, (21, 17), (0.5, 0.5), 1.0, 1.0, 33.0, 4.0, 0.4, 11.0)  # default centre

# exact ties: circle (q=1) with integer pixel distances (3-4-5 triangles), all rotation angles
for ang in angles:
    for rad in [1.0, 2.0, 5.0, np.sqrt(2.0), np.sqrt(5.0), np.sqrt(8.0), 5.0 * 0.3]:
        for ps in [(1.0, 1.0), (0.3, 0.3), (0.1, 0.1)]:
            r = rad * ps[0] if ps[0] != 1.0 else rad
            call(("tie", ang, rad, ps), u.mask_2d_elliptical_from, (13, 13), ps, r, 1.0, ang, (0.0, 0.0))
            call(
                ("tieann", ang, rad, ps),
                u.mask_2d_elliptical_annular_from,
                (13, 13),
                ps,
                r,
                1.0,
                ang,
                2.0 * r,
                1.0,
                ang + 15.0,
                (0.0, 0.0),
            )
            # ties along the axes of a genuine ellipse
            call(("tieq", ang, rad, ps), u.mask_2d_elliptical_from, (13, 14), ps, r, 0.5, ang, (0.0, 0.0))

# ---------------------------------------------------------------------------------------------------------------
# 2. util level, random inputs
# ---------------------------------------------------------------------------------------------------------------

for n in range(250):
    shape = (int(rng.randint(1, 26)), int(rng.randint(1, 26)))
    ps = (float(rng.uniform(0.05, 2.0)), float(rng.uniform(0.05, 2.0)))
    if n % 3 == 0:
        ps = (ps[0], ps[0])
    extent = max(shape[0] * ps[0], shape[1] * ps[1])
    c = (float(rng.uniform(-0.4, 0.4) * extent), float(rng.uniform(-0.4, 0.4) * extent))
    a1, a2 = float(rng.uniform(-360.0, 360.0)), float(rng.uniform(-360.0, 360.0))
    q1, q2 = float(rng.uniform(0.05, 1.0)), float(rng.uniform(0.05, 1.0))
    r1 = float(rng.uniform(0.0, 0.3) * extent)
    r2 = float(rng.uniform(0.2, 0.8) * extent)
    call(("rnd-ell", n), u.mask_2d_elliptical_from, shape, ps, r2, q2, a2, c)
    call(("rnd-ellann", n), u.mask_2d_elliptical_annular_from, shape, ps, r1, q1, a1, r2, q2, a2, c)
    # keyword form, numpy scalar arguments, list / ndarray containers
    call(
        ("rnd-ellann-kw", n),
        u.mask_2d_elliptical_annular_from,
        shape_native=np.array(shape),
        pixel_scales=np.array(ps),
        inner_major_axis_radius=np.float64(r1),
        inner_axis_ratio=np.float64(q1),
        inner_phi=np.float64(a1),
        outer_major_axis_radius=np.float64(r2),
        outer_axis_ratio=np.float64(q2),
        outer_phi=np.float64(a2),
        centre=list(c),
    )

# a few larger grids (long contiguous inner loops)
for n, (shape, ps) in enumerate([((64, 48), (0.11, 0.11)), ((40, 70), (0.2, 0.13)), ((55, 55), (0.05, 0.05))]):
    call(("big-ell", n), u.mask_2d_elliptical_from, shape, ps, 2.0, 0.37, 41.0 + n, (0.21, -0.33))
    call(("big-ellann", n), u.mask_2d_elliptical_annular_from, shape, ps, 0.8, 0.6, 17.0 + n, 2.6, 0.45, 133.0, (0.21, -0.33))
    call(("big-tie", n), u.mask_2d_elliptical_annular_from, shape, ps, 5 * ps[0], 1.0, 10.0, 13 * ps[0], 1.0, 70.0, (0.0, 0.0))

# ---------------------------------------------------------------------------------------------------------------
# 3. degenerate / special values
# ---------------------------------------------------------------------------------------------------------------

for shape in [(0, 0), (0, 5), (5, 0), (1, 1), (2, 1)]:
    call(("empty-ell", shape), u.mask_2d_elliptical_from, shape, (1.0, 1.0), 2.0, 0.5, 30.0, (0.0, 0.0))
    call(
        ("empty-ellann", shape),
        u.mask_2d_elliptical_annular_from,
        shape,
        (1.0, 1.0),
        0.5,
        0.5,
        30.0,
        2.0,
        0.5,
        60.0,
        (0.0, 0.0),
    )

specials = [0.0, -1.0, np.nan, np.inf, -np.inf, 1.0e308, 1.0e-308]
for s in specials:
    call(("sp-radius", repr(s)), u.mask_2d_elliptical_from, (6, 5), (0.5, 0.7), s, 0.5, 30.0, (0.1, 0.2))
    call(("sp-ratio", repr(s)), u.mask_2d_elliptical_from, (6, 5), (0.5, 0.7), 1.5, s, 30.0, (0.1, 0.2))
    call(("sp-angle", repr(s)), u.mask_2d_elliptical_from, (6, 5), (0.5, 0.7), 1.5, 0.5, s, (0.1, 0.2))
    call(("sp-centre", repr(s)), u.mask_2d_elliptical_from, (6, 5), (0.5, 0.7), 1.5, 0.5, 30.0, (s, 0.2))
    if s != 1.0e308:
        # excluded: with Python-float pixel scales HEAD raises OverflowError from `float ** 2` once a pixel offset
        # exceeds ~1.3e154 scaled units, whereas any ndarray evaluation yields inf (see TWIN_NOTES.md, residuals).
        call(("sp-scale", repr(s)), u.mask_2d_elliptical_from, (6, 5), (s, 0.7), 1.5, 0.5, 30.0, (0.1, 0.2))
    for t in specials[:5]:
        call(
            ("sp-ann", repr(s), repr(t)),
            u.mask_2d_elliptical_annular_from,
            (6, 5),
            (0.5, 0.7),
            s,
            0.5,
            30.0,
            t,
            0.4,
            60.0,
            (0.1, 0.2),
        )
        call(
            ("sp-ann-q", repr(s), repr(t)),
            u.mask_2d_elliptical_annular_from,
            (6, 5),
            (0.5, 0.7),
            0.5,
            s,
            30.0,
            2.0,
            t,
            60.0,
            (0.1, 0.2),
        )
        call(
            ("sp-ann-phi", repr(s), repr(t)),
            u.mask_2d_elliptical_annular_from,
            (6, 5),
            (0.5, 0.7),
            0.5,
            0.5,
            s,
            2.0,
            0.4,
            t,
            (0.1, 0.2),
        )

# invalid containers whose failure mode must be the same
call(("bad-ps-float",), u.mask_2d_elliptical_from, (4, 4), 1.0, 1.0, 0.5, 0.0, (0.0, 0.0))
call(("bad-ps-short",), u.mask_2d_elliptical_from, (4, 4), (1.0,), 1.0, 0.5, 0.0, (0.0, 0.0))
call(("bad-centre",), u.mask_2d_elliptical_from, (4, 4), (1.0, 1.0), 1.0, 0.5, 0.0, 0.0)
call(("bad-centre-short",), u.mask_2d_elliptical_annular_from, (4, 4), (1.0, 1.0), 1.0, 0.5, 0.0, 2.0, 0.5, 0.0, (0.0,))
call(("bad-ps-zero",), u.mask_2d_elliptical_from, (4, 4), (0.0, 1.0), 1.0, 0.5, 0.0, (0.0, 0.0))
call(("bad-ps-zero-int",), u.mask_2d_elliptical_from, (4, 4), (0, 1), 1.0, 0.5, 0.0, (0.0, 0.0))
call(("bad-ratio-none",), u.mask_2d_elliptical_from, (4, 4), (1.0, 1.0), 1.0, None, 0.0, (0.0, 0.0))
call(("bad-angle-none",), u.mask_2d_elliptical_from, (4, 4), (1.0, 1.0), 1.0, 0.5, None, (0.0, 0.0))
call(("bad-angle-str",), u.mask_2d_elliptical_annular_from, (4, 4), (1.0, 1.0), 1.0, 0.5, "a", 2.0, 0.5, 0.0, (0.0, 0.0))
call(("bad-shape-short",), u.mask_2d_elliptical_from, (4,), (1.0, 1.0), 1.0, 0.5, 0.0, (0.0, 0.0))
call(("bad-missing",), u.mask_2d_elliptical_from, (4, 4), (1.0, 1.0))
call(("bad-missing-ann",), u.mask_2d_elliptical_annular_from, (4, 4), (1.0, 1.0), 1.0, 0.5, 0.0)

# ---------------------------------------------------------------------------------------------------------------
# 4. scalar elliptical radius API
# ---------------------------------------------------------------------------------------------------------------

for n in range(2000):
    y, x = float(rng.normal(0, 3)), float(rng.normal(0, 3))
    a = float(rng.uniform(-400, 400))
    q = float(rng.uniform(0.01, 1.5))
    call(("er", n), u.elliptical_radius_from, y, x, a, q)
for y, x, a, q in itertools.product([0.0, -0.0, 1.0, -2.5, np.nan, np.inf], [0.0, -0.0, 3.0, -1.0], [0.0, 90.0, 37.0], [1.0, 0.5, 0.0]):
    call(("er-grid", repr(y), repr(x), a, q), u.elliptical_radius_from, y, x, a, q)
    call(("er-grid-np", repr(y), repr(x), a, q), u.elliptical_radius_from, np.float64(y), np.float64(x), np.float64(a), np.float64(q))
call(("er-kw",), u.elliptical_radius_from, y_scaled=1.0, x_scaled=2.0, angle=30.0, axis_ratio=0.5)

# ---------------------------------------------------------------------------------------------------------------
# 5. class level constructors (origin, invert, float pixel_scales), repeated calls give independent equal arrays
# ---------------------------------------------------------------------------------------------------------------

for n in range(60):
    shape = (int(rng.randint(1, 20)), int(rng.randint(1, 20)))
    ps = [0.3, (0.4, 0.3), (1.0, 1.0), 2.0][n % 4]
    origin = [(0.0, 0.0), (1.0, -2.0), (-0.3, 0.7)][n % 3]
    c = (float(rng.uniform(-1, 1)), float(rng.uniform(-1, 1)))
    a1, a2 = float(rng.uniform(-180.0, 180.0)), float(rng.uniform(-180.0, 180.0))
    q1, q2 = float(rng.uniform(0.1, 1.0)), float(rng.uniform(0.1, 1.0))
    r1, r2 = float(rng.uniform(0.0, 1.5)), float(rng.uniform(1.0, 5.0))
    inv = bool(n % 2)
    call(
        ("cls-ell", n),
        aa.Mask2D.elliptical,
        shape_native=shape,
        major_axis_radius=r2,
        axis_ratio=q2,
        angle=a2,
        pixel_scales=ps,
        origin=origin,
        centre=c,
        invert=inv,
    )
    kw = dict(
        shape_native=shape,
        inner_major_axis_radius=r1,
        inner_axis_ratio=q1,
        inner_phi=a1,
        outer_major_axis_radius=r2,
        outer_axis_ratio=q2,
        outer_phi=a2,
        pixel_scales=ps,
        origin=origin,
        centre=c,
        invert=inv,
    )
    m1 = call(("cls-ellann", n), aa.Mask2D.elliptical_annular, **kw)
    m2 = call(("cls-ellann-again", n), aa.Mask2D.elliptical_annular, **kw)
    if m1 is not None and m2 is not None:
        feed(("cls-shared", n), bool(np.shares_memory(np.asarray(m1), np.asarray(m2))))
        feed(("cls-derived", n), np.array(m1.derive_grid.unmasked.native) if shape[0] * shape[1] < 50 else 0)

# repeated util calls: results are fresh, writable, independent arrays
a = u.mask_2d_elliptical_annular_from((9, 8), (0.5, 0.5), 0.7, 0.5, 30.0, 2.0, 0.4, 60.0, (0.0, 0.0))
b = u.mask_2d_elliptical_annular_from((9, 8), (0.5, 0.5), 0.7, 0.5, 30.0, 2.0, 0.4, 60.0, (0.0, 0.0))
feed(("fresh",), (bool(np.shares_memory(a, b)), bool((a == b).all())))
a[...] = True
c_ = u.mask_2d_elliptical_annular_from((9, 8), (0.5, 0.5), 0.7, 0.5, 30.0, 2.0, 0.4, 60.0, (0.0, 0.0))
feed(("fresh-after-write",), c_)
feed(("fresh-b",), b)

# controls: neighbouring constructors
for n in range(20):
    shape = (int(rng.randint(1, 15)), int(rng.randint(1, 15)))
    ps = (float(rng.uniform(0.1, 1.0)), float(rng.uniform(0.1, 1.0)))
    c = (float(rng.uniform(-1, 1)), float(rng.uniform(-1, 1)))
    call(("circ", n), u.mask_2d_circular_from, shape, ps, 2.0, c)
    call(("circann", n), u.mask_2d_circular_annular_from, shape, ps, 0.5, 2.0, c)
    call(("circanti", n), u.mask_2d_circular_anti_annular_from, shape, ps, 0.5, 1.5, 2.5, c)

# ---------------------------------------------------------------------------------------------------------------
# 6. twin-only sanity (NOT part of the digest): the new vectorised helper must not modify its array arguments
# ---------------------------------------------------------------------------------------------------------------

if hasattr(u, "elliptical_radius_via_polar_from") and hasattr(u, "polar_grid_2d_from"):
    r, t = u.polar_grid_2d_from((7, 9), (0.4, 0.3), (0.1, -0.2))
    r0, t0 = r.copy(), t.copy()
    e1 = u.elliptical_radius_via_polar_from(r, t, 30.0, 0.5)
    e2 = u.elliptical_radius_via_polar_from(r, t, 30.0, 0.5)
    assert (r == r0).all() and (t == t0).all(), "helper mutated its array arguments"
    assert (e1 == e2).all(), "helper not idempotent"
    assert not np.shares_memory(e1, t) and not np.shares_memory(e1, r)
    print("twin helper check: arguments untouched, repeated call identical")

print("results", N_RESULTS, "exceptions", N_EXC)
print("digest", H.hexdigest())
