"""
Differential test for the C07-8 twin (`autoarray/inversion/inversion/abstract.py`: `no_regularization_index_list`,
`regularization_matrix_reduced`, `curvature_reg_matrix_reduced`).

Only uses the API which exists on the clean HEAD tree, so it runs unchanged on the clean tree and on the twin tree.
Prints one sha256 digest over everything observed (values, shapes, dtypes, memory layout flags incl. C / F order and
owndata, aliasing / caching facts and the type of every raised exception). The digest must be identical on both trees.
(The memory layout is hashed because it is observable downstream: BLAS sums an F-ordered and a C-ordered matrix in a
different order, so e.g. `regularization_term` changes in the last bit when the reduced matrix has another layout.)

Set EQUIV_DUMP=/some/file to also write a per-record log (to locate a difference between two trees with `diff`).

    cd /tmp/wt10/C07-8 && PYTHONPATH=/tmp/wt10/C07-8 /venv/bin/python equiv.py
"""
import hashlib
import itertools
import os
import warnings

import numpy as np

warnings.filterwarnings("ignore")

import autoarray as aa
from autoarray import fixtures

H = hashlib.sha256()
N_RECORDS = 0
EXC_COUNT = {}
DUMP = open(os.environ["EQUIV_DUMP"], "w") if os.environ.get("EQUIV_DUMP") else None


def rec(*items):
    global N_RECORDS
    if DUMP is not None:
        # optional per-record log to locate a difference: EQUIV_DUMP=/path/to/file
        for item in items:
            if isinstance(item, np.ndarray):
                flags = (item.shape, str(item.dtype), bool(item.flags.c_contiguous),
                         bool(item.flags.f_contiguous), bool(item.flags.owndata))
                digest = hashlib.sha256(np.ascontiguousarray(item).tobytes()).hexdigest()[:12]
                DUMP.write(f"  {type(item).__name__} {flags} {digest}\n")
            else:
                DUMP.write(f"{item!r}\n")
    for item in items:
        N_RECORDS += 1
        if isinstance(item, np.ndarray):
            H.update(
                repr(
                    (
                        type(item).__name__,
                        item.shape,
                        str(item.dtype),
                        bool(item.flags.c_contiguous),
                        bool(item.flags.f_contiguous),
                        bool(item.flags.owndata),
                    )
                ).encode()
            )
            H.update(np.ascontiguousarray(item).tobytes())
        else:
            H.update(repr(item).encode())
        H.update(b"|")


def attempt(label, func):
    """Record the value of func() or the type of the exception it raises; returns the value (or None)."""
    try:
        value = func()
    except Exception as e:  # noqa
        rec(label, "EXC", type(e).__name__)
        key = (label.split("[")[0], label.rsplit(".", 1)[-1].split("#")[0], type(e).__name__)
        EXC_COUNT[key] = EXC_COUNT.get(key, 0) + 1
        return None
    rec(label, value)
    return value


def observe(label, inversion, names):
    """Read the properties `names` (twice: cached_property / repeatability) and record aliasing facts."""
    first = {}
    for name in names:
        first[name] = attempt(f"{label}.{name}", lambda: getattr(inversion, name))
    for name in names:
        again = attempt(f"{label}.{name}#2", lambda: getattr(inversion, name))
        rec(f"{label}.{name}.same_object_on_repeat", again is first[name])

    for full_name, reduced_name in (
        ("regularization_matrix", "regularization_matrix_reduced"),
        ("curvature_reg_matrix", "curvature_reg_matrix_reduced"),
    ):
        if full_name in first and reduced_name in first:
            full, reduced = first[full_name], first[reduced_name]
            rec(f"{label}.{reduced_name}.is_full", reduced is full)
            if isinstance(full, np.ndarray) and isinstance(reduced, np.ndarray):
                rec(
                    f"{label}.{reduced_name}.shares_memory",
                    bool(np.shares_memory(full, reduced)),
                )


# ---------------------------------------------------------------------------------------------------------------------
# Part 1: MockInversion with explicit matrices (consistent and inconsistent sizes, layouts, dtypes, odd regularizations)
# ---------------------------------------------------------------------------------------------------------------------

rng = np.random.default_rng(20240708)

REG = aa.m.MockRegularization()


def lin(params, regularization=None):
    return aa.m.MockLinearObj(parameters=params, regularization=regularization)


def mapper(params, regularization=REG):
    return aa.m.MockMapper(parameters=params, regularization=regularization)


# (tag, [ (kind, params, regularization) ... ])   kind: "l" MockLinearObj, "m" MockMapper
layouts = {
    "empty": [],
    "l2": [("l", 2, None)],
    "m3": [("m", 3, REG)],
    "l2,m3": [("l", 2, None), ("m", 3, REG)],
    "m3,l2": [("m", 3, REG), ("l", 2, None)],
    "m3,l2,m4": [("m", 3, REG), ("l", 2, None), ("m", 4, REG)],
    "l1,l2,m3": [("l", 1, None), ("l", 2, None), ("m", 3, REG)],
    "l2,l1,m3": [("l", 2, None), ("l", 1, None), ("m", 3, REG)],
    "l2,m3,l1": [("l", 2, None), ("m", 3, REG), ("l", 1, None)],
    "m3,l2,l1": [("m", 3, REG), ("l", 2, None), ("l", 1, None)],
    "l1,m3,l2,m4": [("l", 1, None), ("m", 3, REG), ("l", 2, None), ("m", 4, REG)],
    "m2,l3,m1,l4": [("m", 2, REG), ("l", 3, None), ("m", 1, REG), ("l", 4, None)],
    "l1,m2,l1,m2,l1": [("l", 1, None), ("m", 2, REG), ("l", 1, None), ("m", 2, REG), ("l", 1, None)],
    "l3,m1,l3,m1,l3,m1": [("l", 3, None), ("m", 1, REG), ("l", 3, None), ("m", 1, REG), ("l", 3, None), ("m", 1, REG)],
    "l2,l3": [("l", 2, None), ("l", 3, None)],
    "l1,l1,l1": [("l", 1, None), ("l", 1, None), ("l", 1, None)],
    # unregularized mappers (regularization=None on a mapper) are treated like any other linear object
    "mN3,m3,mN2": [("m", 3, None), ("m", 3, REG), ("m", 2, None)],
    # linear objects with zero parameters: empty ranges
    "l0,m3": [("l", 0, None), ("m", 3, REG)],
    "l0,m3,l0,l2": [("l", 0, None), ("m", 3, REG), ("l", 0, None), ("l", 2, None)],
    "m3,l0": [("m", 3, REG), ("l", 0, None)],
    # regularizations which are not None but falsy / truthy stand-ins (the unit tests use `regularization=1`)
    "lT2,l1": [("l", 2, 1), ("l", 1, None)],
    "lF2": [("l", 2, 0)],
    "lF2,m3": [("l", 2, 0), ("m", 3, REG)],
    "lF2,l1,m3": [("l", 2, 0), ("l", 1, None), ("m", 3, REG)],
    "l1,lF2,l2": [("l", 1, None), ("l", 2, 0), ("l", 2, None)],
}


def build(spec):
    return [
        lin(p, regularization=r) if k == "l" else mapper(p, regularization=r)
        for k, p, r in spec
    ]


def matrices_for(total):
    """Matrices handed to the mock as `regularization_matrix` / `curvature_reg_matrix`."""
    base = rng.normal(size=(total, total))
    out = [
        ("C", base),
        ("F", np.asfortranarray(base)),
        ("int", np.arange(total * total).reshape(total, total)),
        ("sym", base + base.T),
    ]
    if total >= 1:
        out.append(("strided", rng.normal(size=(2 * total, 2 * total))[::2, ::2]))
    # sizes inconsistent with the linear objects (only possible via mocks / preloads)
    big = rng.normal(size=(total + 3, total + 3))
    out += [
        ("bigger", big),
        ("wide", big[:total]),
        ("tall", big[:, :total]),
    ]
    if total >= 2:
        out += [
            ("smaller", base[: total - 1, : total - 1]),
            ("short_rows", base[: total - 1]),
            ("short_cols", base[:, : total - 1]),
            ("smaller2", base[: total // 2, : total // 2]),
        ]
    out += [
        ("1d", rng.normal(size=(total + 1,))),
        ("3d", rng.normal(size=(total, total, 2))),
        ("list", base.tolist()),
    ]
    return out


PROPS_MOCK = [
    "total_params",
    "total_regularizations",
    "all_linear_obj_have_regularization",
    "no_regularization_index_list",
    "regularization_matrix",
    "regularization_matrix_reduced",
    "curvature_reg_matrix",
    "curvature_reg_matrix_reduced",
]

for tag, spec in layouts.items():
    total = sum(p for _, p, _ in spec)
    for mtag, matrix in matrices_for(total):
        label = f"mock[{tag}][{mtag}]"
        keep = (
            np.array(matrix, copy=True)
            if isinstance(matrix, np.ndarray)
            else [list(row) for row in matrix]
        )
        inversion = aa.m.MockInversion(
            linear_obj_list=build(spec),
            regularization_matrix=matrix,
            curvature_reg_matrix=matrix,
        )
        observe(label, inversion, PROPS_MOCK)
        # the matrix handed in must not have been modified
        if isinstance(matrix, np.ndarray):
            rec(f"{label}.input_unchanged", bool(np.array_equal(matrix, keep)))
        else:
            rec(f"{label}.input_unchanged", matrix == keep)

    # different matrices for the two properties + a reconstruction (reconstruction_reduced uses the index list)
    reg_m = rng.normal(size=(total, total))
    cur_m = rng.normal(size=(total, total))
    recon = rng.normal(size=(total,))
    inversion = aa.m.MockInversion(
        linear_obj_list=build(spec),
        regularization_matrix=reg_m,
        curvature_reg_matrix=cur_m,
        reconstruction=recon,
    )
    # read in the other order (curvature first)
    observe(
        f"mock2[{tag}]",
        inversion,
        [
            "curvature_reg_matrix_reduced",
            "regularization_matrix_reduced",
            "reconstruction_reduced",
            "no_regularization_index_list",
            "regularization_term",
        ],
    )
    # a result handed to the caller is the caller's: writing into it must (not) reach the full matrix as on HEAD
    reduced = attempt(f"mock2[{tag}].red", lambda: inversion.regularization_matrix_reduced)
    if isinstance(reduced, np.ndarray) and reduced.size > 0 and reduced.flags.writeable:
        reduced[...] = -7.0
        rec(f"mock2[{tag}].full_after_write", inversion.regularization_matrix)
        rec(f"mock2[{tag}].cur_after_write", inversion.curvature_reg_matrix)

# random layouts (many unregularized objects in random positions)
for trial in range(150):
    n_obj = int(rng.integers(1, 8))
    spec = []
    for _ in range(n_obj):
        kind = "l" if rng.random() < 0.5 else "m"
        params = int(rng.integers(0, 5))
        regularization = None if rng.random() < 0.55 else REG
        spec.append((kind, params, regularization))
    total = sum(p for _, p, _ in spec)
    reg_m = rng.normal(size=(total, total))
    cur_m = np.asfortranarray(rng.normal(size=(total, total)))
    inversion = aa.m.MockInversion(
        linear_obj_list=build(spec),
        regularization_matrix=reg_m,
        curvature_reg_matrix=cur_m,
        reconstruction=rng.normal(size=(total,)),
    )
    rec(f"rand[{trial}]", [(k, p, r is None) for k, p, r in spec])
    observe(
        f"rand[{trial}]",
        inversion,
        [
            "no_regularization_index_list",
            "regularization_matrix_reduced",
            "curvature_reg_matrix_reduced",
            "reconstruction_reduced",
        ],
    )

# the two pinned unit-test cases, spelled out
inversion = aa.m.MockInversion(
    linear_obj_list=[
        mapper(10, aa.m.MockRegularization()),
        lin(3),
        mapper(20, aa.m.MockRegularization()),
        lin(4),
    ]
)
rec("pinned.index_list", inversion.no_regularization_index_list)
rec("pinned.index_list.type", type(inversion.no_regularization_index_list).__name__)
rec(
    "pinned.index_list.fresh_list_each_call",
    inversion.no_regularization_index_list is inversion.no_regularization_index_list,
)

# linear objects which are broken: the exception type must be the same
for tag, objs in {
    "params_None": [lin(None), mapper(3)],
    "params_float": [lin(2.0), mapper(3)],
    "no_regularization_attr": [object(), mapper(3)],
    "params_str": [lin("2"), mapper(3)],
}.items():
    m = rng.normal(size=(5, 5))
    inversion = aa.m.MockInversion(
        linear_obj_list=objs, regularization_matrix=m, curvature_reg_matrix=m
    )
    observe(
        f"broken[{tag}]",
        inversion,
        [
            "no_regularization_index_list",
            "regularization_matrix_reduced",
            "curvature_reg_matrix_reduced",
        ],
    )

# order of evaluation: the regularization matrix is built (and fails with ValueError) before the list of linear objects
# is inspected (which fails with AttributeError for an object without a `regularization` attribute)
class RaisingRegularization(aa.m.MockRegularization):
    def regularization_matrix_from(self, linear_obj):
        raise ValueError("cannot build")


for tag, objs in {
    "raising_reg,no_attr": lambda: [mapper(2, RaisingRegularization()), object()],
    "raising_reg,l1": lambda: [mapper(2, RaisingRegularization()), lin(1)],
    "no_attr,raising_reg": lambda: [object(), mapper(2, RaisingRegularization())],
}.items():
    inversion = aa.m.MockInversion(
        linear_obj_list=objs(), curvature_reg_matrix=rng.normal(size=(3, 3))
    )
    observe(
        f"order[{tag}]",
        inversion,
        ["regularization_matrix_reduced", "curvature_reg_matrix_reduced"],
    )
    rec(f"order[{tag}].cached_keys", sorted(k for k in inversion.__dict__ if "matrix" in k and not k.startswith("_")))

# regularization_matrix built by the mock's super() (block_diag of the objects' own matrices)
for tag, objs in {
    "l2,m3(reg3x3),l1": lambda: [
        lin(2),
        aa.m.MockMapper(
            parameters=3,
            regularization=aa.m.MockRegularization(
                regularization_matrix=np.arange(9.0).reshape(3, 3) + 1.0
            ),
        ),
        lin(1),
    ],
}.items():
    inversion = aa.m.MockInversion(
        linear_obj_list=objs(), curvature_reg_matrix=rng.normal(size=(6, 6))
    )
    observe(
        f"super[{tag}]",
        inversion,
        ["regularization_matrix", "regularization_matrix_reduced", "curvature_reg_matrix_reduced"],
    )

# ---------------------------------------------------------------------------------------------------------------------
# Part 2: real inversions (imaging mapping / w_tilde, interferometer) with 0, 1, 2, 3 unregularized objects
# ---------------------------------------------------------------------------------------------------------------------

PROPS_REAL = [
    "no_regularization_index_list",
    "regularization_matrix",
    "regularization_matrix_reduced",
    "curvature_reg_matrix",
    "curvature_reg_matrix_reduced",
    "reconstruction",
    "reconstruction_reduced",
    "regularization_term",
    "log_det_curvature_reg_matrix_term",
    "log_det_regularization_matrix_term",
]


def rectangular():
    m = fixtures.make_rectangular_mapper_7x7_3x3()
    m.regularization = aa.reg.Constant(coefficient=2.0)
    return m


def delaunay():
    m = fixtures.make_delaunay_mapper_9_3x3()
    m.regularization = aa.reg.ConstantZeroth(
        coefficient_neighbor=1.5, coefficient_zeroth=0.5
    )
    return m


def real_cases(grid, rows, rng_real):
    def func(parameters):
        return aa.m.MockLinearObj(
            parameters=parameters,
            grid=grid,
            mapping_matrix=rng_real.uniform(0.1, 1.0, size=(rows, parameters)),
        )

    return {
        "mapper": lambda: [rectangular()],
        "mapper,mapper": lambda: [rectangular(), delaunay()],
        "func": lambda: [func(2)],
        "func,func": lambda: [func(2), func(1)],
        "func,mapper": lambda: [func(2), rectangular()],
        "mapper,func": lambda: [rectangular(), func(2)],
        "mapper,func,mapper": lambda: [rectangular(), func(2), delaunay()],
        "func,func,mapper": lambda: [func(1), func(2), rectangular()],
        "func,mapper,func": lambda: [func(2), rectangular(), func(1)],
        "mapper,func,func": lambda: [delaunay(), func(2), func(1)],
        "func,mapper,func,mapper": lambda: [func(1), rectangular(), func(2), delaunay()],
        "func,func,mapper,func": lambda: [func(1), func(1), delaunay(), func(1)],
        "mapper,func,mapper,func": lambda: [rectangular(), func(1), delaunay(), func(2)],
    }


dataset = fixtures.make_masked_imaging_7x7_no_blur()
grid = aa.Grid2D.from_mask(mask=dataset.mask)

for use_w_tilde, positive_only in ((False, False), (False, True), (True, True)):
    rng_real = np.random.default_rng(3)
    for tag, make in real_cases(grid, 9, rng_real).items():
        label = f"imaging[w_tilde={use_w_tilde},positive={positive_only}][{tag}]"
        inversion = None
        try:
            inversion = aa.Inversion(
                dataset=dataset,
                linear_obj_list=make(),
                settings=aa.SettingsInversion(
                    use_w_tilde=use_w_tilde, use_positive_only_solver=positive_only
                ),
            )
        except Exception as e:  # noqa
            rec(label, "EXC", type(e).__name__)
        if inversion is not None:
            observe(label, inversion, PROPS_REAL)

# with the PSF-blurred imaging fixture and the positive-only solver
dataset_blur = fixtures.make_masked_imaging_7x7()
rng_real = np.random.default_rng(5)
for tag, make in real_cases(grid, 9, rng_real).items():
    label = f"imaging_blur[{tag}]"
    try:
        inversion = aa.Inversion(
            dataset=dataset_blur,
            linear_obj_list=make(),
            settings=aa.SettingsInversion(use_w_tilde=False),
        )
    except Exception as e:
        rec(label, "EXC", type(e).__name__)
        continue
    observe(label, inversion, PROPS_REAL)

# interferometer
try:
    interferometer = fixtures.make_interferometer_7()
    grid_i = interferometer.grids.lp if hasattr(interferometer, "grids") else grid
    rows_i = grid_i.shape[0] if hasattr(grid_i, "shape") else 9
except Exception as e:  # noqa
    interferometer = None
    rec("interferometer.fixture", "EXC", type(e).__name__)

if interferometer is not None:
    rng_real = np.random.default_rng(7)
    for tag, make in real_cases(grid_i, rows_i, rng_real).items():
        label = f"interferometer[{tag}]"
        try:
            inversion = aa.Inversion(
                dataset=interferometer,
                linear_obj_list=make(),
                settings=aa.SettingsInversion(use_w_tilde=False, use_linear_operators=False),
            )
        except Exception as e:
            rec(label, "EXC", type(e).__name__)
            continue
        observe(label, inversion, PROPS_REAL)

for key in sorted(EXC_COUNT):
    print("exceptions", key, EXC_COUNT[key])
print("records", N_RECORDS)
print("digest", H.hexdigest())
