"""
Differential test for the C03-8 twin (merge of Kernel2D.convolved_array_from / convolved_array_with_mask_from).

Uses only the API that exists on the clean HEAD tree, records every result (type, dtype, shape, bytes of values,
mask, pixel scales, origin, mask identity, state of the inputs after the call) or the raised exception
(type + message) and prints one sha256 digest. The digest must be identical on the clean tree and on the twin tree.
"""
import warnings

warnings.filterwarnings("ignore")

import hashlib
import io
import contextlib

import numpy as np

with contextlib.redirect_stdout(io.StringIO()):
    import autoarray as aa

H = hashlib.sha256()
N_RECORDS = 0
OUTCOMES = {}


def put(*items):
    global N_RECORDS
    N_RECORDS += 1
    for item in items:
        H.update(repr(item).encode())
        H.update(b"|")
    H.update(b"\n")


def outcome_key(label):
    for item in label:
        if item in ("from", "with_mask", "with_mask positional", "simulator", "unmasked_blurred_array_from"):
            return item
    return "other"


def describe(obj):
    """A deterministic, exhaustive description of a result or an input."""
    if obj is None:
        return ("None",)
    if isinstance(obj, aa.Mask2D):
        arr = np.array(obj)
        return (
            "Mask2D",
            arr.shape,
            arr.tobytes(),
            tuple(obj.pixel_scales),
            tuple(obj.origin),
        )
    if isinstance(obj, (aa.Array2D, aa.Kernel2D)):
        arr = np.array(obj)
        return (
            type(obj).__name__,
            str(arr.dtype),
            arr.shape,
            arr.tobytes(),
            bool(getattr(obj, "store_native", None)),
            describe(obj.mask),
            repr(getattr(obj, "header", None)),
        )
    if isinstance(obj, np.ndarray):
        return ("ndarray", str(obj.dtype), obj.shape, obj.tobytes())
    return (type(obj).__name__, repr(obj))


def run(label, func, inputs=(), mask=None):
    """Call func(), record result or exception, record the inputs afterwards (in-place effects)."""
    try:
        with contextlib.redirect_stdout(io.StringIO()):
            result = func()
    except BaseException as e:  # noqa
        put(label, "EXC", type(e).__name__, str(e))
        key = (outcome_key(label), type(e).__name__)
        OUTCOMES[key] = OUTCOMES.get(key, 0) + 1
    else:
        put(label, "OK", describe(result))
        key = (outcome_key(label), "OK")
        OUTCOMES[key] = OUTCOMES.get(key, 0) + 1
        if mask is not None and hasattr(result, "mask"):
            put(label, "mask identity", result.mask is mask)
        if hasattr(result, "mask"):
            put(label, "slim/native", describe(result.slim), describe(result.native))
    for i, inp in enumerate(inputs):
        put(label, "input after", i, describe(inp))


rng = np.random.default_rng(20240917)


def make_masks(shape, pixel_scales, origin):
    masks = {}
    ny, nx = shape
    m = np.full(shape, False)
    masks["all_false"] = m
    m = np.full(shape, True)
    masks["all_true"] = m
    m = np.full(shape, True)
    m[ny // 2, nx // 2] = False
    masks["single"] = m
    m = np.full(shape, True)
    m[0, 0] = False
    m[ny - 1, nx - 1] = False
    m[0, nx - 1] = False
    masks["corners"] = m
    m = np.full(shape, True)
    m[0, :] = False
    m[:, 0] = False
    masks["edges"] = m
    m = np.full(shape, True)
    m[max(ny // 2 - 1, 0) : ny // 2 + 2, max(nx // 2 - 2, 0) : nx // 2 + 2] = False
    m[ny // 2, nx // 2] = True
    masks["block_with_hole"] = m
    masks["random"] = rng.random(shape) < 0.5
    return {
        k: aa.Mask2D(mask=v, pixel_scales=pixel_scales, origin=origin)
        for k, v in masks.items()
    }


kernel_specs = [
    ("k1x1", (1, 1)),
    ("k3x3", (3, 3)),
    ("k5x3", (5, 3)),
    ("k1x5", (1, 5)),
    ("k7x7", (7, 7)),
    ("k2x2_even", (2, 2)),
    ("k3x4_even", (3, 4)),
    ("k4x3_even", (4, 3)),
]

geometries = [
    ((1, 1), (1.0, 1.0), (0.0, 0.0)),
    ((1, 6), (1.0, 1.0), (0.0, 0.0)),
    ((5, 5), (1.0, 1.0), (0.0, 0.0)),
    ((6, 9), (1.0, 2.0), (0.5, -1.0)),
    ((11, 13), (0.3, 0.7), (-2.0, 3.5)),
    ((8, 3), (2.0, 0.5), (1.0, 1.0)),
]

for shape, pixel_scales, origin in geometries:
    masks = make_masks(shape, pixel_scales, origin)
    native = rng.normal(size=shape)
    native_int = rng.integers(-5, 6, size=shape)

    for kname, kshape in kernel_specs:
        kernel_values = rng.normal(size=kshape)
        kernels = {"signed": aa.Kernel2D.no_mask(values=kernel_values, pixel_scales=pixel_scales)}
        if kname == "k3x3":
            kernels["normalized"] = aa.Kernel2D.no_mask(
                values=np.abs(kernel_values), pixel_scales=pixel_scales, normalize=True
            )
            kernels["other_scales"] = aa.Kernel2D.no_mask(values=kernel_values, pixel_scales=(9.0, 0.1))

        for ktag, kernel in kernels.items():
            base = (shape, pixel_scales, origin, kname, ktag)

            # --- plain ndarray / unmasked inputs
            run(base + ("from", "ndarray"), lambda: kernel.convolved_array_from(native), [native])
            run(base + ("from", "ndarray pos"), lambda: kernel.convolved_array_from(array=native), [native])
            no_mask = aa.Array2D.no_mask(values=native, pixel_scales=pixel_scales, origin=origin)
            run(base + ("from", "no_mask"), lambda: kernel.convolved_array_from(no_mask), [no_mask])
            run(base + ("from", "no_mask.native"), lambda: kernel.convolved_array_from(no_mask.native), [no_mask])
            no_mask_int = aa.Array2D.no_mask(values=native_int, pixel_scales=pixel_scales, origin=origin)
            run(base + ("from", "no_mask_int"), lambda: kernel.convolved_array_from(no_mask_int), [no_mask_int])

            for mname, mask in masks.items():
                tag = base + (mname,)
                try:
                    image = aa.Array2D(values=native, mask=mask)
                except BaseException as e:  # noqa
                    put(tag, "image construction EXC", type(e).__name__, str(e))
                    continue

                # --- convolved_array_from: slim, native, repeated
                run(tag + ("from", "slim"), lambda: kernel.convolved_array_from(image.slim), [image, mask, kernel])
                run(tag + ("from", "native"), lambda: kernel.convolved_array_from(array=image.native), [image, mask])
                run(tag + ("from", "repeat"), lambda: kernel.convolved_array_from(image), [image, mask])

                # --- convolved_array_with_mask_from with many kinds of `array`
                try:
                    blurring_mask = mask.derive_mask.blurring_from(kernel_shape_native=kernel.shape_native)
                    blurring_image = aa.Array2D(values=native, mask=blurring_mask)
                    combined = image.native + blurring_image.native
                except BaseException as e:  # noqa
                    put(tag, "blurring EXC", type(e).__name__, str(e))
                    blurring_mask = None
                    combined = None

                arrays = {
                    "ndarray": native,
                    "ndarray_int": native_int,
                    "list": native.tolist(),
                    "no_mask": no_mask,
                    "no_mask.native": no_mask.native,
                    "image(slim)": image,
                    "image.native": image.native,
                    "image.native_skip_mask": image.native_skip_mask,
                    "wider data, narrow mask": aa.Array2D(values=native, mask=mask, skip_mask=True, store_native=True),
                }
                if combined is not None:
                    arrays["combined"] = combined
                    arrays["combined*2+1"] = combined * 2.0 + 1.0
                    arrays["blurring.native"] = blurring_image.native
                    arrays["blurring(slim)"] = blurring_image

                out_masks = {"same": mask}
                if blurring_mask is not None:
                    out_masks["blurring"] = blurring_mask
                out_masks["all_false"] = masks["all_false"]
                out_masks["ndarray_bool"] = np.array(mask)
                out_masks["None"] = None

                for aname, arr in arrays.items():
                    for oname, out_mask in out_masks.items():
                        if oname in ("ndarray_bool", "None") and aname not in (
                            "ndarray",
                            "combined",
                            "image(slim)",
                            "image.native",
                        ):
                            continue
                        watch = [arr] if not isinstance(arr, list) else []
                        if out_mask is not None:
                            watch.append(out_mask)
                        run(
                            tag + ("with_mask", aname, oname),
                            lambda: kernel.convolved_array_with_mask_from(array=arr, mask=out_mask),
                            watch,
                            mask=out_mask,
                        )
                        # positional form
                        if aname == "combined":
                            run(
                                tag + ("with_mask positional", aname, oname),
                                lambda: kernel.convolved_array_with_mask_from(arr, out_mask),
                                watch,
                                mask=out_mask,
                            )

                # --- mask of a different shape than the array
                if shape != (5, 5):
                    other = aa.Mask2D.all_false(shape_native=(5, 5), pixel_scales=pixel_scales)
                    run(
                        tag + ("with_mask", "shape mismatch"),
                        lambda: kernel.convolved_array_with_mask_from(array=image.native, mask=other),
                        [image, other],
                        mask=other,
                    )

# --- library callers of convolved_array_from (simulator + unmasked blurred array)
for shape, pixel_scales in [((7, 7), 1.0), ((6, 9), (1.0, 2.0))]:
    for kshape in [(3, 3), (5, 3), (2, 2)]:
        kernel = aa.Kernel2D.no_mask(values=rng.random(kshape) + 0.1, pixel_scales=pixel_scales, normalize=True)
        image = aa.Array2D.no_mask(values=rng.random(shape) + 1.0, pixel_scales=pixel_scales)
        for add_poisson in (False, True):

            def simulate():
                sim = aa.SimulatorImaging(
                    exposure_time=300.0,
                    psf=kernel,
                    background_sky_level=0.1,
                    add_poisson_noise_to_data=add_poisson,
                    noise_seed=1,
                )
                dataset = sim.via_image_from(image=image)
                return dataset.data

            run(("simulator", shape, pixel_scales, kshape, add_poisson), simulate, [image, kernel])

        def unmasked_blurred():
            mask = aa.Mask2D.all_false(shape_native=shape, pixel_scales=pixel_scales)
            pad_shape = (shape[0] + kshape[0] - 1, shape[1] + kshape[1] - 1)
            padded = aa.Array2D.no_mask(values=np.arange(pad_shape[0] * pad_shape[1], dtype=float).reshape(pad_shape), pixel_scales=pixel_scales)
            return mask.unmasked_blurred_array_from(padded_array=padded, psf=kernel, image_shape=shape)

        run(("unmasked_blurred_array_from", shape, pixel_scales, kshape), unmasked_blurred, [kernel])

# --- the trigger of the seed notes, compared against the masked Convolver and the true convolution
import scipy.signal

rng11 = np.random.default_rng(11)
shape = (11, 13)
mask_bool = np.full(shape, True)
mask_bool[3:7, 4:9] = False
mask_bool[4, 6] = True
mask = aa.Mask2D(mask=mask_bool, pixel_scales=(1.0, 2.0), origin=(0.5, -1.0))
kernel_values = rng11.normal(size=(5, 3))
kernel = aa.Kernel2D.no_mask(values=kernel_values, pixel_scales=(1.0, 2.0))
blurring_mask = mask.derive_mask.blurring_from(kernel_shape_native=kernel.shape_native)
native = rng11.normal(size=shape)
image = aa.Array2D(values=native, mask=mask)
blurring_image = aa.Array2D(values=native, mask=blurring_mask)
combined = image.native + blurring_image.native
truth = scipy.signal.convolve2d(
    native * (~mask_bool | ~np.array(blurring_mask)), kernel_values, mode="same"
)[~mask_bool]
for i in range(3):  # repeated calls on shared objects
    result = kernel.convolved_array_with_mask_from(array=combined, mask=mask)
    put("trigger", i, describe(result), bool(np.allclose(np.array(result.slim), truth, rtol=0.0, atol=1e-10)))
    put("trigger inputs", i, describe(combined), describe(mask), describe(kernel))
    result = kernel.convolved_array_from(array=combined)
    put("trigger from", i, describe(result), result.mask is combined.mask)

for key in sorted(OUTCOMES):
    print("outcome", key, OUTCOMES[key])
print("records", N_RECORDS)
print("digest", H.hexdigest())
