"""
Differential test for the C15-6 twin (extraction of `_curvature_matrix_preloaded`).

Prints a sha256 digest over every observable it records. Run it on the clean HEAD tree and on the tree with
twin.patch applied: the two digests must be identical.

    cd /tmp/wt8/C15-6 && PYTHONPATH=/tmp/wt8/C15-6 /venv/bin/python equiv.py

Observables recorded for every scenario (dataset geometry x linear object combination x formalism x preload kind):

- all inversion outputs (data vector, curvature matrix, regularization matrix, curvature reg matrix, reconstruction,
  mapped reconstructed data, the scalar terms), for a fresh inversion and for 3 successive inversions that share one
  `Preloads` object, in three different attribute access orders;
- the bytes of `Preloads.curvature_matrix` after every inversion (in-place effects on the preload);
- aliasing: whether `inversion.curvature_matrix` / `inversion.curvature_reg_matrix` is / shares memory with the
  preload, whether two inversions sharing the preload share memory with one another, and whether writing into the
  matrix returned by an inversion changes the preload;
- cache behaviour: whether `curvature_matrix` is in the instance `__dict__` before / after `curvature_reg_matrix`,
  identity of repeated reads;
- raised exception types (wrong shaped, read-only, non-ndarray, integer preloads).
"""
import hashlib
import logging
import sys
import warnings

import numpy as np

warnings.filterwarnings("ignore")
logging.disable(logging.CRITICAL)

import autoarray as aa  # noqa: E402

import os  # noqa: E402

H = hashlib.sha256()
DUMP = open(os.environ["EQUIV_DUMP"], "w") if os.environ.get("EQUIV_DUMP") else None
N_RECORDS = [0]


def rec(tag, value):
    if isinstance(value, np.ndarray):
        payload = (
            str(value.dtype) + str(value.shape) + type(value).__name__
        ).encode() + np.ascontiguousarray(value).tobytes()
    else:
        payload = repr(value).encode()
    H.update(tag.encode() + b"|" + payload + b"\n")
    N_RECORDS[0] += 1
    if DUMP is not None:
        # optional debugging aid: EQUIV_DUMP=<file> writes one line per record (tag, short hash or repr)
        short = payload[:60] if not isinstance(value, np.ndarray) else hashlib.sha256(payload).hexdigest()[:16].encode()
        DUMP.write(tag + " " + short.decode(errors="replace") + "\n")


def guarded(tag, func):
    try:
        value = func()
    except Exception as e:  # noqa
        rec(tag, "EXC:" + type(e).__name__)
        return None
    rec(tag, value if isinstance(value, np.ndarray) else value)
    return value


# ------------------------------------------------------------------------------------------------------------------
# datasets
# ------------------------------------------------------------------------------------------------------------------


def mask_arrays():
    m7 = np.full((7, 7), True)
    m7[2:5, 2:5] = False

    # non-square, touching no edge, irregular
    m68 = np.full((6, 8), True)
    m68[1:5, 2:7] = False
    m68[2, 3] = True
    m68[4, 6] = True

    # annular-ish mask on a non-square grid with unmasked pixels one away from the edges
    m97 = np.full((9, 7), True)
    m97[1:8, 1:6] = False
    m97[4, 3] = True

    # unmasked pixels touching the edges of the array
    medge = np.full((6, 6), True)
    medge[0:4, 0:3] = False
    medge[5, 5] = False
    medge[3, 5] = False

    return {
        "7x7": (m7, (1.0, 1.0), (0.0, 0.0)),
        "6x8_aniso": (m68, (0.7, 1.3), (0.0, 0.0)),
        "9x7_origin": (m97, (0.5, 0.5), (0.4, -0.9)),
        "6x6_edges": (medge, (1.0, 2.0), (-1.0, 0.5)),
    }


def make_dataset(name, sub_size=1):
    mask_arr, pixel_scales, origin = mask_arrays()[name]
    seed = sum(ord(c) for c in name)
    rng = np.random.default_rng(seed)

    mask = aa.Mask2D(mask=mask_arr, pixel_scales=pixel_scales, origin=origin)
    shape = mask_arr.shape

    data = aa.Array2D.no_mask(
        values=1.0 + rng.uniform(0.0, 2.0, size=shape),
        pixel_scales=pixel_scales,
        origin=origin,
    )
    noise_map = aa.Array2D.no_mask(
        values=1.0 + rng.uniform(0.0, 1.0, size=shape),
        pixel_scales=pixel_scales,
        origin=origin,
    )
    psf = aa.Kernel2D.no_mask(
        values=[[0.0, 0.1, 0.0], [0.1, 0.5, 0.2], [0.0, 0.1, 0.05]],
        pixel_scales=pixel_scales,
    )
    imaging = aa.Imaging(
        data=data,
        noise_map=noise_map,
        psf=psf,
        over_sampling=aa.OverSamplingDataset(
            uniform=aa.OverSamplingUniform(sub_size=sub_size)
        ),
    )
    return imaging.apply_mask(mask=mask), mask, rng


def make_mapper(mask, shape_native, regularization, sub_size=2):
    over_sampler = aa.OverSamplerUniform(mask=mask, sub_size=sub_size)
    grid = over_sampler.over_sampled_grid
    mesh_grid = aa.Mesh2DRectangular.overlay_grid(grid=grid, shape_native=shape_native)
    mapper_grids = aa.MapperGrids(
        mask=mask,
        source_plane_data_grid=grid,
        source_plane_mesh_grid=mesh_grid,
        image_plane_mesh_grid=None,
        adapt_data=None,
    )
    return aa.MapperRectangular(
        mapper_grids=mapper_grids,
        over_sampler=over_sampler,
        border_relocator=None,
        regularization=regularization,
    )


def make_func_list(mask, rng, parameters, regularization):
    grid = aa.Grid2D.from_mask(mask=mask)
    return aa.m.MockLinearObjFuncList(
        parameters=parameters,
        grid=grid,
        mapping_matrix=rng.uniform(0.1, 1.0, size=(mask.pixels_in_mask, parameters)),
        regularization=regularization,
    )


def combos(mask, rng):
    """name -> linear_obj_list ; covers every row of the table in the seed notes and more."""
    reg = lambda c: aa.reg.Constant(coefficient=c)  # noqa

    out = {}
    out["1mapper"] = [make_mapper(mask, (3, 3), reg(1.0))]
    out["1mapper_noreg"] = [make_mapper(mask, (3, 3), None)]
    out["1mapper+func_noreg"] = [
        make_mapper(mask, (3, 3), reg(1.5)),
        make_func_list(mask, rng, 2, None),
    ]
    out["func_noreg+1mapper"] = [
        make_func_list(mask, rng, 2, None),
        make_mapper(mask, (3, 3), reg(1.5)),
    ]
    out["1mapper+func_reg"] = [
        make_mapper(mask, (3, 2), reg(1.5)),
        make_func_list(mask, rng, 3, reg(0.5)),
    ]
    out["1mapper_noreg+func_reg"] = [
        make_mapper(mask, (2, 3), None),
        make_func_list(mask, rng, 3, reg(0.5)),
    ]
    out["2mappers"] = [
        make_mapper(mask, (3, 3), reg(1.0)),
        make_mapper(mask, (2, 2), reg(2.0)),
    ]
    out["2mappers+func"] = [
        make_mapper(mask, (3, 3), reg(1.0)),
        make_func_list(mask, rng, 2, None),
        make_mapper(mask, (2, 2), reg(2.0)),
    ]
    out["1func_reg"] = [make_func_list(mask, rng, 4, reg(2.0))]  # the seed's trigger
    out["1func_reg_1param"] = [make_func_list(mask, rng, 1, reg(3.0))]
    out["1func_noreg"] = [make_func_list(mask, rng, 3, None)]
    out["2func_reg"] = [
        make_func_list(mask, rng, 2, reg(2.0)),
        make_func_list(mask, rng, 3, reg(1.0)),
    ]
    out["2func_mixed"] = [
        make_func_list(mask, rng, 2, reg(2.0)),
        make_func_list(mask, rng, 2, None),
    ]
    out["2func_noreg"] = [
        make_func_list(mask, rng, 2, None),
        make_func_list(mask, rng, 2, None),
    ]
    return out


# ------------------------------------------------------------------------------------------------------------------
# observation
# ------------------------------------------------------------------------------------------------------------------

ARRAY_ATTRS = [
    "data_vector",
    "curvature_matrix",
    "regularization_matrix",
    "curvature_reg_matrix",
    "curvature_reg_matrix_reduced",
    "reconstruction",
    "mapped_reconstructed_data",
]
SCALAR_ATTRS = [
    "regularization_term",
    "log_det_curvature_reg_matrix_term",
    "log_det_regularization_matrix_term",
]

ORDERS = {
    "cm_first": ARRAY_ATTRS + SCALAR_ATTRS,
    "recon_first": ["reconstruction", "curvature_matrix", "curvature_reg_matrix"]
    + SCALAR_ATTRS
    + ["curvature_matrix", "mapped_reconstructed_data", "data_vector"],
    "crm_twice": [
        "curvature_reg_matrix",
        "curvature_matrix",
        "curvature_matrix",
        "curvature_reg_matrix",
        "reconstruction",
        "curvature_matrix",
    ],
}


def read(tag, inversion, attr):
    def f():
        value = getattr(inversion, attr)
        if attr in SCALAR_ATTRS:
            return float(value)
        return np.array(value)

    return guarded(tag + "/" + attr, f)


def preload_state(tag, preloads):
    cm = preloads.curvature_matrix
    if isinstance(cm, np.ndarray):
        rec(tag + "/preload_bytes", np.array(cm))
        rec(tag + "/preload_writeable", bool(cm.flags.writeable))
    else:
        rec(tag + "/preload_repr", repr(cm))


def shares(a, b):
    if isinstance(a, np.ndarray) and isinstance(b, np.ndarray):
        return bool(np.shares_memory(a, b))
    return a is b


def aliasing(tag, inversion, preloads, others):
    """identity / memory sharing of the matrices handed to the caller with the preload and with other inversions."""

    def f():
        out = []
        in_dict_before = "curvature_matrix" in inversion.__dict__
        cm_0 = inversion.curvature_matrix
        cm_1 = inversion.curvature_matrix
        in_dict_mid = "curvature_matrix" in inversion.__dict__
        out.append(("cached_identity", cm_0 is cm_1, in_dict_before, in_dict_mid))
        out.append(("cm_is_preload", cm_0 is preloads.curvature_matrix))
        out.append(("cm_shares_preload", shares(cm_0, preloads.curvature_matrix)))
        crm = inversion.curvature_reg_matrix
        in_dict_after = "curvature_matrix" in inversion.__dict__
        out.append(("crm_is_cm0", crm is cm_0, in_dict_after))
        out.append(("crm_shares_preload", shares(crm, preloads.curvature_matrix)))
        cm_2 = inversion.curvature_matrix
        out.append(("cm2_is_cm0", cm_2 is cm_0))
        out.append(("cm2_shares_preload", shares(cm_2, preloads.curvature_matrix)))
        out.append(("crm_cached", inversion.curvature_reg_matrix is crm))
        for other in others:
            out.append(
                (
                    "shares_other",
                    shares(cm_2, other.curvature_matrix),
                    shares(crm, other.curvature_reg_matrix),
                )
            )
        return out

    guarded(tag + "/aliasing", f)


def write_through(tag, inversion, preloads):
    """a caller writing into the matrix it got from the inversion: does the preload change?"""

    def f():
        before = np.array(preloads.curvature_matrix).tobytes()
        cm = inversion.curvature_matrix
        cm[0, 0] = cm[0, 0] + 123.0
        changed_by_cm = np.array(preloads.curvature_matrix).tobytes() != before
        cm[0, 0] = cm[0, 0] - 123.0
        crm = inversion.curvature_reg_matrix
        crm[-1, -1] = crm[-1, -1] * 2.0
        changed_by_crm = np.array(preloads.curvature_matrix).tobytes() != before
        crm[-1, -1] = crm[-1, -1] / 2.0
        return (changed_by_cm, changed_by_crm)

    guarded(tag + "/write_through", f)


def new_inversion(dataset, linear_obj_list, settings, preloads=None):
    if preloads is None:
        return aa.Inversion(
            dataset=dataset, linear_obj_list=linear_obj_list, settings=settings
        )
    return aa.Inversion(
        dataset=dataset,
        linear_obj_list=linear_obj_list,
        settings=settings,
        preloads=preloads,
    )


def scenario(tag, dataset, linear_obj_list, settings):
    # -- fresh ------------------------------------------------------------------------------------------------------
    def fresh_cm():
        inv = new_inversion(dataset, linear_obj_list, settings)
        rec(tag + "/class", type(inv).__name__)
        return np.array(inv.curvature_matrix)

    F = guarded(tag + "/fresh_cm", fresh_cm)
    if F is None:
        return

    for order_name, order in ORDERS.items():
        inv = new_inversion(dataset, linear_obj_list, settings)
        for i, attr in enumerate(order):
            read(f"{tag}/fresh/{order_name}/{i}", inv, attr)

    # -- preloaded: exact matrix, perturbed matrix (preload does not have to equal the fresh matrix) -------------------
    rng = np.random.default_rng(5)
    bump = rng.uniform(0.0, 0.1, size=F.shape)
    preload_values = {
        "exact": F.copy(),
        "perturbed": F + bump + bump.T + 0.5 * np.eye(F.shape[0]),
        "fortran": np.asfortranarray(F.copy()),
    }

    for pname, P in preload_values.items():
        for order_name, order in ORDERS.items():
            ptag = f"{tag}/pre_{pname}/{order_name}"
            preloads = aa.Preloads(curvature_matrix=P.copy(order="K"))
            preload_state(ptag + "/init", preloads)
            inversions = []
            for k in range(3):
                inv = new_inversion(dataset, linear_obj_list, settings, preloads)
                for i, attr in enumerate(order):
                    read(f"{ptag}/inv{k}/{i}", inv, attr)
                preload_state(f"{ptag}/inv{k}", preloads)
                inversions.append(inv)
            # a 4th inversion examined for aliasing against the previous ones
            inv = new_inversion(dataset, linear_obj_list, settings, preloads)
            aliasing(ptag + "/inv3", inv, preloads, inversions)
            preload_state(ptag + "/inv3", preloads)
            # a 5th whose matrices are written to by the caller
            inv = new_inversion(dataset, linear_obj_list, settings, preloads)
            write_through(ptag + "/inv4", inv, preloads)
            preload_state(ptag + "/inv4", preloads)
            # and the preload is still usable afterwards
            inv = new_inversion(dataset, linear_obj_list, settings, preloads)
            read(ptag + "/inv5", inv, "reconstruction")
            read(ptag + "/inv5", inv, "curvature_matrix")
            preload_state(ptag + "/inv5", preloads)

    # -- odd preloads: exception types / coercions -----------------------------------------------------------------------
    ro = F.copy()
    ro.flags.writeable = False
    odd = {
        "readonly": ro,
        "wrong_shape": np.ones((F.shape[0] + 1, F.shape[0] + 1)),
        "int_dtype": np.rint(F * 10).astype(int) + 50 * np.eye(F.shape[0], dtype=int),
        "float32": (F + np.eye(F.shape[0])).astype(np.float32),
        "list": (F + np.eye(F.shape[0])).tolist(),
        "view": np.vstack([F, F])[: F.shape[0]],
        "zero_d": np.float64(3.0),
    }
    for oname, P in odd.items():
        otag = f"{tag}/odd_{oname}"
        preloads = aa.Preloads(curvature_matrix=P)
        for k in range(2):
            inv = new_inversion(dataset, linear_obj_list, settings, preloads)
            for i, attr in enumerate(
                ["curvature_reg_matrix", "curvature_matrix", "reconstruction"]
            ):
                read(f"{otag}/inv{k}/{i}", inv, attr)
            guarded(
                f"{otag}/inv{k}/types",
                lambda: (
                    type(inv.curvature_matrix).__name__,
                    inv.curvature_matrix is preloads.curvature_matrix,
                ),
            )
            preload_state(f"{otag}/inv{k}", preloads)

    # -- preloads with other slots only: curvature_matrix slot None --------------------------------------------------------
    preloads = aa.Preloads()
    for k in range(2):
        inv = new_inversion(dataset, linear_obj_list, settings, preloads)
        for i, attr in enumerate(ORDERS["recon_first"]):
            read(f"{tag}/pre_none/inv{k}/{i}", inv, attr)
        rec(f"{tag}/pre_none/inv{k}/slot", repr(preloads.curvature_matrix))


def helper_direct():
    """direct construction of the two formalism classes (not through the factory), incl. w-tilde with only func lists
    being impossible, mapping with mappers, and the mock inversion imaging class."""
    dataset, mask, rng = make_dataset("7x7")
    combo = combos(mask, rng)
    for cname in ["1mapper", "1func_reg", "2mappers", "1mapper+func_noreg"]:
        lol = combo[cname]
        F = np.array(
            aa.InversionImagingMapping(dataset=dataset, linear_obj_list=lol).curvature_matrix
        )
        for cls in [aa.InversionImagingMapping, aa.m.MockInversionImaging]:
            tag = f"direct/{cls.__name__}/{cname}"
            preloads = aa.Preloads(curvature_matrix=F.copy())
            for k in range(3):

                def make():
                    if cls is aa.m.MockInversionImaging:
                        return cls(
                            data=dataset.data,
                            noise_map=dataset.noise_map,
                            convolver=dataset.convolver,
                            linear_obj_list=lol,
                            preloads=preloads,
                        )
                    return cls(dataset=dataset, linear_obj_list=lol, preloads=preloads)

                try:
                    inv = make()
                except Exception as e:  # noqa
                    rec(tag + f"/inv{k}", "EXC:" + type(e).__name__)
                    continue
                for i, attr in enumerate(ORDERS["recon_first"]):
                    read(f"{tag}/inv{k}/{i}", inv, attr)
                aliasing(f"{tag}/inv{k}", inv, preloads, [])
                preload_state(f"{tag}/inv{k}", preloads)

        if cname != "1func_reg":
            tag = f"direct/InversionImagingWTilde/{cname}"
            preloads = aa.Preloads(curvature_matrix=F.copy())
            for k in range(3):
                try:
                    inv = aa.InversionImagingWTilde(
                        dataset=dataset,
                        w_tilde=dataset.w_tilde,
                        linear_obj_list=lol,
                        preloads=preloads,
                    )
                except Exception as e:  # noqa
                    rec(tag + f"/inv{k}", "EXC:" + type(e).__name__)
                    continue
                for i, attr in enumerate(ORDERS["recon_first"]):
                    read(f"{tag}/inv{k}/{i}", inv, attr)
                aliasing(f"{tag}/inv{k}", inv, preloads, [])
                preload_state(f"{tag}/inv{k}", preloads)


def main():
    for dname in mask_arrays():
        for use_w_tilde in [False, True]:
            for positive_only in [False, True]:
                # positive only solver only on the first dataset to keep the run time down
                if positive_only and dname != "7x7":
                    continue
                dataset, mask, rng = make_dataset(dname)
                settings = aa.SettingsInversion(
                    use_w_tilde=use_w_tilde, use_positive_only_solver=positive_only
                )
                for cname, lol in combos(mask, rng).items():
                    tag = f"{dname}/wt{int(use_w_tilde)}/pos{int(positive_only)}/{cname}"
                    scenario(tag, dataset, lol, settings)

    # single unmasked pixel data set: 1-pixel masks (single element case)
    m1 = np.full((5, 5), True)
    m1[2, 2] = False
    mask = aa.Mask2D(mask=m1, pixel_scales=(1.0, 1.0))
    rng = np.random.default_rng(3)
    imaging = aa.Imaging(
        data=aa.Array2D.no_mask(values=1.0 + rng.uniform(size=(5, 5)), pixel_scales=1.0),
        noise_map=aa.Array2D.no_mask(values=1.0 + rng.uniform(size=(5, 5)), pixel_scales=1.0),
        psf=aa.Kernel2D.no_mask(values=[[0.0, 0.1, 0.0], [0.1, 0.6, 0.1], [0.0, 0.1, 0.0]], pixel_scales=1.0),
        over_sampling=aa.OverSamplingDataset(uniform=aa.OverSamplingUniform(sub_size=1)),
    ).apply_mask(mask=mask)
    for use_w_tilde in [False, True]:
        settings = aa.SettingsInversion(use_w_tilde=use_w_tilde, use_positive_only_solver=False)
        for cname in ["1func_reg_1param", "1func_reg", "1func_noreg", "2func_reg"]:
            lol = combos(mask, rng)[cname]
            scenario(f"1pix/wt{int(use_w_tilde)}/{cname}", imaging, lol, settings)

    guarded("direct", lambda: helper_direct() or "done")

    print("records", N_RECORDS[0])
    print("digest", H.hexdigest())


if __name__ == "__main__":
    main()
