"""
Differential test for the C05-5 twin (autoarray/util/cholesky_funcs.py: `_choldowndate` + `_cholupdate` merged
into `_cholrank1`).

Prints a sha256 digest over every result (return values bit-for-bit, in-place effects on the arguments, identity of
the returned object, raised exception types, emitted warning categories). The digest must be identical on the clean
HEAD tree and on the tree with twin.patch applied.

    cd /tmp/wt8/C05-5 && PYTHONPATH=/tmp/wt8/C05-5 /venv/bin/python equiv.py
"""
import hashlib
import logging
import warnings

logging.disable(logging.CRITICAL)

import numpy as np

import autoarray as aa
from autoarray.util import cholesky_funcs as cf
from autoarray.util.fnnls import fnnls_cholesky, fix_constraint_cholesky

H = hashlib.sha256()
N_RECORDS = [0]


def feed(*objs):
    for o in objs:
        if isinstance(o, np.ndarray):
            H.update(str(o.dtype).encode())
            H.update(repr(o.shape).encode())
            H.update(np.ascontiguousarray(o).tobytes())
        else:
            H.update(repr(o).encode())
        H.update(b"|")
    N_RECORDS[0] += 1


def run(label, func, *args):
    """Call func(*args); record result / exception type and the warning categories that were emitted."""
    with warnings.catch_warnings(record=True) as wlist:
        warnings.simplefilter("always")
        try:
            out = func(*args)
            exc = None
        except Exception as e:  # noqa
            out = None
            exc = type(e).__name__
    wcats = sorted({w.category.__name__ for w in wlist})
    feed(label, exc, wcats)
    return out, exc


# --------------------------------------------------------------------------------------------- kernel wrappers
# (the private kernels have different names on the two trees; the public functions are the same)
if hasattr(cf, "_cholrank1"):

    def kernel_down(U, x):
        return cf._cholrank1(U, x, -1.0)

    def kernel_up(U, x):
        return cf._cholrank1(U, x, 1.0)

else:
    kernel_down = cf._choldowndate
    kernel_up = cf._cholupdate


def record_kernel(label, kernel, U, x):
    U_in, x_in = U, x
    out, exc = run(label, kernel, U, x)
    feed(U_in, x_in)  # in-place effects (also the partial ones when an exception was raised)
    if exc is None:
        feed(out is U_in, type(out).__name__, out)
        if isinstance(out, np.ndarray) and out.ndim == 2 and out.shape[0] > 0:
            feed(type(out[0, 0]).__name__)


def spd(rng, n, m=None, jitter=0.1, scale=None):
    m = m or n + 4
    Z = rng.normal(size=(m, n))
    if scale is not None:
        Z = Z * scale
    return Z.T @ Z + jitter * np.eye(n)


# --------------------------------------------------------------------------------------------- 1. raw kernels
rng = np.random.default_rng(20240501)

for n in range(0, 9):
    for rep in range(6):
        A = spd(rng, n) if n else np.zeros((0, 0))
        U = np.linalg.cholesky(A).T.copy() if n else np.zeros((0, 0))
        x_small = 0.3 * rng.normal(size=n) * (np.diag(U) if n else 1.0)
        x_big = 5.0 * rng.normal(size=n)

        record_kernel(f"up n={n} rep={rep}", kernel_up, U.copy(), x_big.copy())
        record_kernel(f"up-small n={n} rep={rep}", kernel_up, U.copy(), x_small.copy())
        # a valid downdate: x = U.T @ z with |z| < 1 keeps U.T U - x x.T positive definite
        z = rng.normal(size=n)
        z = 0.9 * z / max(np.linalg.norm(z), 1e-300) * rng.uniform()
        record_kernel(f"down-valid n={n} rep={rep}", kernel_down, U.copy(), (U.T @ z).copy())
        # usually NOT positive definite -> math domain error part way through (partial in-place effects recorded)
        record_kernel(f"down-big n={n} rep={rep}", kernel_down, U.copy(), x_big.copy())
        # Fortran ordered / non-contiguous views, as handed in by cholinsert / choldeleteindexes
        if n:
            big = np.zeros((n + 2, n + 3))
            big[1 : n + 1, 2 : n + 2] = U
            row = np.zeros(2 * n + 1)
            row[1::2] = x_big
            record_kernel(f"up-view n={n} rep={rep}", kernel_up, big[1 : n + 1, 2 : n + 2], row[1::2])
            feed(big, row)
            record_kernel(f"up-F n={n} rep={rep}", kernel_up, np.asfortranarray(U), x_small.copy())

# other dtypes and special values
for n in (1, 2, 3, 5):
    A = spd(rng, n)
    U = np.linalg.cholesky(A).T.copy()
    x = rng.normal(size=n)
    for dt in (np.float32, np.float16):
        record_kernel(f"up {dt.__name__} n={n}", kernel_up, U.astype(dt), x.astype(dt))
        record_kernel(f"down {dt.__name__} n={n}", kernel_down, U.astype(dt), (0.1 * x).astype(dt))
        record_kernel(f"up mixed {dt.__name__} n={n}", kernel_up, U.copy(), x.astype(dt))
        # NOT compared: low precision U with a float64 x handed straight to the private update kernel. The two
        # original kernels disagree with each other there (np.sqrt keeps float64 intermediates, math.sqrt gives a
        # weakly typed Python float), so one merged kernel cannot match both; through the public functions U and x
        # always share a dtype (x is a row of U), see TWIN_NOTES.md.
    Ui = np.triu(rng.integers(1, 9, size=(n, n)))
    xi = rng.integers(-5, 6, size=n)
    record_kernel(f"up int n={n}", kernel_up, Ui.copy(), xi.copy())
    record_kernel(f"down int n={n}", kernel_down, Ui.copy(), np.zeros_like(xi))
    record_kernel(f"up int/float n={n}", kernel_up, Ui.astype(float), xi.copy())
    for special in (np.nan, np.inf, -np.inf, 0.0, -0.0, 1e200, 1e-200, 1e308):
        for pos in range(n):
            xs = x.copy()
            xs[pos] = special
            record_kernel(f"up special x {special} {pos} n={n}", kernel_up, U.copy(), xs.copy())
            record_kernel(f"down special x {special} {pos} n={n}", kernel_down, U.copy(), xs.copy())
            Us = U.copy()
            Us[pos, pos] = special
            record_kernel(f"up special U {special} {pos} n={n}", kernel_up, Us.copy(), x.copy())
            record_kernel(f"down special U {special} {pos} n={n}", kernel_down, Us.copy(), 0.1 * x)
            Us = U.copy()
            Us[pos, -1] = special
            record_kernel(f"up special Uoff {special} {pos} n={n}", kernel_up, Us.copy(), x.copy())
    # size mismatches
    record_kernel(f"up x too long n={n}", kernel_up, U.copy(), rng.normal(size=n + 1))
    record_kernel(f"up x too short n={n}", kernel_up, np.linalg.cholesky(spd(rng, n + 1)).T.copy(), x.copy())
    record_kernel(f"down x too long n={n}", kernel_down, U.copy(), 0.01 * rng.normal(size=n + 1))

# --------------------------------------------------------------------------------------------- 2. public functions
for n in range(0, 9):
    for rep in range(4):
        scale = None if rep < 2 else rng.uniform(0.1, 10.0, size=n)
        A = spd(rng, n, scale=scale) if n else np.zeros((0, 0))
        U = np.linalg.cholesky(A).T.copy() if n else np.zeros((0, 0))

        # -- choldeleteindexes: every single index, many index sets (unsorted, duplicates, out of range, negative)
        index_sets = [[i] for i in range(n)] + [[], [n], [-1], [0, 0]]
        for _ in range(8):
            if n:
                k = int(rng.integers(1, n + 1))
                index_sets.append([int(i) for i in rng.choice(n, size=k, replace=False)])
        if n >= 3:
            index_sets += [[0, n - 1], [n - 1, 0], list(range(n)), [1, 0, 1], np.array([0, 2])]
        for idx in index_sets:
            U_in = U.copy()
            out, exc = run(f"choldelete n={n} rep={rep} idx={list(idx)}", cf.choldeleteindexes, U_in, idx)
            feed(U_in)  # the deleted row of the *caller's* U is used as work space by the update kernel
            if exc is None:
                feed(out, out is U_in, type(out).__name__)
            # F-ordered input
            U_in = np.asfortranarray(U)
            out, exc = run(f"choldelete-F n={n} rep={rep} idx={list(idx)}", cf.choldeleteindexes, U_in, idx)
            feed(U_in)
            if exc is None:
                feed(out)

        # -- cholinsert / cholinsertlast: build the factor of A with one row/column missing and insert it back
        for index in range(n):
            keep = [i for i in range(n) if i != index]
            Uk = np.linalg.cholesky(A[np.ix_(keep, keep)]).T.copy() if keep else np.zeros((0, 0))
            xrow = A[index].copy()
            # cholinsert expects x ordered as the NEW matrix
            Uk_in, x_in = Uk.copy(), xrow.copy()
            out, exc = run(f"cholinsert n={n} rep={rep} index={index}", cf.cholinsert, Uk_in, index, x_in)
            feed(Uk_in, x_in)
            if exc is None:
                feed(out)
            # not positive definite insert -> exception
            x_bad = xrow.copy()
            x_bad[index] = 1e-6 * xrow[index]
            Uk_in = Uk.copy()
            out, exc = run(f"cholinsert-bad n={n} rep={rep} index={index}", cf.cholinsert, Uk_in, index, x_bad)
            feed(Uk_in, x_bad)
            if exc is None:
                feed(out)
            # too strongly correlated later column -> downdate fails half way
            x_bad = xrow.copy()
            x_bad[index + 1 :] *= 3.0
            Uk_in = Uk.copy()
            out, exc = run(f"cholinsert-bad2 n={n} rep={rep} index={index}", cf.cholinsert, Uk_in, index, x_bad)
            feed(Uk_in, x_bad)
            if exc is None:
                feed(out)
        if n:
            keep = list(range(n - 1))
            Uk = np.linalg.cholesky(A[np.ix_(keep, keep)]).T.copy() if keep else np.zeros((0, 0))
            x_in = A[n - 1].copy()
            out, exc = run(f"cholinsertlast n={n} rep={rep}", cf.cholinsertlast, Uk, x_in)
            feed(Uk, x_in)
            if exc is None:
                feed(out)

        # -- repeated deletes on the same (shared) factor: delete, then delete from the result, original reused
        if n >= 4:
            U_shared = U.copy()
            o1, _ = run(f"shared-1 n={n} rep={rep}", cf.choldeleteindexes, U_shared, [1])
            o2, _ = run(f"shared-2 n={n} rep={rep}", cf.choldeleteindexes, U_shared, [1])  # row 1 was overwritten
            o3, _ = run(f"shared-3 n={n} rep={rep}", cf.choldeleteindexes, o1, [0, 2])
            feed(U_shared, o1, o2, o3)

# --------------------------------------------------------------------------------------------- 3. fix_constraint / fnnls
for seed in list(range(120)) + [11, 25, 77, 115]:
    r = np.random.default_rng(seed)
    n = int(r.integers(1, 11))
    m = int(r.integers(max(1, n - 2), n + 6))
    Z = r.normal(size=(m, n))
    if seed % 3 == 0:  # strongly correlated columns -> many removals from the passive set
        Z = Z + 3.0 * r.normal(size=(m, 1))
    ZTZ = Z.T @ Z + (0.1 if seed % 2 else 1e-3) * np.eye(n)
    ZTx = Z.T @ r.normal(size=m)
    for warm in (False, True):
        P_initial = np.linalg.solve(ZTZ, ZTx) > 0 if warm else np.zeros(0, dtype=int)
        A_in, b_in = ZTZ.copy(), ZTx.copy()
        out, exc = run(f"fnnls seed={seed} warm={warm}", fnnls_cholesky, A_in, b_in, P_initial)
        feed(A_in, b_in, P_initial)
        if exc is None:
            feed(out)

# the notes' trigger set: dense 8x8 systems from 12 rows (demo part a), scanned widely
for seed in range(400):
    r = np.random.default_rng(seed)
    Z = r.normal(size=(12, 8))
    ZTZ = Z.T @ Z + 0.1 * np.eye(8)
    ZTx = Z.T @ r.normal(size=12)
    out, exc = run(f"fnnls8 seed={seed}", fnnls_cholesky, ZTZ.copy(), ZTx.copy(), np.zeros(0, dtype=int))
    if exc is None:
        feed(out)

# direct call of fix_constraint_cholesky with a hand made state (a parameter in the MIDDLE of P_inorder leaves)
for seed in range(40):
    r = np.random.default_rng(1000 + seed)
    n = int(r.integers(3, 9))
    A = spd(r, n)
    P_inorder = r.permutation(n)[: int(r.integers(3, n + 1))]
    P = np.zeros(n, dtype=bool)
    P[P_inorder] = True
    U = np.linalg.cholesky(A[P_inorder][:, P_inorder]).T.copy()
    ZTx = r.normal(size=n)
    d = np.zeros(n)
    d[P_inorder] = r.uniform(0.5, 2.0, size=P_inorder.size)
    s_chol = d.copy()
    bad = P_inorder[: max(1, P_inorder.size - 2)]
    s_chol[r.choice(bad, size=int(r.integers(1, bad.size + 1)), replace=False)] = -r.uniform(0.1, 1.0)
    args = dict(ZTx=ZTx, s_chol=s_chol, d=d, P=P, P_inorder=P_inorder, U=U, tolerance=1e-10)
    out, exc = run(f"fix_constraint seed={seed}", lambda: fix_constraint_cholesky(**args))
    feed(ZTx, s_chol, d, P, P_inorder, U)
    if exc is None:
        for o in out:
            feed(o)


# --------------------------------------------------------------------------------------------- 4. aa.Inversion
def inversion_from(seed, p_initial, use_w_tilde, shape, pixel_scales, origin, mesh_shape, coefficient, offset):
    r = np.random.default_rng(seed)
    radius = 0.42 * min(shape[0] * pixel_scales[0], shape[1] * pixel_scales[1])
    mask = aa.Mask2D.circular(shape_native=shape, pixel_scales=pixel_scales, radius=radius, centre=origin)
    mask = aa.Mask2D(mask=np.array(mask), pixel_scales=pixel_scales, origin=origin)
    data = aa.Array2D.no_mask(values=r.normal(size=shape) + offset, pixel_scales=pixel_scales, origin=origin)
    noise_map = aa.Array2D.full(fill_value=1.0, shape_native=shape, pixel_scales=pixel_scales, origin=origin)
    psf = aa.Kernel2D.no_mask(
        values=np.array([[0.2, 0.5, 0.2], [0.5, 1.0, 0.5], [0.2, 0.5, 0.2]]), pixel_scales=pixel_scales
    )
    imaging = aa.Imaging(
        data=data,
        psf=psf,
        noise_map=noise_map,
        over_sampling=aa.OverSamplingDataset(
            uniform=aa.OverSamplingUniform(sub_size=1), pixelization=aa.OverSamplingUniform(sub_size=2)
        ),
    ).apply_mask(mask=mask)

    over_sampler = aa.OverSamplerUniform(mask=mask, sub_size=2)
    grid = over_sampler.over_sampled_grid
    mesh_grid = aa.Mesh2DRectangular.overlay_grid(grid=grid, shape_native=mesh_shape)
    mapper_grids = aa.MapperGrids(
        mask=mask, source_plane_data_grid=grid, source_plane_mesh_grid=mesh_grid, image_plane_mesh_grid=None
    )
    mapper = aa.MapperRectangular(
        mapper_grids=mapper_grids,
        over_sampler=over_sampler,
        border_relocator=None,
        regularization=aa.reg.Constant(coefficient=coefficient),
    )
    return aa.Inversion(
        dataset=imaging,
        linear_obj_list=[mapper],
        settings=aa.SettingsInversion(
            use_w_tilde=use_w_tilde,
            use_positive_only_solver=True,
            positive_only_uses_p_initial=p_initial,
            force_edge_pixels_to_zeros=False,
        ),
    )


def reconstruction_of(**kwargs):
    inversion = inversion_from(**kwargs)
    rec = np.array(inversion.reconstruction)
    rec2 = np.array(inversion.reconstruction)  # cached property, second access
    return rec, rec2, np.array(inversion.mapped_reconstructed_image)


configs = [
    dict(shape=(13, 11), pixel_scales=(1.0, 1.0), origin=(0.0, 0.0), mesh_shape=(6, 5), coefficient=0.01, offset=0.3),
    dict(shape=(11, 14), pixel_scales=(0.5, 0.8), origin=(0.7, -0.4), mesh_shape=(4, 6), coefficient=0.01, offset=0.1),
    dict(shape=(12, 12), pixel_scales=(2.0, 1.0), origin=(-1.0, 2.0), mesh_shape=(5, 5), coefficient=1.0, offset=0.3),
]
for ci, cfg in enumerate(configs):
    for seed in (6, 8, 11, 3, 4) if ci == 0 else (1, 2, 3):
        for p_initial in (True, False):
            for use_w_tilde in (False, True) if ci == 0 and seed in (6, 8) else (False,):
                out, exc = run(
                    f"inversion cfg={ci} seed={seed} p_initial={p_initial} w_tilde={use_w_tilde}",
                    lambda: reconstruction_of(seed=seed, p_initial=p_initial, use_w_tilde=use_w_tilde, **cfg),
                )
                if exc is None:
                    for o in out:
                        feed(o)

print("records", N_RECORDS[0])
print("digest", H.hexdigest())
