"""
Differential test for the C08-7 twin (FitDataset.signal_to_noise_map de-duplication).

Prints a sha256 digest over every observed result (values, dtypes, shapes, types, mask of the result, aliasing
flags, raised exception types, state of the `warnings` filters). The digest must be identical on the clean HEAD tree
and on the twin tree.

Run:  cd /tmp/wt10/C08-7 && PYTHONPATH=/tmp/wt10/C08-7 /venv/bin/python equiv.py
"""
import hashlib
import warnings

import numpy as np

import autoarray as aa

H = hashlib.sha256()
N_RECORDS = 0


def rec(*items):
    global N_RECORDS
    for item in items:
        H.update(repr(item).encode())
        H.update(b"|")
    H.update(b"\n")
    N_RECORDS += 1


def describe(value):
    """A deterministic description of a result (or of nothing)."""
    if value is None:
        return ("None",)
    out = [type(value).__name__]
    arr = np.asarray(value)
    out += [str(arr.dtype), arr.shape, arr.tobytes().hex()]
    mask = getattr(value, "mask", None)
    if mask is not None:
        m = np.asarray(mask)
        out += [type(mask).__name__, m.shape, m.tobytes().hex()]
        out += [repr(getattr(mask, "pixel_scales", None)), repr(getattr(mask, "origin", None))]
    out.append(repr(getattr(value, "store_native", None)))
    return tuple(out)


def filters_state():
    return tuple((f[0], str(f[1]), str(f[2]), str(f[3]), f[4]) for f in warnings.filters)


def call(label, fn):
    """Evaluate fn with a pristine warnings-filter state; record result / exception and the filters afterwards."""
    saved = warnings.filters[:]
    try:
        warnings.resetwarnings()
        try:
            with np.errstate(all="ignore"):
                value = fn()
            rec(label, "ok", describe(value))
        except Exception as e:  # noqa
            value = None
            rec(label, "raise", type(e).__name__, str(e))
        rec(label, "filters", filters_state())
    finally:
        warnings.filters[:] = saved
        if hasattr(warnings, "_filters_mutated"):
            warnings._filters_mutated()
    return value


ALL_PROPS = [
    "signal_to_noise_map",
    "residual_map",
    "normalized_residual_map",
    "chi_squared_map",
    "chi_squared",
    "reduced_chi_squared",
    "noise_normalization",
    "log_likelihood",
]


def probe_fit(label, fit, dataset=None):
    snr_1 = call(label + ".snr", lambda: fit.signal_to_noise_map)
    snr_2 = call(label + ".snr_again", lambda: fit.signal_to_noise_map)

    # aliasing visible to callers: the result is a fresh array every call, never the fit's / dataset's own arrays.
    if snr_1 is not None:
        others = {"snr_2": snr_2}
        for name, getter in [
            ("fit.data", lambda: fit.data),
            ("fit.noise_map", lambda: fit.noise_map),
            ("dataset.data", lambda: dataset.data),
            ("dataset.noise_map", lambda: dataset.noise_map),
        ]:
            try:
                others[name] = getter()
            except Exception:  # noqa
                others[name] = None
        for name, other in others.items():
            if other is None:
                rec(label, "alias", name, "n/a")
                continue
            rec(
                label,
                "alias",
                name,
                snr_1 is other,
                bool(np.shares_memory(np.asarray(snr_1), np.asarray(other))),
            )

        # writing into the result must not change the dataset (nor a later evaluation).
        try:
            before = [describe(dataset.data), describe(dataset.noise_map)] if dataset is not None else None
            np.asarray(snr_1)[...] = -123.0
            after = [describe(dataset.data), describe(dataset.noise_map)] if dataset is not None else None
            rec(label, "inplace_isolated", before == after)
            call(label + ".snr_after_write", lambda: fit.signal_to_noise_map)
        except Exception as e:  # noqa
            rec(label, "inplace", "raise", type(e).__name__)

    if dataset is not None and hasattr(dataset, "signal_to_noise_map"):
        call(label + ".dataset_snr", lambda: dataset.signal_to_noise_map)
        call(label + ".dataset_snr_max", lambda: dataset.signal_to_noise_max)

    for prop in ALL_PROPS[1:]:
        call(label + "." + prop, lambda: getattr(fit, prop))

    # the dataset itself is untouched by all of the above
    if dataset is not None:
        for name in ["data", "noise_map"]:
            call(label + ".dataset." + name, lambda: getattr(dataset, name))


# ---------------------------------------------------------------------------------------------------------------------
# 1) Imaging fits: masks x storage mode x sky level x noise-map override
# ---------------------------------------------------------------------------------------------------------------------

rng = np.random.RandomState(20261003)

MASKS = {
    "demo_3x4": (
        [[True, False, False, True], [False, False, False, False], [True, True, False, False]],
        (1.0, 2.0),
        (0.0, 0.0),
    ),
    "all_false_2x5": (np.full((2, 5), False), (0.5, 0.25), (1.0, -2.0)),
    "single_unmasked_3x3": (
        [[True, True, True], [True, False, True], [True, True, True]],
        (1.0, 1.0),
        (0.0, 0.0),
    ),
    "single_pixel_1x1": ([[False]], (2.0, 3.0), (0.3, 0.7)),
    "edges_5x3": (
        [
            [False, True, False],
            [True, True, True],
            [False, False, True],
            [True, False, False],
            [False, True, False],
        ],
        (0.1, 0.3),
        (-1.0, 4.0),
    ),
    "row_1x6": ([[False, True, False, False, True, False]], (1.0, 1.0), (0.0, 0.0)),
    "all_true_2x2": ([[True, True], [True, True]], (1.0, 1.0), (0.0, 0.0)),
}

SKIES = [0.0, 0.5, -0.4, 1e-12, 100.0, -0.0, np.float64(0.25), 1]


def values_for(n, kind):
    if kind == "rand":
        return rng.normal(loc=0.5, scale=1.5, size=n)
    if kind == "neg":
        return -np.abs(rng.normal(size=n)) - 0.1
    if kind == "zeros":
        return np.zeros(n)
    if kind == "int":
        return rng.randint(-3, 6, size=n)
    raise ValueError(kind)


def noise_for(n, kind):
    if kind == "pos":
        return np.abs(rng.normal(size=n)) + 0.1
    if kind == "with_zero":
        noise = np.abs(rng.normal(size=n)) + 0.1
        noise[0] = 0.0
        return noise
    if kind == "with_neg":
        noise = np.abs(rng.normal(size=n)) + 0.1
        noise[-1] = -noise[-1]
        return noise
    if kind == "with_nan_inf":
        noise = np.abs(rng.normal(size=n)) + 0.1
        noise[0] = np.nan
        noise[-1] = np.inf
        return noise
    raise ValueError(kind)


for mask_name, (mask_2d, pixel_scales, origin) in MASKS.items():
    try:
        mask = aa.Mask2D(mask=mask_2d, pixel_scales=pixel_scales, origin=origin)
    except Exception as e:  # noqa
        rec(mask_name, "mask_raise", type(e).__name__)
        continue
    n = int(np.sum(~np.asarray(mask)))

    for data_kind, noise_kind in [
        ("rand", "pos"),
        ("neg", "pos"),
        ("zeros", "with_zero"),
        ("rand", "with_neg"),
        ("rand", "with_nan_inf"),
        ("int", "pos"),
    ]:
        if n == 0 and noise_kind != "pos":
            continue
        if n == 0:
            data_slim, noise_slim, model_slim, override_slim = [], [], [], []
        else:
            data_slim = values_for(n, data_kind)
            noise_slim = noise_for(n, noise_kind)
            model_slim = values_for(n, "rand")
            override_slim = np.abs(rng.normal(size=n)) + 0.2

        for store_native, use_mask_in_fit in [(False, False), (True, True), (True, False)]:
            label0 = f"img/{mask_name}/{data_kind}/{noise_kind}/native={store_native}/umf={use_mask_in_fit}"
            try:
                data = aa.Array2D(values=data_slim, mask=mask, store_native=store_native)
                noise_map = aa.Array2D(values=noise_slim, mask=mask, store_native=store_native)
                model_data = aa.Array2D(values=model_slim, mask=mask, store_native=store_native)
                override = aa.Array2D(values=override_slim, mask=mask, store_native=store_native)
                dataset = aa.Imaging(data=data, noise_map=noise_map)
            except Exception as e:  # noqa
                rec(label0, "setup_raise", type(e).__name__)
                continue

            for sky in SKIES:
                for noise_override in [None, override]:
                    label = f"{label0}/sky={sky!r}/override={noise_override is not None}"
                    fit = aa.m.MockFitImaging(
                        dataset=dataset,
                        use_mask_in_fit=use_mask_in_fit,
                        model_data=model_data,
                        noise_map=noise_override,
                        dataset_model=aa.DatasetModel(background_sky_level=sky),
                    )
                    probe_fit(label, fit, dataset=dataset)

            # shared dataset, default dataset model, the plain (non-mock) classes
            fit = aa.m.MockFitImaging(dataset=dataset, use_mask_in_fit=use_mask_in_fit, model_data=model_data)
            probe_fit(label0 + "/default_dataset_model", fit, dataset=dataset)

            call(label0 + "/FitImaging.snr", lambda: aa.FitImaging(dataset=dataset).signal_to_noise_map)
            call(
                label0 + "/FitImaging.snr.sky",
                lambda: aa.FitImaging(
                    dataset=dataset, dataset_model=aa.DatasetModel(background_sky_level=0.7)
                ).signal_to_noise_map,
            )

# ---------------------------------------------------------------------------------------------------------------------
# 2) The exact trigger of the seed notes / demo
# ---------------------------------------------------------------------------------------------------------------------

mask = aa.Mask2D(
    mask=[[True, False, False, True], [False, False, False, False], [True, True, False, False]],
    pixel_scales=(1.0, 2.0),
)
data_slim = [1.0, 2.5, 0.3, -0.7, 4.0, 1.2, 0.9, 2.0]
noise_slim = [0.5, 1.0, 0.25, 0.7, 2.0, 0.4, 3.0, 1.0]
model_slim = [0.8, 2.0, 0.1, 0.2, 3.5, 1.0, 1.0, 2.2]

for store_native, use_mask_in_fit in [(False, False), (True, True)]:
    data = aa.Array2D(values=data_slim, mask=mask, store_native=store_native)
    noise_map = aa.Array2D(values=noise_slim, mask=mask, store_native=store_native)
    model_data = aa.Array2D(values=model_slim, mask=mask, store_native=store_native)
    dataset = aa.Imaging(data=data, noise_map=noise_map)
    for sky in [0.0, 0.5, -0.4]:
        fit = aa.m.MockFitImaging(
            dataset=dataset,
            use_mask_in_fit=use_mask_in_fit,
            model_data=model_data,
            dataset_model=aa.DatasetModel(background_sky_level=sky),
        )
        probe_fit(f"trigger/native={store_native}/sky={sky}", fit, dataset=dataset)

# ---------------------------------------------------------------------------------------------------------------------
# 3) Imaging dataset with a noise covariance matrix (noise_map=None -> derived noise map), psf, over sampling
# ---------------------------------------------------------------------------------------------------------------------

mask = aa.Mask2D.all_false(shape_native=(2, 2), pixel_scales=(1.0, 3.0))
data = aa.Array2D(values=[1.0, -2.0, 3.0, 0.0], mask=mask)
noise_map = aa.Array2D(values=[2.0, 2.0, 4.0, 1.0], mask=mask)
cov = np.array([[1.0, 0.5, 0.0, 0.0], [0.5, 2.0, 0.0, 0.0], [0.0, 0.0, 3.0, 0.1], [0.0, 0.0, 0.1, 4.0]])
for nm in [noise_map, None]:
    try:
        dataset = aa.Imaging(data=data, noise_map=nm, noise_covariance_matrix=cov)
    except Exception as e:  # noqa
        rec("cov", nm is None, "setup_raise", type(e).__name__)
        continue
    for sky in [0.0, 1.5]:
        fit = aa.m.MockFitImaging(
            dataset=dataset,
            model_data=aa.Array2D(values=[0.5, 0.5, 2.0, 0.1], mask=mask),
            dataset_model=aa.DatasetModel(background_sky_level=sky),
        )
        probe_fit(f"cov/noise_none={nm is None}/sky={sky}", fit, dataset=dataset)

# ---------------------------------------------------------------------------------------------------------------------
# 4) Interferometer fits (own override: must be unaffected), incl. a FitImaging-style fit on complex data
# ---------------------------------------------------------------------------------------------------------------------

real_space_mask = aa.Mask2D.all_false(shape_native=(3, 4), pixel_scales=(0.5, 1.0))
vis = aa.Visibilities(visibilities=[1.0 + 2.0j, -3.0 + 0.5j, 0.2 - 4.0j])
vis_noise = aa.VisibilitiesNoiseMap(visibilities=[2.0 + 2.0j, 1.0 + 4.0j, 0.5 + 0.25j])
uv = np.array([[1.0, 2.0], [-0.5, 0.3], [0.7, -1.1]])
try:
    interferometer = aa.Interferometer(
        data=vis,
        noise_map=vis_noise,
        uv_wavelengths=uv,
        real_space_mask=real_space_mask,
        transformer_class=aa.TransformerDFT,
    )
except Exception as e:  # noqa
    interferometer = None
    rec("interferometer", "setup_raise", type(e).__name__, str(e))

if interferometer is not None:
    model_vis = aa.Visibilities(visibilities=[0.9 + 2.1j, -2.5 + 0.4j, 0.1 - 3.0j])
    for umf in [False, True]:
        fit = aa.m.MockFitInterferometer(dataset=interferometer, use_mask_in_fit=umf, model_data=model_vis)
        probe_fit(f"interferometer/umf={umf}", fit, dataset=interferometer)
        call(f"interferometer/umf={umf}/dirty_snr", lambda: fit.dirty_signal_to_noise_map)
        fit = aa.m.MockFitInterferometer(
            dataset=interferometer,
            use_mask_in_fit=umf,
            model_data=model_vis,
            noise_map=aa.VisibilitiesNoiseMap(visibilities=[1.0 + 1.0j, 2.0 + 2.0j, 3.0 + 3.0j]),
        )
        probe_fit(f"interferometer/umf={umf}/override", fit, dataset=interferometer)

    # an imaging-style fit (no signal_to_noise_map override of its own) pointed at the interferometer dataset:
    # the generic real-valued calculation is applied to the complex data (raises), not the interferometer's own one.
    for sky in [0.0, 0.5]:
        fit = aa.m.MockFitImaging(
            dataset=interferometer,
            model_data=model_vis,
            dataset_model=aa.DatasetModel(background_sky_level=sky),
        )
        call(f"imaging_fit_on_interferometer/sky={sky}/snr", lambda: fit.signal_to_noise_map)

# ---------------------------------------------------------------------------------------------------------------------
# 5) Degenerate / duck-typed datasets and direct subclasses
# ---------------------------------------------------------------------------------------------------------------------

# default MockDataset has no data / noise_map at all: the exception type and the warnings-filter side effect are kept.
call("mockdataset/default", lambda: aa.m.MockFitImaging().signal_to_noise_map)
call("mockdataset/default/noise_override", lambda: aa.m.MockFitImaging(noise_map=np.ones(3)).signal_to_noise_map)
call(
    "mockdataset/default/sky",
    lambda: aa.m.MockFitImaging(dataset_model=aa.DatasetModel(background_sky_level=1.0)).signal_to_noise_map,
)


class DuckDataset:
    """Not an AbstractDataset; has its own (different) signal_to_noise_map which a fit must never pick up."""

    def __init__(self, data, noise_map):
        self.data = data
        self.noise_map = noise_map
        self.noise_covariance_matrix = None
        self.mask = getattr(data, "mask", None)

    @property
    def signal_to_noise_map(self):
        return "duck"


class NoSnrDataset:
    def __init__(self, data, noise_map):
        self.data = data
        self.noise_map = noise_map
        self.noise_covariance_matrix = None
        self.mask = getattr(data, "mask", None)


mask = aa.Mask2D(mask=[[False, True], [False, False]], pixel_scales=(1.0, 2.0))
data = aa.Array2D(values=[1.0, -1.0, 3.0], mask=mask)
noise_map = aa.Array2D(values=[2.0, 2.0, 0.5], mask=mask)
model_data = aa.Array2D(values=[0.9, 0.2, 2.0], mask=mask)

for cls in [DuckDataset, NoSnrDataset]:
    for d, nm, tag in [
        (data, noise_map, "array2d"),
        (np.array([1.0, -1.0, 3.0]), np.array([2.0, 2.0, 0.5]), "ndarray"),
        (np.array([1, -1, 3]), np.array([2, 2, 1]), "int_ndarray"),
        ([1.0, -1.0, 3.0], [2.0, 2.0, 0.5], "list"),
        (3.0, 2.0, "scalar"),
        (np.float64(-3.0), np.float64(2.0), "np_scalar"),
        (None, None, "none"),
        (np.array([]), np.array([]), "empty"),
        (np.array([1.0, 2.0]), np.array([1.0, 2.0, 3.0]), "shape_mismatch"),
    ]:
        for sky in [0.0, 0.5]:
            ds = cls(d, nm)
            fit = aa.m.MockFitImaging(
                dataset=ds, model_data=model_data, dataset_model=aa.DatasetModel(background_sky_level=sky)
            )
            call(f"{cls.__name__}/{tag}/sky={sky}/snr", lambda: fit.signal_to_noise_map)
            call(f"{cls.__name__}/{tag}/sky={sky}/ds.data", lambda: ds.data)
            call(f"{cls.__name__}/{tag}/sky={sky}/ds.noise_map", lambda: ds.noise_map)


class DirectFit(aa.FitDataset):
    """A direct subclass of FitDataset with its own data / noise_map / model_data."""

    def __init__(self, dataset, scale, **kwargs):
        super().__init__(dataset=dataset, **kwargs)
        self.scale = scale
        self.log = []

    @property
    def data(self):
        self.log.append("data")
        return self.dataset.data * self.scale

    @property
    def noise_map(self):
        self.log.append("noise_map")
        return self.dataset.noise_map + 1.0

    @property
    def model_data(self):
        self.log.append("model_data")
        return self.dataset.data * 0.5

    @property
    def inversion(self):
        return None


class DirectFitSuper(DirectFit):
    @property
    def signal_to_noise_map(self):
        self.log.append("sub")
        return super().signal_to_noise_map * 2.0


class BareAbstractFit(aa.AbstractFit):
    def __init__(self, data, noise_map, model_data):
        self._d, self._n, self._m = data, noise_map, model_data

    @property
    def data(self):
        return self._d

    @property
    def noise_map(self):
        return self._n

    @property
    def model_data(self):
        return self._m


dataset = aa.Imaging(data=data, noise_map=noise_map)
for cls in [DirectFit, DirectFitSuper]:
    for scale in [1.0, -2.0, 0.0]:
        fit = cls(dataset=dataset, scale=scale)
        call(f"{cls.__name__}/scale={scale}/snr", lambda: fit.signal_to_noise_map)
        rec(f"{cls.__name__}/scale={scale}/access_log", tuple(fit.log))  # order / number of property evaluations
        probe_fit(f"{cls.__name__}/scale={scale}", fit, dataset=dataset)

fit = BareAbstractFit(data, noise_map, model_data)
probe_fit("BareAbstractFit", fit)
call("BareAbstractFit/none", lambda: BareAbstractFit(None, None, None).signal_to_noise_map)

# class-level structure visible to callers
rec("is_property", isinstance(aa.FitDataset.__dict__.get("signal_to_noise_map", aa.AbstractFit.signal_to_noise_map), property))
rec("fset", aa.FitImaging.signal_to_noise_map.fset is None)
fit = aa.m.MockFitImaging(dataset=dataset, model_data=model_data)
try:
    fit.signal_to_noise_map = 1.0
    rec("setattr", "ok")
except Exception as e:  # noqa
    rec("setattr", "raise", type(e).__name__)

# 1D datasets
mask_1d = aa.Mask1D(mask=[True, False, False, False, True], pixel_scales=(0.5,))
data_1d = aa.Array1D(values=[1.0, -2.0, 3.0], mask=mask_1d)
noise_1d = aa.Array1D(values=[0.5, 0.5, 2.0], mask=mask_1d)
ds = NoSnrDataset(data_1d, noise_1d)
for sky in [0.0, 2.0]:
    fit = aa.m.MockFitImaging(
        dataset=ds,
        model_data=aa.Array1D(values=[1.0, 1.0, 1.0], mask=mask_1d),
        dataset_model=aa.DatasetModel(background_sky_level=sky),
    )
    probe_fit(f"array1d/sky={sky}", fit, dataset=ds)

print("records", N_RECORDS)
print("digest", H.hexdigest())
