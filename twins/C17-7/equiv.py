"""
Differential test for the C17-7 twin (`project_grid` / `_centre_and_angle_from`).

Prints a sha256 digest over every observable of the `project_grid` decorator (coordinates the user function is
evaluated at, type / values / pixel scales of the result, raised exception types) for many profile x grid
combinations. The digest must be identical on the clean HEAD tree and on the twin tree.

Run: cd /tmp/wt10/C17-7 && PYTHONPATH=/tmp/wt10/C17-7 /venv/bin/python equiv.py
"""
import hashlib
import os
import sys

import numpy as np

from autoconf import conf

import autoarray as aa

conf.instance.push(
    new_path=os.path.join(
        os.path.dirname(os.path.realpath(__file__)), "test_autoarray", "config"
    )
)

import logging

logging.disable(logging.WARNING)

H = hashlib.sha256()
N_RECORDS = 0
COUNTS = {}


def emit(*parts):
    global N_RECORDS
    N_RECORDS += 1
    if len(parts) > 2 and isinstance(parts[1], str) and parts[1] in ("OK", "EXC"):
        key = parts[1] if parts[1] == "OK" else "EXC:" + parts[2]
        COUNTS[key] = COUNTS.get(key, 0) + 1
    for part in parts:
        if isinstance(part, np.ndarray):
            H.update(str(part.dtype).encode())
            H.update(repr(part.shape).encode())
            H.update(np.ascontiguousarray(part).tobytes())
        else:
            H.update(repr(part).encode())
        H.update(b"|")
    H.update(b"\n")


def fingerprint(grid):
    grid = np.array(grid)
    return 3.0 * grid[:, 0] - 7.0 * grid[:, 1] + 0.5 * grid[:, 0] * grid[:, 1]


def fingerprint_2d(grid):
    grid = np.array(grid)
    return np.stack((2.0 * grid[:, 0] + grid[:, 1], grid[:, 0] - 3.0 * grid[:, 1]), axis=-1)


ABSENT = "<absent>"


def make_profile(centre=ABSENT, angle=ABSENT, mode="instance", func=fingerprint):
    """
    mode:
      instance  - attributes set on the instance (or not set at all)
      cls       - attributes set on the class
      prop      - attributes are properties
      getattr   - attributes served by __getattr__ (AttributeError when absent)
      slots     - __slots__ declared but unset when absent (access raises AttributeError)
    """

    class Base:
        received = None
        received_type = None
        n_calls = 0

        @aa.grid_dec.project_grid
        def values_from(self, grid, *args, **kwargs):
            type(self).n_calls += 1
            self.received = np.array(grid)
            self.received_type = type(grid).__name__
            self.extra = (args, sorted(kwargs.items()))
            return func(grid)

    if mode == "instance":
        p = Base()
        if centre is not ABSENT:
            p.centre = centre
        if angle is not ABSENT:
            p.angle = angle
        return p

    if mode == "cls":
        ns = {}
        if centre is not ABSENT:
            ns["centre"] = centre
        if angle is not ABSENT:
            ns["angle"] = angle
        return type("ClsProfile", (Base,), ns)()

    if mode == "prop":
        ns = {}
        if centre is not ABSENT:
            ns["centre"] = property(lambda self: centre)
        if angle is not ABSENT:
            ns["angle"] = property(lambda self: angle)
        return type("PropProfile", (Base,), ns)()

    if mode == "getattr":

        def __getattr__(self, name):
            if name == "centre" and centre is not ABSENT:
                return centre
            if name == "angle" and angle is not ABSENT:
                return angle
            raise AttributeError(name)

        return type("GetattrProfile", (Base,), {"__getattr__": __getattr__})()

    if mode == "slots":

        class SlotHolder:
            __slots__ = ("centre", "angle")

        class SlotProfile(Base, SlotHolder):
            pass

        p = SlotProfile()
        if centre is not ABSENT:
            p.centre = centre
        if angle is not ABSENT:
            p.angle = angle
        return p

    raise ValueError(mode)


def describe(result):
    out = [type(result).__name__]
    try:
        out.append(np.array(result))
    except Exception as e:  # pragma: no cover
        out.append(type(e).__name__)
    for attr in ("pixel_scales", "pixel_scale", "shape_native", "origin"):
        try:
            out.append(repr(getattr(result, attr)))
        except Exception as e:
            out.append("no-" + attr + ":" + type(e).__name__)
    try:
        out.append(np.array(result.mask))
    except Exception as e:
        out.append("no-mask:" + type(e).__name__)
    return out


def run(label, profile, grid, *args, **kwargs):
    try:
        result = profile.values_from(grid, *args, **kwargs)
    except Exception as e:
        emit(label, "EXC", type(e).__name__, str(e)[:200], type(profile).n_calls)
        return
    emit(
        label,
        "OK",
        profile.received_type,
        profile.received,
        repr(profile.extra),
        type(profile).n_calls,
        *describe(result),
    )


# ----------------------------------------------------------------------------------------------------------------------
# Grids
# ----------------------------------------------------------------------------------------------------------------------


def grids():
    g = {}
    g["1d_a"] = aa.Grid1D.no_mask(values=[0.5, 1.0, 2.5, 4.0], pixel_scales=1.0)
    g["1d_single"] = aa.Grid1D.no_mask(values=[2.0], pixel_scales=0.25)
    g["1d_neg"] = aa.Grid1D.no_mask(values=[-3.0, -1.0, 0.0, 1.0, 3.0], pixel_scales=2.0)
    g["1d_uniform"] = aa.Grid1D.uniform(shape_native=(6,), pixel_scales=0.5, origin=(1.5,))
    g["1d_from_zero"] = aa.Grid1D.uniform_from_zero(shape_native=(5,), pixel_scales=0.3)
    mask_1d = aa.Mask1D(mask=[True, False, False, True, False], pixel_scales=1.0)
    g["1d_masked"] = aa.Grid1D.from_mask(mask=mask_1d)

    g["2d_4x8"] = aa.Grid2D.uniform(shape_native=(4, 8), pixel_scales=0.5)
    g["2d_7x3"] = aa.Grid2D.uniform(shape_native=(7, 3), pixel_scales=1.0)
    g["2d_origin"] = aa.Grid2D.uniform(shape_native=(5, 6), pixel_scales=0.4, origin=(0.7, -1.1))
    g["2d_aniso"] = aa.Grid2D.uniform(shape_native=(5, 4), pixel_scales=(0.5, 1.0))
    g["2d_1x1"] = aa.Grid2D.uniform(shape_native=(1, 1), pixel_scales=1.0)
    g["2d_sub"] = aa.Grid2D.uniform(shape_native=(3, 3), pixel_scales=2.0)

    mask = np.full((6, 5), True)
    mask[0, 0] = False
    mask[0, 4] = False
    mask[2:5, 1:4] = False
    mask[5, 2] = False
    g["2d_masked_edges"] = aa.Grid2D.from_mask(
        mask=aa.Mask2D(mask=mask, pixel_scales=(0.5, 0.25), origin=(0.2, 0.3))
    )
    mask_one = np.full((4, 4), True)
    mask_one[1, 2] = False
    g["2d_masked_single"] = aa.Grid2D.from_mask(mask=aa.Mask2D(mask=mask_one, pixel_scales=1.0))
    try:
        g["2d_circ"] = aa.Grid2D.from_mask(
            mask=aa.Mask2D.circular(shape_native=(9, 11), pixel_scales=0.3, radius=1.0, centre=(0.3, -0.3))
        )
    except Exception as e:  # pragma: no cover
        emit("grid 2d_circ unavailable", type(e).__name__)

    g["irr_3"] = aa.Grid2DIrregular(values=[(1.0, 2.0), (-0.5, 0.25), (3.0, -4.0)])
    g["irr_1"] = aa.Grid2DIrregular(values=[(0.0, 0.0)])
    try:
        g["irr_uniform"] = aa.Grid2DIrregularUniform(
            values=[(1.0, 1.0), (2.0, 2.0)], shape_native=(3, 3), pixel_scales=1.0
        )
    except Exception as e:  # pragma: no cover
        emit("grid irr_uniform unavailable", type(e).__name__)

    g["ndarray"] = np.array([[1.0, 2.0], [3.0, 4.0]])
    g["list"] = [[1.0, 2.0], [3.0, 4.0]]
    g["none"] = None
    return g


GRIDS = grids()

# ----------------------------------------------------------------------------------------------------------------------
# 1. Full cross product: centre x angle x mode x grid
# ----------------------------------------------------------------------------------------------------------------------

CENTRES = [
    ABSENT,
    None,
    (0.0, 0.0),
    (0.3, -0.2),
    (1.0, 2.0),
    [0.25, 0.5],
    np.array([-0.4, 0.1]),
    (0, 0),
]
ANGLES = [
    ABSENT,
    None,
    0.0,
    0,
    30.0,
    -65.0,
    90.0,
    -90.0,
    180.0,
    270.0,
    45,
    np.float64(12.5),
    np.float32(77.0),
    361.0,
    True,
    False,
]
MODES = ["instance", "cls", "prop", "getattr", "slots"]

for gname, grid in GRIDS.items():
    for ci, centre in enumerate(CENTRES):
        for ai, angle in enumerate(ANGLES):
            for mode in MODES:
                # keep the run time reasonable: all modes for the trigger combinations, instance mode otherwise
                trigger = (centre is ABSENT or centre is None) or (angle is ABSENT or angle is None)
                if mode != "instance" and not trigger and (ci + ai) % 5 != 0:
                    continue
                label = f"cross[{gname}][c{ci}][a{ai}][{mode}]"
                try:
                    profile = make_profile(centre=centre, angle=angle, mode=mode)
                except Exception as e:
                    emit(label, "MAKE-EXC", type(e).__name__)
                    continue
                run(label, profile, grid)

# ----------------------------------------------------------------------------------------------------------------------
# 2. The trigger from the notes, with a 2D-valued function and with extra args / kwargs
# ----------------------------------------------------------------------------------------------------------------------

for gname in ("1d_a", "2d_4x8", "2d_masked_edges", "irr_3"):
    for centre in (ABSENT, None):
        for angle in (30.0, -65.0, 0.0, None, ABSENT):
            p = make_profile(centre=centre, angle=angle, func=fingerprint_2d)
            run(f"trigger2d[{gname}][{centre!r}][{angle!r}]", p, GRIDS[gname])
            p = make_profile(centre=centre, angle=angle)
            run(f"triggerargs[{gname}][{centre!r}][{angle!r}]", p, GRIDS[gname], 1, "two", flag=True, z=None)

# ----------------------------------------------------------------------------------------------------------------------
# 3. Bad attribute values: exceptions must be the same (type and message), for every grid type (the centre and angle
#    are computed before the dispatch on the grid type).
# ----------------------------------------------------------------------------------------------------------------------

BAD = [
    dict(centre=ABSENT, angle="thirty"),
    dict(centre=None, angle="thirty"),
    dict(centre=(0.0, 0.0), angle="thirty"),
    dict(centre=ABSENT, angle=(1.0, 2.0)),
    dict(centre=None, angle=[1.0]),
    dict(centre="centre", angle=10.0),
    dict(centre=(1.0,), angle=10.0),
    dict(centre=(1.0, 2.0, 3.0), angle=None),
    dict(centre=5.0, angle=ABSENT),
    dict(centre=0.0, angle=20.0),
    dict(centre=(), angle=20.0),
    dict(centre=False, angle=20.0),
    dict(centre=ABSENT, angle=np.array([10.0, 20.0])),
    dict(centre=None, angle=np.nan),
    dict(centre=None, angle=np.inf),
    dict(centre=(np.nan, 0.0), angle=5.0),
    dict(centre=ABSENT, angle=object()),
    dict(centre=None, angle={}),
]

for bi, bad in enumerate(BAD):
    for gname, grid in GRIDS.items():
        for mode in ("instance", "prop"):
            p = make_profile(mode=mode, **bad)
            run(f"bad[{bi}][{gname}][{mode}]", p, grid)

# ----------------------------------------------------------------------------------------------------------------------
# 4. Properties which raise: AttributeError means "absent"; anything else propagates. Order of lookup (centre first,
#    then angle) decides which exception is seen when both raise.
# ----------------------------------------------------------------------------------------------------------------------


def raising_profile(centre_exc=None, angle_exc=None, centre=(0.1, 0.2), angle=25.0):
    class P:
        received = None
        received_type = None
        n_calls = 0
        log = []

        @property
        def centre(self):
            type(self).log.append("centre")
            if centre_exc is not None:
                raise centre_exc("centre boom")
            return centre

        @property
        def angle(self):
            type(self).log.append("angle")
            if angle_exc is not None:
                raise angle_exc("angle boom")
            return angle

        @aa.grid_dec.project_grid
        def values_from(self, grid, *args, **kwargs):
            type(self).n_calls += 1
            self.received = np.array(grid)
            self.received_type = type(grid).__name__
            self.extra = (args, sorted(kwargs.items()))
            return fingerprint(grid)

    P.log = []
    return P()


EXCS = [None, AttributeError, ValueError, KeyError, RuntimeError]

for ce in EXCS:
    for ae in EXCS:
        for centre in ((0.1, 0.2), None):
            for angle in (25.0, None):
                for gname in ("1d_a", "2d_4x8", "irr_3", "ndarray"):
                    p = raising_profile(centre_exc=ce, angle_exc=ae, centre=centre, angle=angle)
                    label = (
                        f"raise[{getattr(ce, '__name__', None)}][{getattr(ae, '__name__', None)}]"
                        f"[{centre!r}][{angle!r}][{gname}]"
                    )
                    run(label, p, GRIDS[gname])
                    # relative order of first lookups of the two attributes (not the number of lookups, which is an
                    # implementation detail of hasattr + getattr in the original)
                    log = type(p).log
                    first = []
                    for name in log:
                        if name not in first:
                            first.append(name)
                    emit(label, "order", first)

# ----------------------------------------------------------------------------------------------------------------------
# 5. Repeated calls / shared objects: the profile's centre must not be aliased / mutated, results independent
# ----------------------------------------------------------------------------------------------------------------------

centre_list = [0.25, 0.5]
centre_arr = np.array([-0.4, 0.1])
for centre in (centre_list, centre_arr, None, ABSENT):
    p = make_profile(centre=centre, angle=40.0)
    for rep in range(3):
        for gname in ("1d_a", "2d_origin", "2d_masked_edges", "irr_3"):
            run(f"repeat[{type(centre).__name__}][{rep}][{gname}]", p, GRIDS[gname])
        if centre is not ABSENT and centre is not None:
            emit("centre after", np.array(p.centre), p.centre is centre)
        p.angle = p.angle - 55.0
    # flip attributes between calls
    p.angle = None
    run("flip angle None", p, GRIDS["1d_a"])
    p.centre = None
    p.angle = 10.0
    run("flip centre None angle 10", p, GRIDS["1d_a"])
    run("flip centre None angle 10 2d", p, GRIDS["2d_4x8"])
    del p.centre
    run("flip centre deleted angle 10", p, GRIDS["2d_4x8"])
    del p.angle
    run("flip both deleted", p, GRIDS["2d_4x8"])

# same grid object used by several profiles
shared = GRIDS["2d_origin"]
before = np.array(shared).copy()
for angle in (10.0, 200.0, None):
    for centre in (ABSENT, None, (0.5, 0.5)):
        run(f"shared[{centre!r}][{angle!r}]", make_profile(centre=centre, angle=angle), shared)
emit("shared grid unchanged", bool(np.array_equal(before, np.array(shared))))

# ----------------------------------------------------------------------------------------------------------------------
# 6. Decorated function as a plain function (obj is not a profile): module / None / int as `obj`
# ----------------------------------------------------------------------------------------------------------------------


@aa.grid_dec.project_grid
def free_function(obj, grid, *args, **kwargs):
    free_function.received = np.array(grid)
    return fingerprint(grid)


class Bare:
    pass


for oi, obj in enumerate([None, 1, "abc", Bare(), Bare, np, (1.0, 2.0), {"centre": (1.0, 1.0), "angle": 3.0}]):
    for gname in ("1d_a", "2d_4x8", "irr_3", "ndarray"):
        label = f"free[{oi}][{gname}]"
        try:
            result = free_function(obj, GRIDS[gname])
        except Exception as e:
            emit(label, "EXC", type(e).__name__, str(e)[:200])
            continue
        emit(label, "OK", free_function.received, *describe(result))

emit("wrapper name", free_function.__name__, free_function.__doc__)

print("records", N_RECORDS, sorted(COUNTS.items()))
print("digest", H.hexdigest())
