"""
Differential test for the C06-8 twin: `over_sample_util.slim_index_for_sub_slim_index_via_mask_2d_from` and its
consumers (`OverSamplerUniform.slim_for_sub_slim`, `border_relocator.sub_slim_indexes_for_slim_index_via_mask_2d_from`,
`Mapper.mapping_matrix` / `unique_mappings`).

Prints a sha256 digest of every result (dtype, shape, bytes) or of the raised exception type. The digest must be
identical on the clean HEAD tree and on the tree with twin.patch applied.

Run: cd /tmp/wt10/C06-8 && PYTHONPATH=/tmp/wt10/C06-8 /venv/bin/python equiv.py
"""
import hashlib
import warnings

import numpy as np

warnings.filterwarnings("ignore")

import autoarray as aa
from autoarray.operators.over_sampling import over_sample_util
from autoarray.inversion.pixelization import border_relocator

H = hashlib.sha256()
N_CASES = 0
N_EXC = 0


def feed(tag, obj):
    H.update(repr(tag).encode())
    if isinstance(obj, np.ndarray):
        H.update(str(obj.dtype).encode())
        H.update(repr(obj.shape).encode())
        H.update(np.ascontiguousarray(obj).tobytes())
    else:
        H.update(repr(obj).encode())


def run(tag, func, *args, **kwargs):
    global N_CASES, N_EXC
    N_CASES += 1
    try:
        result = func(*args, **kwargs)
    except Exception as e:  # noqa
        N_EXC += 1
        feed(tag, "EXC:" + type(e).__name__)
        return None
    if isinstance(result, (list, tuple)):
        feed(tag, repr(result))
    else:
        feed(tag, np.asarray(result))
    return result


def util(mask_2d, sub_size):
    mask_before = mask_2d.copy()
    sub_before = sub_size.copy() if isinstance(sub_size, np.ndarray) else sub_size
    try:
        return over_sample_util.slim_index_for_sub_slim_index_via_mask_2d_from(
            mask_2d=mask_2d, sub_size=sub_size
        )
    finally:
        # inputs must not be modified in place (on either tree)
        assert (mask_2d == mask_before).all()
        if isinstance(sub_size, np.ndarray) and sub_size.dtype != object:
            assert np.array_equal(sub_size, sub_before)


rng = np.random.default_rng(6008)

# ---------------------------------------------------------------------------------------------------------------
# 1. The util itself: random masks (non-square, touching edges, fully masked, fully unmasked, single pixel) with
#    uniform and per-pixel sub-size maps of several dtypes.
# ---------------------------------------------------------------------------------------------------------------

shapes = [(1, 1), (1, 5), (5, 1), (2, 3), (3, 3), (4, 5), (6, 4), (7, 7), (3, 9)]

for shape in shapes:
    for frac in (0.0, 0.3, 0.7, 1.0):
        mask_2d = rng.uniform(size=shape) < frac
        n = int((~mask_2d).sum())
        for kind in ("uniform1", "uniform2", "uniform4", "rand14", "decreasing", "increasing", "zeros_mixed"):
            if kind.startswith("uniform"):
                sub = np.full(n, int(kind[-1]))
            elif kind == "rand14":
                sub = rng.integers(1, 5, size=n)
            elif kind == "decreasing":
                sub = np.sort(rng.integers(1, 5, size=n))[::-1].copy()
            elif kind == "increasing":
                sub = np.sort(rng.integers(1, 5, size=n))
            else:
                sub = rng.integers(0, 4, size=n)
            for dtype in ("int64", "int32", "uint8", "int8"):
                run(("util", shape, frac, kind, dtype), util, mask_2d, sub.astype(dtype))

# the triggers named in the seed notes
mask_13 = np.array(
    [
        [False, False, False, True, True],
        [True, False, False, False, True],
        [True, False, False, False, False],
        [True, True, False, False, False],
    ]
)
run("notes-13", util, mask_13, np.array([3, 3, 3, 3, 2, 2, 2, 2, 2, 1, 1, 1, 1]))
run("notes-12", util, np.array([[False, False]]), np.array([1, 2]))
run("notes-21", util, np.array([[False, False]]), np.array([2, 1]))
run("docstring", util, np.array([[True, False, True]]), np.array([2]))

# malformed / unusual inputs: exception type (or value) must match too
m22 = np.array([[False, False], [False, True]])
run("float-sub", util, m22, np.array([2.0, 1.0, 3.0]))
run("float-sub-empty-mask", util, np.array([[True, True]]), np.array([2.0]))
run("neg-sub", util, m22, np.array([2, -2, 1]))
run("neg-sub-first", util, m22, np.array([-1, 2, 1]))
run("neg-sub-last", util, m22, np.array([1, 2, -3]))
run("short-sub", util, m22, np.array([2, 1]))
run("long-sub", util, m22, np.array([2, 1, 3, 2, 2]))
run("empty-sub-unmasked", util, m22, np.array([], dtype=int))
run("empty-sub-masked", util, np.array([[True]]), np.array([], dtype=int))
run("scalar-int-sub", util, m22, 2)
run("scalar-np-sub", util, m22, np.int64(2))
run("list-sub", util, m22, [2, 1, 3])
run("object-sub", util, m22, np.array([2, 1, 3], dtype=object))
run("object-sub-float", util, m22, np.array([2, 1.0, 3], dtype=object))
run("bool-sub", util, m22, np.array([True, True, False]))
run("int8-overflow", util, m22, np.array([12, 1, 2], dtype="int8"))
run("int8-overflow-b", util, m22, np.array([1, 16, 2], dtype="int8"))
run("uint8-overflow", util, m22, np.array([17, 1, 2], dtype="uint8"))
run("2d-sub", util, m22, np.array([[2, 1], [3, 1]]))
run("int-mask", util, np.array([[0, 1], [0, 0]]), np.array([2, 1, 3]))
run("float-mask", util, np.array([[0.0, 1.0], [0.0, 0.0]]), np.array([2, 1, 3]))
run("1d-mask", util, np.array([False, False]), np.array([2, 1]))
run("3d-mask", util, np.zeros((2, 2, 2), dtype=bool), np.array([1, 1, 1, 1]))
run("empty-mask-0x3", util, np.zeros((0, 3), dtype=bool), np.array([], dtype=int))
run("empty-mask-3x0", util, np.zeros((3, 0), dtype=bool), np.array([2]))
run("large-sub", util, np.array([[False, True, False]]), np.array([9, 11]))

# ---------------------------------------------------------------------------------------------------------------
# 2. Consumers: OverSamplerUniform.slim_for_sub_slim, border relocator index lists, binned arrays.
# ---------------------------------------------------------------------------------------------------------------

for case, (shape, pixel_scales, origin) in enumerate(
    [
        ((4, 5), (1.0, 0.8), (0.3, -0.2)),
        ((5, 4), (0.5, 0.5), (0.0, 0.0)),
        ((7, 6), (2.0, 1.0), (-1.0, 3.0)),
        ((3, 3), (1.0, 1.0), (0.0, 0.0)),
        ((1, 6), (0.3, 0.9), (1.0, 1.0)),
    ]
):
    for rep in range(4):
        mask_2d = rng.uniform(size=shape) < 0.35
        if mask_2d.all():
            mask_2d[0, 0] = False
        mask = aa.Mask2D(mask=mask_2d, pixel_scales=pixel_scales, origin=origin)
        n = mask.pixels_in_mask

        for kind in ("int2", "int1", "rand", "decreasing"):
            if kind == "int2":
                sub_size = 2
                sub_np = np.full(n, 2)
            elif kind == "int1":
                sub_size = 1
                sub_np = np.full(n, 1)
            else:
                sub_np = rng.integers(1, 5, size=n)
                if kind == "decreasing":
                    sub_np = np.sort(sub_np)[::-1].copy()
                sub_size = aa.Array2D(values=sub_np, mask=mask)

            tag = ("os", case, rep, kind)
            over_sampler = aa.OverSamplerUniform(mask=mask, sub_size=sub_size)

            first = run(tag + ("slim_for_sub_slim",), lambda: over_sampler.slim_for_sub_slim)
            second = run(tag + ("slim_for_sub_slim-again",), lambda: over_sampler.slim_for_sub_slim)
            feed(tag + ("same-object",), first is second)
            run(tag + ("sub_size-after",), lambda: np.array(over_sampler.sub_size))

            run(
                tag + ("border-lists",),
                border_relocator.sub_slim_indexes_for_slim_index_via_mask_2d_from,
                mask_2d=np.array(mask),
                sub_size=sub_np,
            )
            run(
                tag + ("sub-border",),
                border_relocator.sub_border_pixel_slim_indexes_from,
                mask_2d=np.array(mask),
                sub_size=np.array(sub_np),
            )
            run(
                tag + ("BorderRelocator.sub_border_slim",),
                lambda: aa.BorderRelocator(mask=mask, sub_size=sub_size).sub_border_slim,
            )

            grid = run(tag + ("over_sampled_grid",), lambda: np.array(over_sampler.over_sampled_grid))
            if grid is not None:
                values = aa.ArrayIrregular(values=np.sin(grid[:, 0]) + grid[:, 1] ** 2)
                run(tag + ("binned",), lambda: np.array(over_sampler.binned_array_2d_from(array=values)))

# ---------------------------------------------------------------------------------------------------------------
# 3. Mappers: rectangular and Delaunay, uniform and adaptive sub sizes -> mapping_matrix, unique mappings.
# ---------------------------------------------------------------------------------------------------------------


def mapper_outputs(tag, mask, sub_size, mesh, mesh_points):
    over_sampler = aa.OverSamplerUniform(mask=mask, sub_size=sub_size)
    image_grid = np.array(over_sampler.over_sampled_grid)
    y = image_grid[:, 0]
    x = image_grid[:, 1]
    source = np.stack((0.7 * y + 0.08 * x * x, 0.9 * x - 0.06 * y * x), axis=1)

    def build():
        mapper_grids = mesh.mapper_grids_from(
            mask=mask,
            border_relocator=None,
            source_plane_data_grid=aa.Grid2DIrregular(values=source),
            source_plane_mesh_grid=(
                None if mesh_points is None else aa.Grid2DIrregular(values=mesh_points)
            ),
        )
        return aa.Mapper(mapper_grids=mapper_grids, over_sampler=over_sampler, regularization=None)

    global N_CASES, N_EXC
    N_CASES += 1
    try:
        mapper = build()
    except Exception as e:  # noqa
        N_EXC += 1
        feed(tag + ("build",), "EXC:" + type(e).__name__)
        return

    run(tag + ("slim_index_for_sub_slim_index",), lambda: mapper.slim_index_for_sub_slim_index)
    run(tag + ("mapping_matrix",), lambda: np.array(mapper.mapping_matrix))
    run(tag + ("mapping_matrix-again",), lambda: np.array(mapper.mapping_matrix))
    run(tag + ("unique.data_to_pix_unique",), lambda: np.array(mapper.unique_mappings.data_to_pix_unique))
    run(tag + ("unique.data_weights",), lambda: np.array(mapper.unique_mappings.data_weights))
    run(tag + ("unique.pix_lengths",), lambda: np.array(mapper.unique_mappings.pix_lengths))
    run(
        tag + ("sub_slim_indexes_for_pix_index",),
        lambda: repr([list(map(int, v)) for v in mapper.sub_slim_indexes_for_pix_index]),
    )
    run(
        tag + ("mapped_to_source",),
        lambda: np.array(
            mapper.mapped_to_source_from(
                array=aa.Array2D(values=np.arange(1.0, mask.pixels_in_mask + 1.0), mask=mask)
            )
        ),
    )


mask_a = aa.Mask2D(mask=mask_13, pixel_scales=(1.0, 0.8), origin=(0.3, -0.2))
mask_b = aa.Mask2D(
    mask=np.array(
        [
            [True, True, True, True, True, True],
            [True, False, False, False, False, True],
            [True, False, True, False, False, True],
            [True, False, False, False, True, True],
            [True, True, True, True, True, True],
        ]
    ),
    pixel_scales=(0.5, 0.5),
)
mask_c = aa.Mask2D(mask=np.array([[False, True], [True, True]]), pixel_scales=2.0, origin=(1.0, 1.0))

for mname, mask in (("a", mask_a), ("b", mask_b), ("c", mask_c)):
    n = mask.pixels_in_mask
    sub_maps = {
        "int1": 1,
        "int3": 3,
        "decreasing": aa.Array2D(values=np.sort(rng.integers(1, 5, size=n))[::-1].copy(), mask=mask),
        "increasing": aa.Array2D(values=np.sort(rng.integers(1, 5, size=n)), mask=mask),
        "rand": aa.Array2D(values=rng.integers(1, 5, size=n), mask=mask),
    }
    if mname == "a":
        sub_maps["notes"] = aa.Array2D(values=np.array([3, 3, 3, 3, 2, 2, 2, 2, 2, 1, 1, 1, 1]), mask=mask)

    mesh_points = rng.uniform(low=(-1.2, -1.4), high=(1.3, 1.5), size=(11, 2))

    for sname, sub_size in sub_maps.items():
        mapper_outputs(("map", mname, sname, "rect"), mask, sub_size, aa.mesh.Rectangular(shape=(3, 4)), None)
        mapper_outputs(("map", mname, sname, "delaunay"), mask, sub_size, aa.mesh.Delaunay(), mesh_points)

print("cases", N_CASES, "exceptions", N_EXC)
print("digest", H.hexdigest())
