"""
Differential test for the C01-8 twin (`convert_grid_2d` in autoarray/structures/grids/grid_2d_util.py).

Prints a sha256 digest over every result (type, dtype, shape, bytes, raised exception types, aliasing / in-place
observations). Run on the clean tree and on the twin tree: the two digests must be identical.
"""
import hashlib
import warnings

import numpy as np

warnings.filterwarnings("ignore")

import autoarray as aa
from autoarray.structures.grids import grid_2d_util

H = hashlib.sha256()
N_RECORDS = 0


def rec(*items):
    global N_RECORDS
    for item in items:
        H.update(describe(item).encode())
        H.update(b"|")
    H.update(b"\n")
    N_RECORDS += 1


def describe(obj):
    if isinstance(obj, (str, bool, int, float, type(None))):
        return repr(obj)
    if isinstance(obj, (tuple, list)):
        return "[" + ",".join(describe(o) for o in obj) + "]"
    if isinstance(obj, BaseException):
        return "EXC:" + type(obj).__name__
    if isinstance(obj, np.ndarray):
        a = np.ascontiguousarray(obj)
        return f"nd:{a.dtype}:{a.shape}:{hashlib.sha256(a.tobytes()).hexdigest()}"
    if hasattr(obj, "_array"):
        extra = ""
        if hasattr(obj, "mask") and not isinstance(obj, aa.Mask2D):
            try:
                m = obj.mask
                extra = ":mask=" + describe(np.asarray(m)) + repr(tuple(m.pixel_scales)) + repr(tuple(m.origin))
            except Exception as e:  # noqa
                extra = ":maskexc=" + type(e).__name__
        return f"wrap:{type(obj).__name__}:{describe(np.asarray(obj._array))}{extra}"
    return "obj:" + type(obj).__name__ + ":" + repr(obj)


def attempt(label, func):
    try:
        out = func()
    except BaseException as e:  # noqa
        rec(label, e)
        return None
    rec(label, out)
    return out


def make_mask(rng, shape, kind, pixel_scales, origin):
    h, w = shape
    if kind == "all_false":
        m = np.zeros(shape, dtype=bool)
    elif kind == "all_true":
        m = np.ones(shape, dtype=bool)
    elif kind == "edges_unmasked":
        m = np.ones(shape, dtype=bool)
        m[0, :] = False
        m[-1, :] = False
        m[:, 0] = False
        m[:, -1] = False
    elif kind == "edges_masked":
        m = np.zeros(shape, dtype=bool)
        m[0, :] = True
        m[-1, :] = True
        m[:, 0] = True
        m[:, -1] = True
    elif kind == "single_unmasked":
        m = np.ones(shape, dtype=bool)
        m[rng.integers(h), rng.integers(w)] = False
    elif kind == "single_masked":
        m = np.zeros(shape, dtype=bool)
        m[rng.integers(h), rng.integers(w)] = True
    else:
        m = rng.random(shape) < 0.4
    return aa.Mask2D(mask=m, pixel_scales=pixel_scales, origin=origin)


SHAPES = [(1, 1), (1, 5), (5, 1), (2, 2), (3, 4), (4, 3), (2, 7), (6, 6), (7, 5)]
KINDS = ["all_false", "all_true", "edges_unmasked", "edges_masked", "single_unmasked", "single_masked", "random", "random"]
SCALES = [(1.0, 1.0), (2.0, 1.0), (0.5, 3.0)]
ORIGINS = [(0.0, 0.0), (0.5, -1.0), (-3.0, 2.5)]


def native_values(rng, shape, dtype):
    h, w = shape
    v = np.zeros((h, w, 2))
    v[:, :, 0] = np.arange(h * w, dtype=float).reshape(shape) + 1.0
    v[:, :, 1] = -(np.arange(h * w, dtype=float).reshape(shape) + 1.0) * 10.0
    v += rng.integers(0, 3, size=v.shape)
    if dtype == "special":
        v = v.astype(float)
        v[0, 0, 0] = np.nan
        v[-1, -1, 1] = np.inf
        v[0, -1, 1] = -0.0
        return v
    return v.astype(dtype)


def direct_util_cases(rng, label, values_native, mask, mask_all_false):
    """Call convert_grid_2d directly with every kind of input container, both storage modes."""
    m = np.asarray(mask)
    values_slim = values_native[~m]

    wrappers = {}
    try:
        g_unmasked = aa.Grid2D(values=values_native.astype(float), mask=mask_all_false)
        wrappers["Grid2D.native(unmasked)"] = g_unmasked.native
        wrappers["Grid2D.slim(unmasked)"] = g_unmasked.slim
        g_same = aa.Grid2D(values=values_native.astype(float), mask=mask)
        wrappers["Grid2D.native(same mask)"] = g_same.native
        wrappers["Grid2D.slim(same mask)"] = g_same.slim
        wrappers["Grid2D(store_native, unmasked)"] = aa.Grid2D(
            values=values_native.astype(float), mask=mask_all_false, store_native=True
        )
        v_unmasked = aa.VectorYX2D(
            values=values_native.astype(float),
            grid=aa.Grid2D.from_mask(mask=mask_all_false),
            mask=mask_all_false,
        )
        wrappers["VectorYX2D.native(unmasked)"] = v_unmasked.native
    except BaseException as e:  # noqa
        rec(label, "wrapper construction", e)

    inputs = {
        "ndarray native": values_native,
        "list native": values_native.tolist(),
        "ndarray slim": values_slim,
        "list slim": values_slim.tolist(),
        "ndarray native F-order": np.asfortranarray(values_native),
        "ndarray native non-contiguous view": np.concatenate([values_native, values_native], axis=2)[:, :, ::2][:, :, :2]
        if values_native.shape[2] == 2
        else values_native,
        "ndarray wrong shape native": np.zeros((values_native.shape[0] + 1, values_native.shape[1], 2)),
        "ndarray wrong shape slim": np.zeros((values_slim.shape[0] + 1, 2)),
        "ndarray 3 components": np.ones(values_native.shape[:2] + (3,)),
        "ndarray 1 component": np.ones(values_native.shape[:2] + (1,)),
        "ndarray 1d": np.ones(4),
        "ndarray 4d": np.ones(values_native.shape[:2] + (2, 1)),
    }
    inputs.update(wrappers)

    for name, inp in inputs.items():
        for store_native in (False, True):
            if isinstance(inp, np.ndarray):
                before = inp.copy()
            elif hasattr(inp, "_array"):
                before = np.array(inp._array, copy=True)
            else:
                before = repr(inp)
            mask_before = np.array(np.asarray(mask), copy=True)

            out = attempt(
                (label, name, store_native),
                lambda: grid_2d_util.convert_grid_2d(grid_2d=inp, mask_2d=mask, store_native=store_native),
            )

            # In-place effects on the caller's objects / aliasing.
            if isinstance(inp, np.ndarray):
                after = inp
                rec("input unchanged", bool(np.array_equal(before, after, equal_nan=True)))
                if out is not None:
                    rec("out is inp", out is inp, "shares memory", bool(np.shares_memory(np.asarray(out), inp)))
            elif hasattr(inp, "_array"):
                rec("input unchanged", bool(np.array_equal(before, np.asarray(inp._array), equal_nan=True)))
                if out is not None:
                    out_arr = out._array if hasattr(out, "_array") else out
                    rec(
                        "out is inp",
                        out is inp,
                        "shares memory",
                        bool(np.shares_memory(np.asarray(out_arr), np.asarray(inp._array))),
                    )
            else:
                rec("input unchanged", before == repr(inp))
            rec("mask unchanged", bool(np.array_equal(mask_before, np.asarray(mask))))

            # Repeated call on the same (shared) input gives the same thing and an independent result.
            out2 = attempt(
                (label, name, store_native, "repeat"),
                lambda: grid_2d_util.convert_grid_2d(grid_2d=inp, mask_2d=mask, store_native=store_native),
            )
            if out is not None and out2 is not None:
                a1 = out._array if hasattr(out, "_array") else out
                a2 = out2._array if hasattr(out2, "_array") else out2
                rec("repeat independent", out is out2, bool(np.shares_memory(np.asarray(a1), np.asarray(a2))))


def structure_cases(label, values_native, mask, mask_all_false):
    """Go through the public constructors (Grid2D / VectorYX2D / Grid2D.no_mask) and the slim / native round trips."""
    m = np.asarray(mask)
    vf = values_native.astype(float)

    def summarise(s):
        return (
            s,
            s.native,
            s.slim,
            s.native.slim.native,
            s.slim.native.slim,
        )

    grid_unmasked = attempt((label, "grid_unmasked"), lambda: aa.Grid2D(values=vf, mask=mask_all_false))
    vec_unmasked = attempt(
        (label, "vec_unmasked"),
        lambda: aa.VectorYX2D(values=vf, grid=aa.Grid2D.from_mask(mask=mask_all_false), mask=mask_all_false),
    )

    sources = {
        "ndarray native": lambda: vf,
        "list native": lambda: vf.tolist(),
        "ndarray slim": lambda: vf[~m],
        "Grid2D native": lambda: grid_unmasked.native,
        "Grid2D slim-of-unmasked": lambda: grid_unmasked.slim,
        "Grid2D native-stored": lambda: aa.Grid2D(values=vf, mask=mask_all_false, store_native=True),
        "VectorYX2D native": lambda: vec_unmasked.native,
    }

    for name, make in sources.items():
        for store_native in (False, True):
            attempt(
                (label, "Grid2D", name, store_native),
                lambda: summarise(aa.Grid2D(values=make(), mask=mask, store_native=store_native)),
            )
            attempt(
                (label, "VectorYX2D", name, store_native),
                lambda: summarise(
                    aa.VectorYX2D(
                        values=make(),
                        grid=aa.Grid2D.from_mask(mask=mask),
                        mask=mask,
                        store_native=store_native,
                    )
                ),
            )
            # the `grid` argument of VectorYX2D also goes through convert_grid_2d
            attempt(
                (label, "VectorYX2D grid arg", name, store_native),
                lambda: (
                    lambda v: (v, v.grid, v.native, v.slim)
                )(
                    aa.VectorYX2D(
                        values=vf,
                        grid=make(),
                        mask=mask,
                        store_native=store_native,
                    )
                ),
            )

    # the source structure must not have been modified by being used as construction values
    if grid_unmasked is not None:
        rec((label, "grid_unmasked after"), grid_unmasked, grid_unmasked.native)
    if vec_unmasked is not None:
        rec((label, "vec_unmasked after"), vec_unmasked, vec_unmasked.native)

    attempt(
        (label, "Grid2D.no_mask"),
        lambda: summarise(
            aa.Grid2D.no_mask(values=vf, pixel_scales=mask.pixel_scales, origin=mask.origin)
        ),
    )
    attempt(
        (label, "Grid2D.from_mask"),
        lambda: summarise(aa.Grid2D.from_mask(mask=mask)),
    )
    attempt(
        (label, "Grid2D.uniform"),
        lambda: summarise(
            aa.Grid2D.uniform(shape_native=mask.shape_native, pixel_scales=mask.pixel_scales, origin=mask.origin)
        ),
    )


def main():
    rng = np.random.default_rng(20261003)
    case = 0
    for shape in SHAPES:
        for kind in KINDS:
            pixel_scales = SCALES[case % len(SCALES)]
            origin = ORIGINS[(case // 2) % len(ORIGINS)]
            mask = make_mask(rng, shape, kind, pixel_scales, origin)
            mask_all_false = aa.Mask2D.all_false(shape_native=shape, pixel_scales=pixel_scales, origin=origin)
            for dtype in (float, "special", np.float32, np.int64, bool, complex):
                if dtype not in (float, "special") and case % 3 != 0:
                    continue
                label = (shape, kind, str(dtype), pixel_scales, origin)
                values_native = native_values(rng, shape, dtype)
                direct_util_cases(rng, label, values_native, mask, mask_all_false)
                if dtype in (float, "special"):
                    structure_cases(label, values_native, mask, mask_all_false)
            case += 1

    # The exact trigger of the notes / demo.
    shape = (3, 4)
    values = np.zeros(shape + (2,))
    values[:, :, 0] = np.arange(12.0).reshape(shape) + 1.0
    values[:, :, 1] = -(np.arange(12.0).reshape(shape) + 1.0) * 10.0
    mask_2d = np.array(
        [[False, True, False, False], [True, False, False, True], [False, False, True, False]]
    )
    mask = aa.Mask2D(mask=mask_2d, pixel_scales=(2.0, 1.0), origin=(0.5, -1.0))
    mask_all_false = aa.Mask2D.all_false(shape_native=shape, pixel_scales=(2.0, 1.0), origin=(0.5, -1.0))
    direct_util_cases(rng, "trigger", values, mask, mask_all_false)
    structure_cases("trigger", values, mask, mask_all_false)

    # Non-Mask2D mask arguments given directly to the util (exceptions must match too).
    for bad_mask in (mask_2d, mask_2d.tolist(), None):
        for v in (values, values[~mask_2d]):
            attempt(
                ("bad mask", type(bad_mask).__name__, v.shape),
                lambda: grid_2d_util.convert_grid_2d(grid_2d=v, mask_2d=bad_mask, store_native=True),
            )

    print("records", N_RECORDS)
    print("digest", H.hexdigest())


if __name__ == "__main__":
    main()
