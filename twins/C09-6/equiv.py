"""
Differential test for the C09-6 twin (OverSamplerIterate threshold mask hoisted into a cached property).

Prints a sha256 digest over all results (values, geometry of returned masks, exception types). The digest must be
identical on the clean HEAD tree and on the tree with twin.patch applied.

Run:  cd /tmp/wt8/C09-6 && PYTHONPATH=/tmp/wt8/C09-6 /venv/bin/python -W ignore equiv.py
"""
import hashlib
import itertools
import warnings

import numpy as np

warnings.filterwarnings("ignore")

import autoarray as aa

H = hashlib.sha256()
N_RECORDS = 0


def record(tag, value):
    global N_RECORDS
    N_RECORDS += 1
    H.update(repr(tag).encode())
    if isinstance(value, np.ndarray):
        arr = np.ascontiguousarray(np.array(value))
        H.update(str(arr.dtype).encode())
        H.update(repr(arr.shape).encode())
        H.update(arr.tobytes())
    else:
        H.update(repr(value).encode())


def record_structure(tag, obj):
    """Record values + type + geometry of an autoarray structure / mask."""
    record((tag, "type"), type(obj).__name__)
    record((tag, "values"), np.array(obj))
    for name in ("pixel_scales", "origin", "shape_native"):
        try:
            record((tag, name), tuple(getattr(obj, name)))
        except Exception as e:  # noqa
            record((tag, name), "EXC " + type(e).__name__)
    m = getattr(obj, "mask", None)
    if m is not None and m is not obj:
        record((tag, "mask"), np.array(m))
        if hasattr(m, "pixel_scales"):
            record((tag, "mask.pixel_scales"), tuple(m.pixel_scales))
            record((tag, "mask.origin"), tuple(m.origin))


def attempt(tag, fn):
    try:
        out = fn()
    except BaseException as e:  # noqa
        record((tag, "raised"), type(e).__name__)
        return None
    if isinstance(out, np.ndarray) and hasattr(out, "mask"):
        record_structure(tag, out)
    elif hasattr(out, "pixel_scales"):
        record_structure(tag, out)
    else:
        record(tag, out)
    return out


# ------------------------------------------------------------------------------------------------ functions


class Bump:
    def __init__(self, centre, width, amp=1.0, offset=0.0):
        self.centre = centre
        self.width = width
        self.amp = amp
        self.offset = offset

    def raw(self, grid, *args, **kwargs):
        grid = np.array(grid)
        r2 = (grid[:, 0] - self.centre[0]) ** 2 + (grid[:, 1] - self.centre[1]) ** 2
        return self.amp * np.exp(-r2 / self.width) + self.offset

    @aa.over_sample
    def image_from(self, grid, *args, **kwargs):
        return self.raw(grid)


def f_bump(obj, grid, *args, **kwargs):
    return obj.raw(grid)


def f_zeros(obj, grid, *args, **kwargs):
    return np.zeros(np.array(grid).shape[0])


def f_sign(obj, grid, *args, **kwargs):
    # negative / zero / positive values: exercises the `array_lower > 0` branch
    grid = np.array(grid)
    return np.sin(3.0 * grid[:, 0] + obj.centre[0]) * np.cos(2.0 * grid[:, 1] + obj.centre[1])


def f_step(obj, grid, *args, **kwargs):
    # exactly zero over part of the plane, sub-size dependent near the edge: lower > 0, higher == 0 possible
    grid = np.array(grid)
    return np.where(grid[:, 0] + 0.37 * grid[:, 1] > obj.centre[0], 1.0, 0.0)


def f_radial(obj, grid, *args, **kwargs):
    grid = np.array(grid)
    r = np.sqrt((grid[:, 0] - obj.centre[0]) ** 2 + (grid[:, 1] - obj.centre[1]) ** 2)
    return 1.0 / (r + 0.05)


FUNCS = [("bump", f_bump), ("zeros", f_zeros), ("sign", f_sign), ("step", f_step), ("radial", f_radial)]

# ------------------------------------------------------------------------------------------------ masks

rng = np.random.RandomState(12345)


def masks():
    out = []
    # the mask of the demo (touches all edges, non-square, anisotropic, non-zero origin)
    out.append(
        (
            "demo",
            np.array(
                [
                    [False, False, False, False, True],
                    [False, False, False, False, False],
                    [True, False, False, False, False],
                    [False, False, False, True, False],
                ]
            ),
            (1.0, 0.8),
            (0.1, -0.2),
        )
    )
    out.append(("full3x3", np.full((3, 3), False), (1.0, 1.0), (0.0, 0.0)))
    out.append(("full2x5", np.full((2, 5), False), (0.5, 2.0), (0.3, -0.2)))
    out.append(("single1x1", np.full((1, 1), False), (1.0, 1.0), (0.0, 0.0)))
    out.append(("row1x4", np.array([[False, True, False, False]]), (0.7, 0.3), (-1.0, 2.0)))
    out.append(("col4x1", np.array([[False], [True], [False], [False]]), (0.7, 0.3), (1.0, -2.0)))
    m = np.full((5, 5), True)
    m[2, 2] = False
    out.append(("one_unmasked", m, (0.4, 0.4), (0.0, 0.0)))
    m = np.full((4, 6), True)
    m[1:3, 1:5] = False
    out.append(("interior4x6", m, (1.0, 0.5), (0.2, 0.1)))
    out.append(("all_masked", np.full((3, 3), True), (1.0, 1.0), (0.0, 0.0)))
    for i in range(4):
        shape = (rng.randint(2, 7), rng.randint(2, 7))
        m = rng.rand(*shape) < 0.35
        if m.all():
            m[0, 0] = False
        ps = (float(rng.choice([0.25, 0.5, 1.0, 1.5])), float(rng.choice([0.25, 0.5, 1.0, 1.5])))
        og = (float(rng.choice([0.0, 0.3, -0.7])), float(rng.choice([0.0, -0.2, 0.9])))
        out.append(("rand%d" % i, m, ps, og))
    return out


SCHEDULES = [
    [2],
    [2, 3],
    [2, 4],
    [2, 4, 8],
    [2, 4, 8, 16],
    [1, 2, 3, 5],
    [3, 2, 6],
]

ACCURACIES = [
    dict(fractional_accuracy=0.99),
    dict(fractional_accuracy=0.9),
    dict(fractional_accuracy=0.5),
    dict(fractional_accuracy=1.0e-8),
    dict(fractional_accuracy=1.0),
    dict(fractional_accuracy=None, relative_accuracy=0.01),
    dict(fractional_accuracy=0.95, relative_accuracy=0.02),
    dict(fractional_accuracy=None, relative_accuracy=None),
]

PROFILES = [
    Bump(centre=(0.35, -0.1), width=1.5),
    Bump(centre=(1.2, -1.0), width=1.5),
    Bump(centre=(-1.0, 1.0), width=0.4, amp=3.0),
    Bump(centre=(0.0, 0.0), width=0.15, amp=1.0, offset=-0.2),
]

# ------------------------------------------------------------------------------------------------ 1) single calls

for (mname, m, ps, og), steps, acc in itertools.product(masks(), SCHEDULES, ACCURACIES):
    mask = aa.Mask2D(mask=m, pixel_scales=ps, origin=og)
    for (fname, func), prof in itertools.product(FUNCS, PROFILES[:2]):
        tag = ("single", mname, tuple(steps), tuple(sorted(acc.items(), key=str)), fname, prof.centre)

        def run():
            sampler = aa.OverSamplerIterate(mask=mask, sub_steps=steps, **acc)
            return sampler.array_via_func_from(func=func, obj=prof)

        attempt(tag, run)

# ------------------------------------------------------------------------------------------------ 2) call history

for (mname, m, ps, og), steps, acc in itertools.product(
    masks(), [[2, 4], [2, 4, 8, 16], [2, 3]], ACCURACIES[:3] + ACCURACIES[5:7]
):
    mask = aa.Mask2D(mask=m, pixel_scales=ps, origin=og)
    try:
        sampler = aa.OverSamplerIterate(mask=mask, sub_steps=steps, **acc)
    except BaseException as e:  # noqa
        record(("history-init", mname), type(e).__name__)
        continue
    seq = [
        (f_bump, PROFILES[1]),
        (f_bump, PROFILES[2]),
        (f_sign, PROFILES[0]),
        (f_bump, PROFILES[2]),
        (f_zeros, PROFILES[0]),
        (f_radial, PROFILES[3]),
        (f_step, PROFILES[0]),
        (f_bump, PROFILES[1]),
        (f_bump, PROFILES[0]),
    ]
    results = []
    for i, (func, prof) in enumerate(seq):
        tag = ("history", mname, tuple(steps), tuple(sorted(acc.items(), key=str)), i)
        out = attempt(tag, lambda: sampler.array_via_func_from(func=func, obj=prof))
        results.append(out)
    # earlier results must not have been altered by later calls (aliasing)
    for i, out in enumerate(results):
        if out is not None:
            record(("history-after", mname, tuple(steps), i), np.array(out))

# ------------------------------------------------------------------------------------------------ 3) decorator / shared Grid2D

for (mname, m, ps, og), steps, accuracy in itertools.product(
    masks(), [[2, 4], [2, 4, 8, 16]], [0.9, 0.99, 0.9999]
):
    tag0 = ("decorator", mname, tuple(steps), accuracy)

    def build():
        mask = aa.Mask2D(mask=m, pixel_scales=ps, origin=og)
        return aa.Grid2D.from_mask(
            mask=mask,
            over_sampling=aa.OverSamplingIterate(fractional_accuracy=accuracy, sub_steps=steps),
        )

    try:
        grid = build()
    except BaseException as e:  # noqa
        record((tag0, "build raised"), type(e).__name__)
        continue
    for i, prof in enumerate([PROFILES[1], PROFILES[2], PROFILES[0], PROFILES[2], PROFILES[3], PROFILES[1]]):
        attempt((tag0, i), lambda: prof.image_from(grid))
    # default sub_steps (None -> [2,4,8,16]) through OverSamplingIterate
    try:
        grid = aa.Grid2D.from_mask(
            mask=aa.Mask2D(mask=m, pixel_scales=ps, origin=og),
            over_sampling=aa.OverSamplingIterate(fractional_accuracy=accuracy),
        )
        attempt((tag0, "default-a"), lambda: PROFILES[3].image_from(grid))
        attempt((tag0, "default-b"), lambda: PROFILES[0].image_from(grid))
    except BaseException as e:  # noqa
        record((tag0, "default raised"), type(e).__name__)

# OverSamplerIterate built directly with sub_steps=None (no default there)
mask = aa.Mask2D(mask=np.full((3, 3), False), pixel_scales=1.0)
attempt(
    "sampler sub_steps None",
    lambda: aa.OverSamplerIterate(mask=mask).array_via_func_from(func=f_bump, obj=PROFILES[0]),
)

# ------------------------------------------------------------------------------------------------ 4) threshold_mask_from directly


def arr2d(values, mask_bool, ps, og):
    mask = aa.Mask2D(mask=mask_bool, pixel_scales=ps, origin=og)
    return aa.Array2D(values=values, mask=mask)


rng2 = np.random.RandomState(777)

for (mname, m, ps, og) in masks():
    if m.all():
        continue
    mask = aa.Mask2D(mask=m, pixel_scales=ps, origin=og)
    for acc_i, acc in enumerate(ACCURACIES):
        sampler = aa.OverSamplerIterate(mask=mask, sub_steps=[2, 4], **acc)
        handed_out = []
        for rep in range(4):
            lower_vals = rng2.uniform(-0.5, 2.0, size=m.shape)
            higher_vals = lower_vals * rng2.uniform(0.8, 1.2, size=m.shape)
            if rep == 2:
                higher_vals = lower_vals.copy()  # everything converged after non-converged calls
            # the higher array may have a different (more masked) mask and different geometry
            m_high = m | (rng2.rand(*m.shape) < 0.3)
            if m_high.all():
                m_high = m
            lower = arr2d(lower_vals, m, (ps[0] * 2.0, ps[1]), (og[0] + 1.0, og[1])).native
            higher = arr2d(higher_vals, m_high, ps, og).native
            tag = ("thr", mname, acc_i, rep)
            out = attempt(tag, lambda: sampler.threshold_mask_from(lower, higher))
            if out is not None:
                handed_out.append(out)
                record((tag, "is_all_true"), bool(out.is_all_true))
        # mutate the handed out masks in place, then call again: must start from all True again
        for out in handed_out:
            try:
                out[:, :] = False
            except BaseException as e:  # noqa
                record(("thr-mutate", mname, acc_i), type(e).__name__)
        lower = arr2d(np.ones(m.shape), m, ps, og).native
        attempt(("thr-after-mutation", mname, acc_i), lambda: sampler.threshold_mask_from(lower, lower))
        # slim (1D) inputs, plain ndarrays
        attempt(("thr-slim", mname, acc_i), lambda: sampler.threshold_mask_from(lower.slim, lower.slim))
        attempt(("thr-slim-native", mname, acc_i), lambda: sampler.threshold_mask_from(lower.slim, lower))
        attempt(("thr-native-slim", mname, acc_i), lambda: sampler.threshold_mask_from(lower, lower.slim))
        attempt(
            ("thr-ndarray", mname, acc_i),
            lambda: sampler.threshold_mask_from(np.array(lower), np.array(lower)),
        )
        attempt(
            ("thr-ndarray-high", mname, acc_i),
            lambda: sampler.threshold_mask_from(lower, np.array(lower)),
        )
        attempt(
            ("thr-ndarray-low", mname, acc_i),
            lambda: sampler.threshold_mask_from(np.array(lower), lower),
        )
        attempt(("thr-after-errors", mname, acc_i), lambda: sampler.threshold_mask_from(lower, lower))

        # arrays whose shape differs from the shape of the sampler's own mask (bigger, smaller, transposed)
        for sname, shape in [
            ("bigger", (m.shape[0] + 2, m.shape[1] + 1)),
            ("smaller", (max(m.shape[0] - 1, 1), max(m.shape[1] - 1, 1))),
            ("transposed", (m.shape[1], m.shape[0])),
        ]:
            mo = rng2.rand(*shape) < 0.3
            if mo.all():
                mo[0, 0] = False
            lv = rng2.uniform(0.1, 2.0, size=shape)
            hv = lv * rng2.uniform(0.7, 1.3, size=shape)
            lo = arr2d(lv, mo, (0.3, 0.6), (0.5, 0.5)).native
            hi = arr2d(hv, mo, (0.3, 0.6), (0.5, 0.5)).native
            attempt(("thr-shape", sname, mname, acc_i), lambda: sampler.threshold_mask_from(lo, hi))
            attempt(("thr-shape-mixed-a", sname, mname, acc_i), lambda: sampler.threshold_mask_from(lo, lower))
            attempt(("thr-shape-mixed-b", sname, mname, acc_i), lambda: sampler.threshold_mask_from(lower, hi))
        attempt(("thr-after-shapes", mname, acc_i), lambda: sampler.threshold_mask_from(lower, lower))

# ------------------------------------------------------------------------------------------------ 5) `mask` attribute re-assigned

all_masks = [x for x in masks() if not x[1].all()]
for (a, b) in [(0, 1), (1, 2), (2, 0), (7, 3), (3, 7), (4, 5)]:
    (n1, m1, ps1, og1), (n2, m2, ps2, og2) = all_masks[a], all_masks[b]
    sampler = aa.OverSamplerIterate(
        mask=aa.Mask2D(mask=m1, pixel_scales=ps1, origin=og1), sub_steps=[2, 4, 8], fractional_accuracy=0.99
    )
    attempt(("reassign", n1, n2, 0), lambda: sampler.array_via_func_from(func=f_bump, obj=PROFILES[1]))
    sampler.mask = aa.Mask2D(mask=m2, pixel_scales=ps2, origin=og2)
    attempt(("reassign", n1, n2, 1), lambda: sampler.array_via_func_from(func=f_bump, obj=PROFILES[2]))
    attempt(("reassign", n1, n2, 2), lambda: sampler.array_via_func_from(func=f_sign, obj=PROFILES[0]))
    sampler.mask = aa.Mask2D(mask=m1, pixel_scales=ps1, origin=og1)
    sampler.sub_steps = [2, 4]
    sampler.fractional_accuracy = 0.9
    attempt(("reassign", n1, n2, 3), lambda: sampler.array_via_func_from(func=f_bump, obj=PROFILES[0]))

# ------------------------------------------------------------------------------------------------ 6) the demo scenarios verbatim

mask = aa.Mask2D(mask=masks()[0][1], pixel_scales=(1.0, 0.8), origin=(0.1, -0.2))
sampler = aa.OverSamplerIterate(mask=mask, fractional_accuracy=0.99, sub_steps=[2, 4, 8, 16])
attempt("demoA", lambda: sampler.array_via_func_from(func=f_bump, obj=Bump(centre=(0.35, -0.1), width=1.5)))
attempt("demoA-again", lambda: sampler.array_via_func_from(func=f_bump, obj=Bump(centre=(0.35, -0.1), width=1.5)))
grid = aa.Grid2D.from_mask(
    mask=mask, over_sampling=aa.OverSamplingIterate(fractional_accuracy=0.9, sub_steps=[2, 4])
)
attempt("demoB-first", lambda: Bump(centre=(1.2, -1.0), width=1.5).image_from(grid))
attempt("demoB-second", lambda: Bump(centre=(-1.0, 1.0), width=1.5).image_from(grid))

print("records", N_RECORDS)
print("digest", H.hexdigest())
