import hashlib, itertools, numpy as np
import autoarray as aa
from autoarray.geometry import geometry_util as gu
h = hashlib.sha256(); n = 0
rng = np.random.default_rng(7)
def rec(x):
    global n
    n += 1
    h.update(repr(np.asarray(x).tolist()).encode())
for shape in [(3, 3), (4, 7), (7, 4), (1, 5), (6, 1)]:
    for ps in [1.0, (0.5, 2.0), (3.0, 0.1)]:
        for origin in [(0.0, 0.0), (1.0, -2.0), (-0.3, 4.5)]:
            mask = aa.Mask2D(mask=rng.random(shape) > 0.6, pixel_scales=ps, origin=origin)
            if np.all(np.array(mask)):
                continue
            g = aa.Grid2D.from_mask(mask=mask)
            geo = mask.geometry
            for meth in ("grid_pixels_2d_from", "grid_pixel_centres_2d_from", "grid_pixel_indexes_2d_from"):
                rec(np.array(getattr(geo, meth)(grid_scaled_2d=g)))
            pix = geo.grid_pixels_2d_from(grid_scaled_2d=g)
            rec(np.array(geo.grid_scaled_2d_from(grid_pixels_2d=pix)))
            rec(geo.central_pixel_coordinates); rec(geo.central_scaled_coordinates)
            pts = np.array(g) + rng.normal(size=(g.shape[0], 2))
            psx = mask.pixel_scales
            for f in (gu.grid_pixels_2d_slim_from, gu.grid_pixel_centres_2d_slim_from, gu.grid_pixel_indexes_2d_slim_from):
                rec(f(grid_scaled_2d_slim=pts, shape_native=shape, pixel_scales=psx, origin=origin))
                rec(f(pts, shape, psx))
            rec(gu.grid_scaled_2d_slim_from(grid_pixels_2d_slim=pts, shape_native=shape, pixel_scales=psx, origin=origin))
            rec(gu.grid_scaled_2d_slim_from(pts, shape, psx, origin))
print("records", n)
print("digest", h.hexdigest())
