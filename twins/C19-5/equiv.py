"""
Differential test for the C19-5 twin (autoarray/layout/region.py front / trailing sub-region arithmetic).

Prints a sha256 digest over the results (values, result types, raised exception types) of every public
front / trailing region method of Region2D on many parents and arguments. The digest must be identical on the
clean HEAD tree and on the tree with twin.patch applied.
"""
import hashlib
import itertools

import numpy as np

import autoarray as aa

h = hashlib.sha256()
count = 0


def rec(tag, fn):
    global count
    try:
        out = fn()
        if isinstance(out, aa.Region2D):
            s = "R2D:" + repr(tuple(out.region)) + ":" + ",".join(
                type(v).__name__ for v in out.region
            )
        elif isinstance(out, aa.Region1D):
            s = "R1D:" + repr(tuple(out.region))
        else:
            s = type(out).__name__ + ":" + repr(out)
    except Exception as e:  # noqa
        s = "EXC:" + type(e).__name__
    h.update((tag + "=>" + s + "\n").encode())
    count += 1


# ---------------------------------------------------------------- parents
parents = []
for y0, x0 in itertools.product((0, 1, 4), (0, 2, 7)):
    for rows, cols in itertools.product((1, 2, 3, 6), (1, 2, 5, 9)):
        parents.append((y0, y0 + rows, x0, x0 + cols))
parents += [(2, 5, 4, 11), (0, 3, 0, 3), (0, 1, 0, 1), (10, 11, 0, 200), (0, 200, 10, 11)]

pixel_ranges = [
    (0, 1), (0, 2), (1, 3), (2, 4), (0, 0), (3, 1), (-1, 1), (-3, -1), (-20, -10), (5, 9), (0, 100),
    [1, 2], (1, 2, 3), (1.5, 2.5), (np.int64(1), np.int64(3)), (True, 2),
]
bad_pixel_ranges = [None, (1,), (), "ab", 3, ("a", "b"), (None, 1)]
from_ends = [1, 2, 3, 4, 5, 7, 9, 10, 0, -1, -4, 50, 1.5, np.int64(2), True, False]
bad_from_ends = ["a", (1,), [2]]

methods_front = ["parallel_front_region_from", "serial_front_region_from"]
methods_pix = [
    "serial_x_front_range_from",
    "parallel_trailing_region_from",
    "serial_trailing_region_from",
    "serial_towards_roe_full_region_from",
]


def parent_variants(p):
    yield "tuple", aa.Region2D(region=p)
    yield "list", aa.Region2D(region=list(p))
    yield "np", aa.Region2D(region=tuple(np.int64(v) for v in p))
    yield "float", aa.Region2D(region=tuple(float(v) for v in p))


for p in parents:
    for kind, region in parent_variants(p):
        if kind != "tuple" and p not in ((2, 5, 4, 11), (0, 3, 0, 3), (1, 3, 7, 16), (4, 5, 2, 4)):
            continue
        tag0 = f"{kind}{p}"
        for name in methods_front:
            m = getattr(region, name)
            # no-argument and positional forms
            rec(f"{tag0}.{name}()", lambda: m())
            for px in pixel_ranges + bad_pixel_ranges:
                rec(f"{tag0}.{name}(pixels={px!r})", lambda: m(pixels=px))
                rec(f"{tag0}.{name}(pos {px!r})", lambda: m(px))
            for k in from_ends + bad_from_ends:
                rec(f"{tag0}.{name}(pfe={k!r})", lambda: m(pixels_from_end=k))
                rec(f"{tag0}.{name}(pos None,{k!r})", lambda: m(None, k))
                # pixels_from_end takes precedence over pixels
                for px in ((0, 1), (3, 1), None, "zz"):
                    rec(
                        f"{tag0}.{name}(pixels={px!r},pfe={k!r})",
                        lambda: m(pixels=px, pixels_from_end=k),
                    )
        for name in methods_pix:
            if not hasattr(region, name):
                rec(f"{tag0}.{name} missing", lambda: None)
                continue
            m = getattr(region, name)
            for px in pixel_ranges + bad_pixel_ranges:
                rec(f"{tag0}.{name}({px!r})", lambda: m(px))
                rec(f"{tag0}.{name}(pixels={px!r})", lambda: m(pixels=px))

# ---------------------------------------------------------------- documented properties on data
values = np.arange(23 * 31, dtype=float).reshape(23, 31)
for p in parents:
    if p[1] > 23 or p[3] > 31:
        continue
    region = aa.Region2D(region=p)
    for k in range(1, max(region.shape) + 2):
        for name in methods_front:
            rec(
                f"data{p}.{name}(pfe={k})",
                lambda: values[getattr(region, name)(pixels_from_end=k).slice].tobytes().hex(),
            )

# ---------------------------------------------------------------- aliasing: arguments / parent not mutated, fresh objects
region = aa.Region2D(region=(2, 5, 4, 11))
px = [1, 3]
a = region.serial_front_region_from(pixels=px)
b = region.serial_front_region_from(pixels=px)
rec("alias.px", lambda: (px, a is b, a is region, tuple(region.region)))
a = region.parallel_front_region_from(pixels_from_end=3)
rec("alias.full", lambda: (a is region, a == region, tuple(region.region)))
a = region.serial_front_region_from(pixels_from_end=7)
rec("alias.full.serial", lambda: (a is region, a == region, tuple(region.region)))

# repeated calls on the same parent give the same answers (no hidden state)
for _ in range(3):
    rec("repeat.ser", lambda: region.serial_front_region_from(pixels_from_end=2))
    rec("repeat.par", lambda: region.parallel_front_region_from(pixels_from_end=2))

# ---------------------------------------------------------------- public API surface that existed at HEAD is unchanged
import inspect

for name in methods_front + methods_pix:
    rec(f"sig.{name}", lambda: str(inspect.signature(getattr(aa.Region2D, name))))

# ---------------------------------------------------------------- downstream users (Layout2D / Region1D untouched but cheap to check)
r1 = aa.Region1D(region=(3, 9))
for px in pixel_ranges[:8]:
    rec(f"r1.front({px!r})", lambda: r1.front_region_from(pixels=px))
    rec(f"r1.trailing({px!r})", lambda: r1.trailing_region_from(pixels=px))

print("cases", count)
print("digest", h.hexdigest())
