"""
Differential test for the C08-8 twin (`reduced_chi_squared` pulled up from `FitDataset` into `AbstractFit`).

Computes every fit statistic (with emphasis on `reduced_chi_squared`) for a large family of fits and prints a sha256
digest over the exact results (floats as hex, arrays as bytes, exceptions as their type name). The digest must be
identical on the clean HEAD tree and on the tree with twin.patch applied.

Run:  cd /tmp/wt10/C08-8 && PYTHONPATH=/tmp/wt10/C08-8 /venv/bin/python equiv.py
"""
import hashlib
import itertools
import warnings

warnings.filterwarnings("ignore")

import numpy as np

import autoarray as aa
from autoarray.fit.fit_dataset import AbstractFit, FitDataset

H = hashlib.sha256()
N_RECORDS = 0
N_EXC = 0


def enc(value):
    if isinstance(value, BaseException):
        return "EXC:" + type(value).__name__
    if value is None:
        return "None"
    if isinstance(value, (bool, np.bool_)):
        return "b:" + str(bool(value))
    if isinstance(value, (int, np.integer)):
        return f"i:{type(value).__name__}:{int(value)}"
    if isinstance(value, (float, np.floating)):
        return f"f:{type(value).__name__}:{float(value).hex()}"
    if isinstance(value, (complex, np.complexfloating)):
        return f"c:{type(value).__name__}:{float(value.real).hex()}:{float(value.imag).hex()}"
    arr = getattr(value, "array", None)
    if arr is None:
        arr = getattr(value, "_array", None)
    if arr is not None and not isinstance(value, np.ndarray):
        a = np.asarray(arr)
        return f"w:{type(value).__name__}:{a.dtype}:{a.shape}:" + hashlib.sha256(
            np.ascontiguousarray(a).tobytes()
        ).hexdigest()
    if isinstance(value, np.ndarray):
        return f"a:{value.dtype}:{value.shape}:" + hashlib.sha256(
            np.ascontiguousarray(value).tobytes()
        ).hexdigest()
    return "r:" + type(value).__name__ + ":" + repr(value)


def record(tag, func):
    global N_RECORDS, N_EXC
    try:
        value = func()
    except BaseException as e:  # noqa
        value = e
        N_EXC += 1
    N_RECORDS += 1
    H.update((tag + "=" + enc(value) + "\n").encode())
    return value


STATS = [
    "chi_squared",
    "reduced_chi_squared",
    "noise_normalization",
    "log_likelihood",
    "log_likelihood_with_regularization",
    "log_evidence",
    "figure_of_merit",
    "residual_map",
    "normalized_residual_map",
    "chi_squared_map",
    "signal_to_noise_map",
    "residual_flux_fraction_map",
]


def record_fit(tag, fit_func, stats=STATS, repeats=2):
    try:
        fit = fit_func()
    except BaseException as e:  # noqa
        record(tag + ":ctor", lambda: (_ for _ in ()).throw(e))
        return None
    # reduced_chi_squared first (so that nothing else has been evaluated before), then everything, then again.
    record(tag + ":rcs_first", lambda: fit.reduced_chi_squared)
    for r in range(repeats):
        for name in stats:
            record(f"{tag}:{name}:{r}", lambda: getattr(fit, name))
    record(tag + ":rcs_last", lambda: fit.reduced_chi_squared)
    record(tag + ":rcs_type", lambda: type(fit.reduced_chi_squared).__name__)
    return fit


# ---------------------------------------------------------------------------------------------------------------------
# 1) Imaging fits: masks x pixel scales x origins x storage x use_mask_in_fit x sky x inversion
# ---------------------------------------------------------------------------------------------------------------------

MASKS = {
    "notes_3x4": [
        [True, False, False, True],
        [False, False, False, False],
        [True, True, False, False],
    ],
    "none_masked_2x3": [[False, False, False], [False, False, False]],
    "all_masked_2x2": [[True, True], [True, True]],
    "single_1x1": [[False]],
    "single_masked_1x1": [[True]],
    "one_unmasked_3x3": [
        [True, True, True],
        [True, False, True],
        [True, True, True],
    ],
    "edges_5x2": [
        [False, True],
        [True, True],
        [False, False],
        [True, False],
        [False, True],
    ],
    "row_1x5": [[False, True, False, False, True]],
    "col_4x1": [[True], [False], [False], [True]],
    "corner_4x4": [
        [False, True, True, False],
        [True, True, True, True],
        [True, True, False, True],
        [False, True, True, False],
    ],
}

GEOMS = [
    (1.0, (0.0, 0.0)),
    ((1.0, 2.0), (0.0, 0.0)),
    ((0.3, 0.05), (1.5, -2.0)),
]

rng = np.random.RandomState(20261003)


def inversion_mock():
    return aa.m.MockInversion(
        linear_obj_list=[aa.m.MockMapper()],
        data_vector=1,
        regularization_term=2.0,
        log_det_curvature_reg_matrix_term=3.0,
        log_det_regularization_matrix_term=4.0,
    )


for (mask_name, mask_list), (pixel_scales, origin) in itertools.product(
    MASKS.items(), GEOMS
):
    mask = aa.Mask2D(mask=mask_list, pixel_scales=pixel_scales, origin=origin)
    n_unmasked = int(np.sum(~np.asarray(mask)))
    n_total = int(np.size(np.asarray(mask)))

    data_slim = rng.normal(loc=1.0, scale=2.0, size=n_unmasked)
    noise_slim = rng.uniform(0.2, 3.0, size=n_unmasked)
    model_slim = data_slim + rng.normal(scale=0.5, size=n_unmasked)

    data_native_full = rng.normal(loc=1.0, scale=2.0, size=np.asarray(mask).shape)
    noise_native_full = rng.uniform(0.2, 3.0, size=np.asarray(mask).shape)
    model_native_full = data_native_full + rng.normal(
        scale=0.5, size=np.asarray(mask).shape
    )

    for store_native, use_mask_in_fit, sky, with_inv in itertools.product(
        [False, True], [False, True], [0.0, 0.3, -1.1], [False, True]
    ):
        tag = f"img:{mask_name}:{pixel_scales}:{origin}:{store_native}:{use_mask_in_fit}:{sky}:{with_inv}"

        def make():
            data = aa.Array2D(values=data_slim, mask=mask, store_native=store_native)
            noise_map = aa.Array2D(
                values=noise_slim, mask=mask, store_native=store_native
            )
            model_data = aa.Array2D(
                values=model_slim, mask=mask, store_native=store_native
            )
            return aa.m.MockFitImaging(
                dataset=aa.Imaging(data=data, noise_map=noise_map),
                use_mask_in_fit=use_mask_in_fit,
                model_data=model_data,
                dataset_model=aa.DatasetModel(background_sky_level=sky),
                inversion=inversion_mock() if with_inv else None,
            )

        record_fit(tag, make)

    # native input values (masked entries hold garbage which Array2D zeroes) + a separately supplied noise map
    for use_mask_in_fit in [False, True]:
        tag = f"img_native_in:{mask_name}:{pixel_scales}:{origin}:{use_mask_in_fit}"

        def make():
            data = aa.Array2D(values=data_native_full, mask=mask, store_native=True)
            noise_map = aa.Array2D(
                values=noise_native_full, mask=mask, store_native=True
            )
            model_data = aa.Array2D(
                values=model_native_full, mask=mask, store_native=True
            )
            return aa.m.MockFitImaging(
                dataset=aa.Imaging(data=data, noise_map=noise_map),
                use_mask_in_fit=use_mask_in_fit,
                model_data=model_data,
                noise_map=aa.Array2D(
                    values=2.0 * noise_native_full, mask=mask, store_native=True
                ),
            )

        record_fit(tag, make)

# ---------------------------------------------------------------------------------------------------------------------
# 2) The exact fits of the existing unit tests / of the notes (trigger of the seed)
# ---------------------------------------------------------------------------------------------------------------------

mask = aa.Mask2D(
    mask=[
        [True, False, False, True],
        [False, False, False, False],
        [True, True, False, False],
    ],
    pixel_scales=(1.0, 2.0),
)
d = np.array([1.0, 2.5, 0.3, -0.7, 4.0, 1.2, 0.9, 2.0])
n = np.array([0.5, 1.0, 0.25, 0.7, 2.0, 0.4, 3.0, 1.0])
m = np.array([0.8, 2.0, 0.1, 0.2, 3.5, 1.0, 1.0, 2.2])

for sky in [0.0, 0.3]:
    for store_native, use_mask_in_fit in [(False, False), (True, True), (True, False), (False, True)]:
        record_fit(
            f"notes:{sky}:{store_native}:{use_mask_in_fit}",
            lambda: aa.m.MockFitImaging(
                dataset=aa.Imaging(
                    data=aa.Array2D(values=d, mask=mask, store_native=store_native),
                    noise_map=aa.Array2D(values=n, mask=mask, store_native=store_native),
                ),
                use_mask_in_fit=use_mask_in_fit,
                model_data=aa.Array2D(values=m, mask=mask, store_native=store_native),
                dataset_model=aa.DatasetModel(background_sky_level=sky),
            ),
        )

mask_22 = aa.Mask2D(mask=[[False, False], [True, False]], pixel_scales=(1.0, 1.0))
for use_mask_in_fit in [False, True]:
    record_fit(
        f"unit_test_2x2:{use_mask_in_fit}",
        lambda: aa.m.MockFitImaging(
            dataset=aa.Imaging(
                data=aa.Array2D(values=[1.0, 2.0, 4.0], mask=mask_22),
                noise_map=aa.Array2D(values=[2.0, 2.0, 2.0], mask=mask_22),
            ),
            use_mask_in_fit=use_mask_in_fit,
            model_data=aa.Array2D(values=[1.0, 2.0, 3.0], mask=mask_22),
        ),
    )

# ---------------------------------------------------------------------------------------------------------------------
# 3) Noise covariance matrix (chi_squared takes another route; reduced_chi_squared must follow it)
# ---------------------------------------------------------------------------------------------------------------------

mask_cov = aa.Mask2D(mask=[[False, False], [False, False]], pixel_scales=(1.0, 3.0))
cov = np.array(
    [
        [1.0, 0.3, 0.0, 0.0],
        [0.3, 2.0, 0.1, 0.0],
        [0.0, 0.1, 1.5, 0.2],
        [0.0, 0.0, 0.2, 0.7],
    ]
)
for use_mask_in_fit in [False, True]:
    record_fit(
        f"cov:{use_mask_in_fit}",
        lambda: aa.m.MockFitImaging(
            dataset=aa.Imaging(
                data=aa.Array2D(values=[1.0, 2.0, 3.0, 4.0], mask=mask_cov),
                noise_covariance_matrix=cov,
            ),
            use_mask_in_fit=use_mask_in_fit,
            model_data=aa.Array2D(values=[1.5, 1.0, 3.3, 3.0], mask=mask_cov),
        ),
    )

# masked dataset built through apply_mask (covariance matrix is trimmed)
record_fit(
    "cov_apply_mask",
    lambda: aa.m.MockFitImaging(
        dataset=aa.Imaging(
            data=aa.Array2D.no_mask(values=[[1.0, 2.0], [3.0, 4.0]], pixel_scales=1.0),
            noise_covariance_matrix=cov,
        ).apply_mask(mask=aa.Mask2D(mask=[[False, True], [False, False]], pixel_scales=1.0)),
        model_data=aa.Array2D(
            values=[1.5, 3.3, 3.0],
            mask=aa.Mask2D(mask=[[False, True], [False, False]], pixel_scales=1.0),
        ),
    ),
)

# ---------------------------------------------------------------------------------------------------------------------
# 4) Interferometer fits (mask is an all-False array shaped like the visibilities)
# ---------------------------------------------------------------------------------------------------------------------

for n_vis, rs_shape in [(1, (2, 2)), (2, (2, 2)), (5, (3, 4)), (7, (5, 2))]:
    real_space_mask = aa.Mask2D.all_false(
        shape_native=rs_shape, pixel_scales=(0.5, 1.5), origin=(0.2, -0.4)
    )
    vis = rng.normal(size=n_vis) + 1j * rng.normal(size=n_vis)
    noise = rng.uniform(0.5, 2.0, size=n_vis) + 1j * rng.uniform(0.5, 2.0, size=n_vis)
    model = vis + 0.3 * (rng.normal(size=n_vis) + 1j * rng.normal(size=n_vis))
    uv = rng.uniform(-1.0, 1.0, size=(n_vis, 2))
    for use_mask_in_fit, with_inv in itertools.product([False, True], [False, True]):

        def make():
            dataset = aa.Interferometer(
                data=aa.Visibilities(visibilities=vis),
                noise_map=aa.VisibilitiesNoiseMap(visibilities=noise),
                uv_wavelengths=uv,
                real_space_mask=real_space_mask,
            )
            return aa.m.MockFitInterferometer(
                dataset=dataset,
                use_mask_in_fit=use_mask_in_fit,
                model_data=aa.Visibilities(visibilities=model),
                inversion=inversion_mock() if with_inv else None,
            )

        record_fit(
            f"interf:{n_vis}:{rs_shape}:{use_mask_in_fit}:{with_inv}",
            make,
            stats=[s for s in STATS if s != "residual_flux_fraction_map"],
        )

# ---------------------------------------------------------------------------------------------------------------------
# 5) Direct FitDataset subclasses on plain numpy / 1D data, MockDataset defaults, overriding subclasses
# ---------------------------------------------------------------------------------------------------------------------


class PlainDataset:
    noise_covariance_matrix = None

    def __init__(self, data, noise_map, mask):
        self.data = data
        self.noise_map = noise_map
        self.mask = mask


class PlainFit(FitDataset):
    def __init__(self, dataset, model_data, use_mask_in_fit=False):
        super().__init__(dataset=dataset, use_mask_in_fit=use_mask_in_fit)
        self._model_data = model_data

    @property
    def model_data(self):
        return self._model_data


PLAIN_STATS = ["chi_squared", "reduced_chi_squared", "noise_normalization", "log_likelihood", "figure_of_merit"]

for shape in [(6,), (3, 4), (2, 3, 2), (1,), (0,)]:
    size = int(np.prod(shape))
    data = rng.normal(size=shape)
    noise = rng.uniform(0.5, 2.0, size=shape)
    model = data + rng.normal(scale=0.3, size=shape)
    masks = {
        "none": np.zeros(shape, dtype=bool),
        "all": np.ones(shape, dtype=bool),
        "rand": rng.uniform(size=shape) < 0.4,
        "int": (rng.uniform(size=shape) < 0.4).astype(int),
        "list": (rng.uniform(size=shape) < 0.4).tolist(),
        "wrong_shape": np.zeros((size + 2,), dtype=bool),
    }
    for (mask_name, mk), use_mask_in_fit in itertools.product(masks.items(), [False, True]):
        record_fit(
            f"plain:{shape}:{mask_name}:{use_mask_in_fit}",
            lambda: PlainFit(
                dataset=PlainDataset(data, noise, mk),
                model_data=model,
                use_mask_in_fit=use_mask_in_fit,
            ),
            stats=PLAIN_STATS,
        )

# mask which is None / missing
record_fit(
    "plain:mask_none",
    lambda: PlainFit(
        dataset=PlainDataset(np.ones(3), np.ones(3), None), model_data=np.zeros(3)
    ),
    stats=PLAIN_STATS,
)


class NoMaskDataset:
    noise_covariance_matrix = None
    data = np.array([1.0, 2.0])
    noise_map = np.array([1.0, 2.0])


record_fit(
    "plain:mask_missing",
    lambda: PlainFit(dataset=NoMaskDataset(), model_data=np.zeros(2)),
    stats=PLAIN_STATS,
)

# 1D structures
mask_1d = aa.Mask1D(mask=[True, False, False, True, False], pixel_scales=0.5, origin=(1.0,))
for use_mask_in_fit in [False, True]:
    record_fit(
        f"array1d:{use_mask_in_fit}",
        lambda: PlainFit(
            dataset=PlainDataset(
                aa.Array1D(values=[1.0, -2.0, 3.0], mask=mask_1d),
                aa.Array1D(values=[0.5, 1.0, 2.0], mask=mask_1d),
                mask_1d,
            ),
            model_data=aa.Array1D(values=[0.9, -1.0, 2.0], mask=mask_1d),
            use_mask_in_fit=use_mask_in_fit,
        ),
        stats=PLAIN_STATS,
    )

# default mock fits (MockDataset has mask=None and no data)
record_fit("mock_default_imaging", lambda: aa.m.MockFitImaging(), stats=PLAIN_STATS)
record_fit(
    "mock_default_interferometer", lambda: aa.m.MockFitInterferometer(), stats=PLAIN_STATS
)


# subclasses which override / extend the statistic
class OverridingFit(PlainFit):
    @property
    def reduced_chi_squared(self):
        return 2.0 * super().reduced_chi_squared


class ChiOverridingFit(PlainFit):
    @property
    def chi_squared(self):
        return 10.0


class MaskOverridingFit(PlainFit):
    @property
    def mask(self):
        return np.array([True, False, False, False, True, True])


for cls in [OverridingFit, ChiOverridingFit, MaskOverridingFit]:
    for use_mask_in_fit in [False, True]:
        record_fit(
            f"override:{cls.__name__}:{use_mask_in_fit}",
            lambda: cls(
                dataset=PlainDataset(
                    np.arange(6.0),
                    np.arange(1.0, 7.0),
                    np.array([False, True, False, False, False, True]),
                ),
                model_data=np.ones(6),
                use_mask_in_fit=use_mask_in_fit,
            ),
            stats=PLAIN_STATS,
        )


# evaluation order: chi_squared must be evaluated before the mask (both raise -> the chi_squared error wins)
class OrderFit(PlainFit):
    @property
    def chi_squared(self):
        raise KeyError("chi_squared first")

    @property
    def mask(self):
        raise IndexError("mask second")


record_fit(
    "order",
    lambda: OrderFit(dataset=PlainDataset(np.ones(2), np.ones(2), None), model_data=np.ones(2)),
    stats=["reduced_chi_squared"],
)


# number of evaluations of chi_squared / mask per reduced_chi_squared access
class CountingFit(PlainFit):
    calls = None

    @property
    def chi_squared(self):
        self.calls.append("chi_squared")
        return super().chi_squared

    @property
    def mask(self):
        self.calls.append("mask")
        return super().mask


cf = CountingFit(
    dataset=PlainDataset(np.arange(4.0), np.ones(4), np.array([False, True, False, False])),
    model_data=np.zeros(4),
)
cf.calls = []
record("counting:value", lambda: cf.reduced_chi_squared)
record("counting:calls", lambda: ",".join(cf.calls))

# ---------------------------------------------------------------------------------------------------------------------
# 6) Direct AbstractFit subclass which has no mask (statistic unavailable -> AttributeError, also via __getattr__)
# ---------------------------------------------------------------------------------------------------------------------


class BareFit(AbstractFit):
    data = np.array([1.0, 2.0])
    noise_map = np.array([1.0, 1.0])
    model_data = np.array([0.0, 0.0])


class BareFitGetattr(BareFit):
    # the usual "delegate unknown attributes" pattern: known names are forwarded, everything else is an AttributeError.
    # (A catch-all `__getattr__` that never raises, or a direct `AbstractFit` subclass that has its own `mask`, is the
    # one place where ANY pull-up into `AbstractFit` is visible - see TWIN_NOTES.md - and is deliberately not digested.)
    def __getattr__(self, item):
        if item == "extra":
            return "fallback:" + item
        raise AttributeError(item)


record("bare:chi_squared", lambda: BareFit().chi_squared)
record("bare:log_likelihood", lambda: BareFit().log_likelihood)
record("bare:rcs", lambda: BareFit().reduced_chi_squared)
record("bare:hasattr_instance", lambda: hasattr(BareFit(), "reduced_chi_squared"))
record("bare:getattr_default", lambda: getattr(BareFit(), "reduced_chi_squared", "dflt"))
record("bare_getattr:rcs", lambda: BareFitGetattr().reduced_chi_squared)
record("bare_getattr:extra", lambda: BareFitGetattr().extra)
record("bare_getattr:hasattr", lambda: hasattr(BareFitGetattr(), "reduced_chi_squared"))

# ---------------------------------------------------------------------------------------------------------------------
# 7) Class level view of the public fit classes
# ---------------------------------------------------------------------------------------------------------------------

for cls in [FitDataset, aa.FitImaging, aa.FitInterferometer, aa.m.MockFitImaging, aa.m.MockFitInterferometer]:
    record(f"cls:{cls.__name__}:is_property", lambda: isinstance(getattr(cls, "reduced_chi_squared"), property))
    record(f"cls:{cls.__name__}:fset", lambda: getattr(cls, "reduced_chi_squared").fset)
    record(f"cls:{cls.__name__}:abstract", lambda: sorted(cls.__abstractmethods__))
    record(f"cls:{cls.__name__}:mro", lambda: [c.__name__ for c in cls.__mro__])

record("cls:AbstractFit:abstract", lambda: sorted(AbstractFit.__abstractmethods__))

print(f"records {N_RECORDS} (of which exceptions {N_EXC})")
print("DIGEST", H.hexdigest())
