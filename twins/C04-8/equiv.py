"""
Differential test for C04-8 (InversionImagingWTilde._curvature_matrix_func_list_and_mapper).

Prints a sha256 digest over every result (raw float bytes, shapes, dtypes, raised exception types) so that the clean
HEAD tree and the twin tree can be compared bit for bit:

    cd /tmp/wt10/C04-8 && PYTHONPATH=/tmp/wt10/C04-8 /venv/bin/python equiv.py

Part A : full `aa.Inversion` objects (real dataset, PSF, rectangular mappers, linear function lists) for both
         formalisms, many orderings / parameter counts / shapes / pixel scales / masks.
Part B : `MockInversionImagingWTilde` with preloads, which reaches `_curvature_matrix_func_list_and_mapper` directly
         for LARGE data sizes (hundreds to thousands of data pixels, up to 60 functions per list). Large sizes matter:
         BLAS picks different kernels (gemm vs syrk) for `np.dot(a.T, a)` depending on whether both operands share
         one buffer, and this only shows up in the low bits for big matrices.
Part C : error cases (shape mismatch between function lists / noise map, no mapper, missing dict key) -> exception
         types are part of the digest.
Part D : repeated calls / aliasing: the property returns a fresh array each call, inputs are not modified.
"""
import hashlib
import os
import logging
import warnings

import numpy as np

warnings.filterwarnings("ignore")
logging.disable(logging.CRITICAL)

import autoarray as aa
from autoarray.preloads import Preloads

H = hashlib.sha256()
N_ITEMS = 0
EXCEPTIONS = []


def feed(tag, value):
    global N_ITEMS
    N_ITEMS += 1
    H.update(repr(tag).encode())
    if isinstance(value, BaseException):
        H.update(b"EXC:" + type(value).__name__.encode())
        EXCEPTIONS.append((tag, type(value).__name__))
        if os.environ.get("EQUIV_VERBOSE"):
            print("EXC", tag, type(value).__name__, str(value)[:100])
        return
    if value is None:
        H.update(b"None")
        return
    if isinstance(value, (bool, int, str)):
        H.update(repr(value).encode())
        return
    arr = np.asarray(value)
    H.update(type(value).__name__.encode())
    H.update(repr(arr.shape).encode())
    H.update(str(arr.dtype).encode())
    H.update(np.ascontiguousarray(arr).tobytes())


def attempt(tag, func):
    try:
        value = func()
    except Exception as e:  # noqa
        feed(tag, e)
        return None
    feed(tag, value)
    return value


# ---------------------------------------------------------------------------------------------------------------------
# Part A
# ---------------------------------------------------------------------------------------------------------------------


def make_dataset(rng, shape, pixel_scales, origin, mask_kind, kernel_shape):
    mask_arr = np.ones(shape, dtype=bool)
    if mask_kind == "inner":
        mask_arr[2:-2, 2:-3] = False
        mask_arr[3, 3] = True
    elif mask_kind == "edge":
        # touches the edges of the array
        mask_arr[0:4, 0:5] = False
        mask_arr[-3:, -4:] = False
        mask_arr[1, 1] = True
    elif mask_kind == "all":
        mask_arr[:, :] = False
    elif mask_kind == "ring":
        mask_arr[1:-1, 1:-1] = False
        mask_arr[3:-3, 3:-3] = True
    mask = aa.Mask2D(mask=mask_arr, pixel_scales=pixel_scales, origin=origin)

    data = aa.Array2D.no_mask(
        rng.normal(size=shape), pixel_scales=pixel_scales, origin=origin
    )
    noise_map = aa.Array2D.no_mask(
        rng.uniform(0.5, 2.0, size=shape), pixel_scales=pixel_scales, origin=origin
    )
    kernel = rng.uniform(0.1, 1.0, size=kernel_shape)
    kernel[0, -1] = -0.25
    psf = aa.Kernel2D.no_mask(values=kernel, pixel_scales=pixel_scales)

    dataset = aa.Imaging(data=data, noise_map=noise_map, psf=psf)
    return dataset.apply_mask(mask=mask)


def make_mapper(rng, dataset, sub_size, mesh_shape, coefficient):
    mask = dataset.mask
    over_sampler = aa.OverSamplerUniform(mask=mask, sub_size=sub_size)
    grid = np.array(over_sampler.over_sampled_grid)
    grid = grid + 0.03 * rng.normal(size=grid.shape)
    source_plane_data_grid = aa.Grid2DIrregular(values=grid)
    mesh_grid = aa.Mesh2DRectangular.overlay_grid(
        grid=source_plane_data_grid, shape_native=mesh_shape
    )
    return aa.MapperRectangular(
        mapper_grids=aa.MapperGrids(
            mask=mask,
            source_plane_data_grid=source_plane_data_grid,
            source_plane_mesh_grid=mesh_grid,
        ),
        over_sampler=over_sampler,
        border_relocator=None,
        regularization=aa.reg.Constant(coefficient=coefficient),
    )


def make_func(rng, dataset, params, override=False, order="C", regularization=None):
    pixels = dataset.mask.pixels_in_mask
    func_grid = aa.Grid2D.from_mask(mask=dataset.mask)
    mapping_matrix = rng.uniform(0.1, 1.0, size=(pixels, params))
    if order == "F":
        mapping_matrix = np.asfortranarray(mapping_matrix)
    operated = None
    if override:
        operated = rng.uniform(0.1, 1.0, size=(pixels, params))
        if order == "F":
            operated = np.asfortranarray(operated)
    return aa.m.MockLinearObjFuncList(
        parameters=params,
        grid=func_grid,
        mapping_matrix=mapping_matrix,
        operated_mapping_matrix_override=operated,
        regularization=regularization,
    )


def inversion_outputs(tag, dataset, linear_obj_list, use_w_tilde, positive_only=False):
    def build():
        return aa.Inversion(
            dataset=dataset,
            linear_obj_list=linear_obj_list,
            settings=aa.SettingsInversion(
                use_w_tilde=use_w_tilde,
                use_positive_only_solver=positive_only,
                no_regularization_add_to_curvature_diag_value=1.0e-8,
            ),
        )

    try:
        inversion = build()
    except Exception as e:  # noqa
        feed((tag, "build"), e)
        return
    feed((tag, "cls"), type(inversion).__name__)
    if hasattr(inversion, "_curvature_matrix_func_list_and_mapper"):
        attempt(
            (tag, "raw_block_matrix"),
            lambda: inversion._curvature_matrix_func_list_and_mapper,
        )
    attempt((tag, "data_vector"), lambda: inversion.data_vector)
    attempt((tag, "curvature_matrix"), lambda: inversion.curvature_matrix)
    attempt((tag, "curvature_reg_matrix"), lambda: inversion.curvature_reg_matrix)
    attempt((tag, "reconstruction"), lambda: inversion.reconstruction)
    attempt(
        (tag, "mapped_reconstructed_data"),
        lambda: inversion.mapped_reconstructed_data,
    )
    attempt((tag, "log_det"), lambda: inversion.log_det_curvature_reg_matrix_term)


def part_a():
    configs = [
        # shape, pixel_scales, origin, mask_kind, kernel_shape, sub_size, mesh
        ((10, 11), (0.2, 0.3), (0.0, 0.0), "inner", (5, 3), 2, (3, 3)),
        ((9, 12), (0.3, 0.1), (0.4, -0.7), "edge", (3, 3), 1, (3, 4)),
        ((7, 7), (0.1, 0.1), (-1.0, 2.0), "all", (3, 5), 2, (4, 3)),
        ((11, 9), (0.25, 0.5), (0.1, 0.1), "ring", (3, 3), 3, (3, 3)),
    ]
    for ci, (shape, ps, origin, mk, ks, sub, mesh) in enumerate(configs):
        rng = np.random.default_rng(100 + ci)
        dataset = make_dataset(rng, shape, ps, origin, mk, ks)
        mapper = make_mapper(rng, dataset, sub, mesh, 1.0)
        mapper_2 = make_mapper(rng, dataset, 1, (3, 3), 2.0)
        f1 = make_func(rng, dataset, 1)
        f1b = make_func(rng, dataset, 1)
        f2a = make_func(rng, dataset, 2)
        f2b = make_func(rng, dataset, 2)
        f3 = make_func(rng, dataset, 3, override=True)
        f3f = make_func(rng, dataset, 3, override=True, order="F")
        f2f = make_func(rng, dataset, 2, order="F")
        f2same = aa.m.MockLinearObjFuncList(
            parameters=2, grid=f2a.grid, mapping_matrix=f2a.mapping_matrix
        )
        f2reg = make_func(
            rng, dataset, 2, regularization=aa.reg.Constant(coefficient=0.5)
        )

        obj_lists = {
            "mapper": [mapper],
            "f2a,mapper": [f2a, mapper],
            "mapper,f2a": [mapper, f2a],
            "f2a,mapper,f2b": [f2a, mapper, f2b],  # trigger of the seed
            "f2b,mapper,f2a": [f2b, mapper, f2a],
            "f2a,f2b,mapper": [f2a, f2b, mapper],
            "mapper,f2a,f2b": [mapper, f2a, f2b],
            "f1,mapper,f1b": [f1, mapper, f1b],
            "f1,f2a,f3,mapper": [f1, f2a, f3, mapper],
            "f3,mapper,f2a,f1": [f3, mapper, f2a, f1],
            "f3,f3f,mapper": [f3, f3f, mapper],
            "f3f,mapper,f2f,f3": [f3f, mapper, f2f, f3],
            "f2a,mapper,f2same": [f2a, mapper, f2same],
            "f2a,mapper,f2a": [f2a, mapper, f2a],  # same object twice
            "f2a,mapper,mapper_2,f2b": [f2a, mapper, mapper_2, f2b],
            "mapper,f3,mapper_2,f2b,f1": [mapper, f3, mapper_2, f2b, f1],
            "f2reg,mapper,f2b": [f2reg, mapper, f2b],
            "f2a,f2b": [f2a, f2b],  # no mapper -> factory picks mapping
            "f2a": [f2a],
        }
        for name, obj_list in obj_lists.items():
            for use_w_tilde in (True, False):
                if not use_w_tilde and ci > 1:
                    continue
                inversion_outputs(
                    ("A", ci, name, use_w_tilde), dataset, obj_list, use_w_tilde
                )
        inversion_outputs(
            ("A", ci, "positive", True),
            dataset,
            [f2a, mapper, f2b],
            True,
            positive_only=True,
        )


# ---------------------------------------------------------------------------------------------------------------------
# Part B / C / D
# ---------------------------------------------------------------------------------------------------------------------


def mock_inversion(
    rng,
    pixels,
    func_params,
    mapper_params,
    orders=None,
    noise_kind="ndarray",
    bad_noise=False,
    mapper_first=False,
    strided=False,
):
    funcs = []
    for i, params in enumerate(func_params):
        operated = rng.uniform(0.1, 1.0, size=(pixels, params))
        if orders is not None and orders[i] == "F":
            operated = np.asfortranarray(operated)
        if strided:
            big = rng.uniform(0.1, 1.0, size=(pixels, 2 * params + 1))
            operated = big[:, ::2][:, :params]
        funcs.append(
            aa.m.MockLinearObjFuncList(
                parameters=params,
                operated_mapping_matrix_override=operated,
                mapping_matrix=operated,
            )
        )
    mappers = [
        aa.m.MockMapper(parameters=params, regularization=None)
        for params in mapper_params
    ]
    if mapper_first:
        linear_obj_list = mappers + funcs
    else:
        linear_obj_list = funcs[:1] + mappers + funcs[1:]

    total = sum(func_params) + sum(mapper_params)

    mapper_diag = np.zeros((total, total))
    index = 0
    for obj in linear_obj_list:
        if isinstance(obj, aa.m.MockMapper):
            block = rng.uniform(0.1, 1.0, size=(obj.params, obj.params))
            mapper_diag[
                index : index + obj.params, index : index + obj.params
            ] = (block + block.T)
        index += obj.params

    noise = rng.uniform(0.5, 2.0, size=pixels + (1 if bad_noise else 0))
    if noise_kind == "Array2D":
        noise = aa.Array2D.no_mask(noise[None, :], pixel_scales=1.0)

    preloads = Preloads(
        curvature_matrix_mapper_diag=mapper_diag if mappers else None,
        mapper_operated_mapping_matrix_dict={
            mapper: rng.uniform(0.0, 1.0, size=(pixels, mapper.params))
            for mapper in mappers
        }
        if mappers
        else None,
    )

    inversion = aa.m.MockInversionImagingWTilde(
        data=rng.normal(size=pixels),
        noise_map=noise,
        linear_obj_list=linear_obj_list,
        preloads=preloads,
        settings=aa.SettingsInversion(use_w_tilde=True),
    )
    return inversion, funcs, mappers, mapper_diag


def part_b():
    rng = np.random.default_rng(2024)
    cases = [
        # pixels, func_params, mapper_params
        (1, [1], [1]),
        (1, [2, 2], [1]),
        (2, [1, 1, 1], [2]),
        (5, [2, 2], [3]),
        (37, [3, 3, 3], [4]),
        (64, [2, 5, 1], [3]),
        (331, [30, 30], [5]),
        (500, [7, 7, 7, 7], [3]),
        (843, [32, 32], [6]),
        (1282, [45, 45, 2], [4]),
        (1583, [21, 60, 21], [5]),
        (2049, [8, 8], [2]),
        (2949, [10, 10, 10], [3]),
        (3001, [1, 1], [2]),
    ]
    for ci, (pixels, func_params, mapper_params) in enumerate(cases):
        for variant in range(5):
            kwargs = {}
            if variant == 1:
                kwargs["orders"] = ["F"] * len(func_params)
            elif variant == 2:
                kwargs["orders"] = ["F" if i % 2 else "C" for i in range(len(func_params))]
                kwargs["mapper_first"] = True
            elif variant == 3:
                kwargs["noise_kind"] = "Array2D"
            elif variant == 4:
                kwargs["strided"] = True
            inversion, funcs, mappers, mapper_diag = mock_inversion(
                rng, pixels, func_params, mapper_params, **kwargs
            )
            tag = ("B", ci, variant)
            attempt(
                (tag, "raw"), lambda: inversion._curvature_matrix_func_list_and_mapper
            )
            if pixels <= 600 or variant == 0:
                attempt((tag, "curvature_matrix"), lambda: inversion.curvature_matrix)


def part_c():
    rng = np.random.default_rng(77)

    # different parameter counts are fine (blocks are rectangular)
    inversion, *_ = mock_inversion(rng, 50, [2, 3], [2])
    attempt(("C", "rect"), lambda: inversion._curvature_matrix_func_list_and_mapper)

    # noise map of the wrong length -> broadcasting error
    inversion, *_ = mock_inversion(rng, 50, [2, 2], [2], bad_noise=True)
    attempt(("C", "bad_noise"), lambda: inversion._curvature_matrix_func_list_and_mapper)

    # function lists with a different number of data pixels
    inversion, funcs, *_ = mock_inversion(rng, 50, [2, 2], [2])
    funcs[1]._operated_mapping_matrix_override = rng.uniform(size=(49, 2))
    attempt(("C", "bad_rows"), lambda: inversion._curvature_matrix_func_list_and_mapper)

    inversion, funcs, *_ = mock_inversion(rng, 50, [2, 2], [2])
    funcs[0]._operated_mapping_matrix_override = rng.uniform(size=(49, 2))
    attempt(("C", "bad_rows_0"), lambda: inversion._curvature_matrix_func_list_and_mapper)

    # declared params disagree with the matrix
    inversion, funcs, *_ = mock_inversion(rng, 50, [2, 2], [2])
    funcs[1]._operated_mapping_matrix_override = rng.uniform(size=(50, 3))
    attempt(("C", "bad_cols"), lambda: inversion._curvature_matrix_func_list_and_mapper)

    # no mapper at all: the mapper diag is None
    inversion, *_ = mock_inversion(rng, 20, [2, 2], [])
    attempt(("C", "no_mapper"), lambda: inversion._curvature_matrix_func_list_and_mapper)
    attempt(("C", "no_mapper_cm"), lambda: inversion.curvature_matrix)

    # dict which lacks the second function list
    inversion, funcs, *_ = mock_inversion(rng, 20, [2, 2], [2])
    inversion.__dict__["linear_func_operated_mapping_matrix_dict"] = {
        funcs[0]: funcs[0].operated_mapping_matrix_override
    }
    attempt(("C", "missing_key"), lambda: inversion._curvature_matrix_func_list_and_mapper)

    # integer / float32 matrices
    inversion, funcs, *_ = mock_inversion(rng, 40, [2, 2], [2])
    funcs[0]._operated_mapping_matrix_override = rng.integers(1, 9, size=(40, 2))
    funcs[1]._operated_mapping_matrix_override = rng.uniform(size=(40, 2)).astype(
        "float32"
    )
    attempt(("C", "dtypes"), lambda: inversion._curvature_matrix_func_list_and_mapper)

    # nan / inf / zero noise
    inversion, funcs, *_ = mock_inversion(rng, 40, [2, 2], [2])
    inversion.noise_map[3] = 0.0
    inversion.noise_map[5] = np.inf
    inversion.noise_map[7] = np.nan
    attempt(("C", "nonfinite"), lambda: inversion._curvature_matrix_func_list_and_mapper)


def part_d():
    rng = np.random.default_rng(5)
    inversion, funcs, mappers, mapper_diag = mock_inversion(rng, 400, [20, 20, 3], [4])

    originals = [np.array(f.operated_mapping_matrix_override) for f in funcs]
    noise_before = np.array(inversion.noise_map)
    diag_before = np.array(mapper_diag)

    first = inversion._curvature_matrix_func_list_and_mapper
    second = inversion._curvature_matrix_func_list_and_mapper
    feed(("D", "first"), first)
    feed(("D", "second"), second)
    feed(("D", "fresh"), first is not second and not np.shares_memory(first, second))
    first[:] = -1.0
    third = inversion._curvature_matrix_func_list_and_mapper
    feed(("D", "third"), third)
    feed(
        ("D", "inputs_untouched"),
        all(
            np.array_equal(o, f.operated_mapping_matrix_override)
            for o, f in zip(originals, funcs)
        )
        and np.array_equal(noise_before, inversion.noise_map)
        and np.array_equal(diag_before, mapper_diag)
        and np.array_equal(
            diag_before, inversion.preloads.curvature_matrix_mapper_diag
        ),
    )
    feed(
        ("D", "no_alias_with_inputs"),
        not any(
            np.shares_memory(third, f.operated_mapping_matrix_override) for f in funcs
        ),
    )
    d = inversion.linear_func_operated_mapping_matrix_dict
    feed(("D", "dict_keys"), [funcs.index(k) for k in d.keys()].__repr__())
    feed(
        ("D", "dict_values_identity"),
        all(d[f] is f.operated_mapping_matrix_override for f in funcs),
    )
    attempt(("D", "curvature_matrix"), lambda: inversion.curvature_matrix)


if __name__ == "__main__":
    part_a()
    part_b()
    part_c()
    part_d()
    print("items", N_ITEMS, "of which exceptions", len(EXCEPTIONS))
    print("digest", H.hexdigest())
