"""
Differential test for the C19-8 twin (front sub-region arithmetic in autoarray/layout/region.py).

Prints a sha256 digest over the repr of every result (or the raised exception type + message) of
 - Region1D.front_region_from
 - Region2D.parallel_front_region_from
 - Region2D.serial_front_region_from
 - (controls) the trailing / full-region functions and serial_x_front_range_from
for many parent regions (y0 / x0 zero and non-zero, non-square, single row / column, int / numpy-int / float /
Fraction coordinates) and every calling mode (pixels=, pixels_from_end=, both, neither, positional, bad types,
values that make the sub-region empty / negative / leave the parent).

The digest must be identical on the clean HEAD tree and on the twin tree.
"""
import hashlib
import itertools
import warnings
from fractions import Fraction

import numpy as np

import autoarray as aa

warnings.simplefilter("ignore")

H = hashlib.sha256()
N = [0]


def rec(tag, fn):
    try:
        out = fn()
        if isinstance(out, (aa.Region1D, aa.Region2D)):
            res = (
                type(out).__name__,
                repr(out.region),
                tuple(type(v).__name__ for v in out.region),
                repr(out),
            )
        else:
            res = ("VALUE", repr(out), type(out).__name__)
    except Exception as e:  # noqa
        res = ("EXC", type(e).__name__, str(e))
    H.update(repr((tag, res)).encode())
    N[0] += 1
    return res


# ---------------------------------------------------------------------------------------------------------------
# parents
# ---------------------------------------------------------------------------------------------------------------

parents_1d = [(0, 1), (0, 3), (0, 10), (4, 10), (5, 15), (7, 8), (1, 2), (40, 50), (3, 100)]
parents_1d += [
    (np.int64(4), np.int64(10)),
    (np.int32(2), np.int32(9)),
    (np.uint8(4), np.uint8(10)),
    (np.uint8(200), np.uint8(250)),
    (0.1, 0.3),
    (0.1, 0.7),
    (1.1, 3.3),
    (0.5, 2.5),
    (4.0, 10.0),
    (Fraction(1, 3), Fraction(7, 3)),
    (np.float32(0.1), np.float32(0.7)),
]

parents_2d = [
    (0, 3, 0, 3),
    (0, 1, 0, 1),
    (4, 10, 2, 8),
    (0, 10, 0, 20),
    (5, 10, 0, 20),
    (1, 2, 3, 9),
    (3, 9, 1, 2),
    (2, 7, 0, 4),
    (0, 6, 5, 6),
    (11, 30, 17, 19),
    (100, 120, 10, 30),
    (1, 4, 1, 4),
]
parents_2d += [
    tuple(np.int64(v) for v in (4, 10, 2, 8)),
    tuple(np.uint8(v) for v in (4, 10, 2, 8)),
    tuple(np.uint8(v) for v in (200, 250, 100, 255)),
    (0.1, 0.3, 0.1, 0.7),
    (1.1, 3.3, 0.2, 0.9),
    (0.5, 2.5, 1.5, 4.5),
    (4.0, 10.0, 2.0, 8.0),
    (Fraction(1, 3), Fraction(7, 3), Fraction(1, 7), Fraction(5, 7)),
    (4, 10.5, 2, 8),
    (np.float32(0.1), np.float32(0.7), np.float32(0.2), np.float32(1.3)),
]

pixel_tuples = [
    (0, 1),
    (0, 2),
    (1, 3),
    (1, 6),
    (2, 3),
    (0, 6),
    (5, 6),
    (3, 3),
    (4, 2),
    (-1, 2),
    (-8, -2),
    (0, 100),
    [1, 3],
    np.array([1, 3]),
    (0.5, 1.5),
    (0.1, 0.2),
    (1,),
    (),
    (1, 2, 3),
    "ab",
    5,
    None,
]

from_end = [
    None,
    0,
    1,
    2,
    3,
    5,
    6,
    7,
    10,
    11,
    50,
    200,
    -1,
    -3,
    True,
    np.int64(2),
    np.uint8(3),
    np.uint8(7),
    1.0,
    0.5,
    0.1,
    0.05,
    2.5,
    1e-17,
    Fraction(1, 3),
    float("nan"),
    float("inf"),
    "1",
    (1,),
    [2],
    np.array([1]),
    np.array([1, 2]),
]

# ---------------------------------------------------------------------------------------------------------------
# 1D
# ---------------------------------------------------------------------------------------------------------------

for ip, p in enumerate(parents_1d):
    rec(("1d-ctor", ip), lambda: aa.Region1D(region=p))
    try:
        reg = aa.Region1D(region=p)
    except Exception:
        continue

    for ie, n in enumerate(from_end):
        rec(("1d", ip, "end", ie), lambda: reg.front_region_from(pixels_from_end=n))
    for ix, px in enumerate(pixel_tuples):
        rec(("1d", ip, "px", ix), lambda: reg.front_region_from(pixels=px))
        rec(("1d", ip, "pxpos", ix), lambda: reg.front_region_from(px))
        rec(("1d", ip, "trail", ix), lambda: reg.trailing_region_from(pixels=px))
    for (ix, px), (ie, n) in itertools.product(
        enumerate(pixel_tuples), enumerate(from_end[:12])
    ):
        rec(
            ("1d", ip, "both", ix, ie),
            lambda: reg.front_region_from(pixels=px, pixels_from_end=n),
        )
        rec(("1d", ip, "bothpos", ix, ie), lambda: reg.front_region_from(px, n))
    rec(("1d", ip, "none"), lambda: reg.front_region_from())

    # parent untouched, result is a fresh object, repeated calls agree
    before = repr(reg.region)
    a = rec(("1d", ip, "rep1"), lambda: reg.front_region_from(pixels_from_end=1))
    b = rec(("1d", ip, "rep2"), lambda: reg.front_region_from(pixels_from_end=1))
    H.update(repr((a == b, before == repr(reg.region))).encode())

# ---------------------------------------------------------------------------------------------------------------
# 2D
# ---------------------------------------------------------------------------------------------------------------

array = np.arange(260.0 * 260.0).reshape(260, 260)

for ip, p in enumerate(parents_2d):
    rec(("2d-ctor", ip), lambda: aa.Region2D(region=p))
    try:
        reg = aa.Region2D(region=p)
    except Exception:
        continue

    for name in ("parallel_front_region_from", "serial_front_region_from"):
        fn = getattr(reg, name)

        for ie, n in enumerate(from_end):
            res = rec(("2d", name, ip, "end", ie), lambda: fn(pixels_from_end=n))

            # what the sub-region extracts from an array (int regions only)
            def extract():
                sub = fn(pixels_from_end=n)
                return array[sub.slice].tobytes().hex()[:64], array[sub.slice].shape

            rec(("2d", name, ip, "end-extract", ie), extract)

        for ix, px in enumerate(pixel_tuples):
            rec(("2d", name, ip, "px", ix), lambda: fn(pixels=px))
            rec(("2d", name, ip, "pxpos", ix), lambda: fn(px))

        for (ix, px), (ie, n) in itertools.product(
            enumerate(pixel_tuples), enumerate(from_end[:12])
        ):
            rec(
                ("2d", name, ip, "both", ix, ie),
                lambda: fn(pixels=px, pixels_from_end=n),
            )
            rec(("2d", name, ip, "bothpos", ix, ie), lambda: fn(px, n))

        rec(("2d", name, ip, "none"), lambda: fn())

        before = repr(reg.region)
        a = rec(("2d", name, ip, "rep1"), lambda: fn(pixels_from_end=1))
        b = rec(("2d", name, ip, "rep2"), lambda: fn(pixels_from_end=1))
        H.update(repr((a == b, before == repr(reg.region))).encode())

        # chained: front of a front, front of a trailing region
        def chained():
            first = fn(pixels_from_end=3)
            second = getattr(first, name)(pixels_from_end=2)
            third = getattr(second, name)(pixels=(0, 1))
            return second.region, third.region

        rec(("2d", name, ip, "chain"), chained)

    # cross: parallel front (from end) of a parallel trailing region etc.
    def cross():
        trail = reg.parallel_trailing_region_from(pixels=(2, 9))
        f1 = trail.parallel_front_region_from(pixels_from_end=4)
        f2 = f1.serial_front_region_from(pixels_from_end=1)
        strail = reg.serial_trailing_region_from(pixels=(1, 6))
        f3 = strail.serial_front_region_from(pixels_from_end=2)
        f4 = f3.parallel_front_region_from(pixels_from_end=1)
        return f1.region, f2.region, f3.region, f4.region

    rec(("2d", ip, "cross"), cross)

    # controls (untouched functions)
    for ix, px in enumerate(pixel_tuples):
        rec(("2d", ip, "ptrail", ix), lambda: reg.parallel_trailing_region_from(pixels=px))
        rec(("2d", ip, "strail", ix), lambda: reg.serial_trailing_region_from(pixels=px))
        rec(("2d", ip, "xrange", ix), lambda: reg.serial_x_front_range_from(pixels=px))
        rec(
            ("2d", ip, "roe-full", ix),
            lambda: reg.serial_towards_roe_full_region_from(shape_2d=(40, 60), pixels=px),
        )
    rec(("2d", ip, "pfull"), lambda: reg.parallel_full_region_from(shape_2d=(40, 60)))

# ---------------------------------------------------------------------------------------------------------------
# exhaustive small integer sweep: every parent inside a 7 x 6 array, every n
# ---------------------------------------------------------------------------------------------------------------

for y0, y1, x0, x1 in itertools.product(range(0, 7), range(1, 8), range(0, 6), range(1, 7)):
    if y0 >= y1 or x0 >= x1:
        continue
    reg = aa.Region2D(region=(y0, y1, x0, x1))
    for n in range(-1, 9):
        rec(("sweep-p", y0, y1, x0, x1, n), lambda: reg.parallel_front_region_from(pixels_from_end=n))
        rec(("sweep-s", y0, y1, x0, x1, n), lambda: reg.serial_front_region_from(pixels_from_end=n))

for x0, x1 in itertools.product(range(0, 12), range(1, 13)):
    if x0 >= x1:
        continue
    reg = aa.Region1D(region=(x0, x1))
    for n in range(-1, 14):
        rec(("sweep-1d", x0, x1, n), lambda: reg.front_region_from(pixels_from_end=n))

# random floats: rounding of x0 + ((x1 - x0) - n) must be reproduced bit for bit
rng = np.random.default_rng(19)
for i in range(400):
    v = np.sort(rng.uniform(0.0, 50.0, size=2))
    w = np.sort(rng.uniform(0.0, 50.0, size=2))
    n = float(rng.uniform(0.0, 1.0)) * float(min(v[1] - v[0], w[1] - w[0]))
    r2 = aa.Region2D(region=(float(v[0]), float(v[1]), float(w[0]), float(w[1])))
    r1 = aa.Region1D(region=(float(v[0]), float(v[1])))
    rec(("rf-p", i), lambda: r2.parallel_front_region_from(pixels_from_end=n))
    rec(("rf-s", i), lambda: r2.serial_front_region_from(pixels_from_end=n))
    rec(("rf-1", i), lambda: r1.front_region_from(pixels_from_end=n))

# ---------------------------------------------------------------------------------------------------------------
# higher-level users of regions (layout rotation keeps using Region2D; make sure nothing else moved)
# ---------------------------------------------------------------------------------------------------------------


def layout_case():
    layout = aa.Layout2D(
        shape_2d=(12, 9),
        original_roe_corner=(1, 0),
        parallel_overscan=(10, 12, 2, 8),
        serial_prescan=(0, 12, 0, 2),
        serial_overscan=(0, 10, 8, 9),
    )
    out = []
    for r in (layout.parallel_overscan, layout.serial_prescan, layout.serial_overscan):
        out.append(r.parallel_front_region_from(pixels_from_end=1).region)
        out.append(r.serial_front_region_from(pixels_from_end=1).region)
    return out


rec(("layout",), layout_case)

print("cases", N[0])
print("digest", H.hexdigest())
