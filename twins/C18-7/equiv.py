"""
Differential test for C18-7 (relocated_grid_via_jit_from and its callers in BorderRelocator).

Prints a sha256 digest over every result (raw bytes, dtype, shape, aliasing flags, exception types).
Run on the clean tree and on the twin tree: the two digests must be identical.
"""
import hashlib
import warnings

import numpy as np

warnings.filterwarnings("ignore")

import autoarray as aa
from autoarray.structures.grids import grid_2d_util

H = hashlib.sha256()
N = [0]
EXC = []


def feed(tag, obj):
    N[0] += 1
    H.update(repr(tag).encode())
    if isinstance(obj, str) and obj.startswith("EXC:"):
        EXC.append((tag, obj))
    if isinstance(obj, np.ndarray):
        H.update(str(obj.dtype).encode())
        H.update(repr(obj.shape).encode())
        H.update(np.ascontiguousarray(obj).tobytes())
    else:
        H.update(repr(obj).encode())


def kernel(tag, grid, border):
    """Call the kernel, record result bytes / exception type, and in-place effects + aliasing."""
    grid_before = None if not isinstance(grid, np.ndarray) else grid.copy()
    border_before = None if not isinstance(border, np.ndarray) else border.copy()
    try:
        out = grid_2d_util.relocated_grid_via_jit_from(grid=grid, border_grid=border)
    except Exception as e:  # noqa
        feed(tag, "EXC:" + type(e).__name__)
        return None
    feed(tag, np.asarray(out))
    feed(tag + ":type", type(out).__name__)
    if isinstance(grid, np.ndarray):
        feed(tag + ":alias", bool(np.shares_memory(out, grid)))
        feed(tag + ":grid_untouched", bool(np.array_equal(grid, grid_before, equal_nan=True)))
        # how many rows came back bit-for-bit
        if out.shape == grid.shape and grid.dtype == np.float64:
            same = (out.view(np.uint64) == grid.view(np.uint64)).all(axis=-1) if out.ndim == 2 and out.shape[1] > 0 else None
            feed(tag + ":bitsame", None if same is None else same)
    if isinstance(border, np.ndarray):
        feed(tag + ":border_untouched", bool(np.array_equal(border, border_before, equal_nan=True)))
    return out


rng = np.random.RandomState(20261003)

# ---------------------------------------------------------------- 1. kernel: random clouds, many origins / scales
for trial in range(60):
    n_border = int(rng.choice([1, 2, 3, 8, 30, 100]))
    n_grid = int(rng.choice([0, 1, 2, 17, 200, 500]))
    origin = rng.choice([0.0, 1.0, -3.7, 1e3, 1e-9, 12345.678], size=2)
    scale = rng.choice([1.0, 0.05, 7.3, 1e-6, 1e5], size=2)  # anisotropic
    theta = rng.uniform(0, 2 * np.pi, n_border)
    r = 1.0 + 0.3 * rng.uniform(-1, 1, n_border)
    border = np.stack([r * np.sin(theta), r * np.cos(theta)], axis=1) * scale + origin
    spread = rng.choice([0.3, 1.0, 3.0, 50.0])
    grid = rng.normal(size=(n_grid, 2)) * spread * scale + origin
    kernel(f"rand{trial}", grid, border)
    # repeated call with the same objects
    kernel(f"rand{trial}:again", grid, border)
    # grid IS the border / contains the border points exactly (ratio == 1.0 exactly)
    kernel(f"rand{trial}:self", border, border)
    both = np.concatenate([border, grid, border[::-1]], axis=0)
    kernel(f"rand{trial}:both", both, border)
    # the outputs fed back in (idempotence-style chain)
    out = grid_2d_util.relocated_grid_via_jit_from(grid=grid, border_grid=border)
    kernel(f"rand{trial}:chain", out, border)

# ---------------------------------------------------------------- 2. kernel: special values / shapes / dtypes
sq = np.array([[1.0, 1.0], [1.0, -1.0], [-1.0, -1.0], [-1.0, 1.0]])
pts = np.array(
    [
        [0.0, 0.0],
        [1.0, 1.0],
        [2.0, 2.0],
        [0.5, 0.0],
        [1.0, 0.0],
        [1.0 + 1e-16, 0.0],
        [np.nextafter(1.0, 2.0), 0.0],
        [1.5, 0.0],
        [0.0, -1.2],
        [-0.0, 0.0],
        [1e300, 1e300],
        [1e-320, 0.0],
    ]
)
kernel("sq", pts, sq)
kernel("sq+off", pts + np.array([0.1, 0.7]), sq + np.array([0.1, 0.7]))
kernel("sq+off2", pts * 0.1 + np.array([1.0, 1.0]), sq * 0.1 + np.array([1.0, 1.0]))
kernel("sq*aniso", pts * np.array([0.05, 3.0]) + 2.5, sq * np.array([0.05, 3.0]) + 2.5)

special = np.array(
    [[np.nan, 0.0], [0.0, np.nan], [np.inf, 0.0], [-np.inf, np.inf], [3.0, 3.0], [0.2, 0.2], [np.nan, np.nan]]
)
kernel("special", special, sq)
kernel("special+off", special + 0.3, sq + 0.3)
kernel("nan-border", pts, np.array([[np.nan, 0.0], [1.0, 1.0], [-1.0, 0.0]]))
kernel("inf-border", pts, np.array([[np.inf, 0.0], [1.0, 1.0], [-1.0, 0.0]]))
kernel("single-border", pts + 0.3, np.array([[0.3, 0.3]]))  # min radius 0 -> ratio 0
kernel("degenerate-border", pts + 0.3, np.array([[0.3, 0.3], [0.3, 0.3]]))
kernel("empty-border", pts, np.zeros((0, 2)))
kernel("empty-grid", np.zeros((0, 2)), sq)
kernel("empty-both", np.zeros((0, 2)), np.zeros((0, 2)))
kernel("1d-grid", np.array([1.0, 2.0]), sq)
kernel("1d-grid-empty-border", np.array([1.0, 2.0]), np.zeros((0, 2)))
kernel("1d-border", pts, np.array([1.0, 2.0]))
kernel("3col-grid-inside", np.array([[0.1, 0.2, 9.0], [0.0, 0.3, 8.0]]) + 0.25, sq + 0.25)
kernel("3col-grid-outside", np.array([[0.1, 0.2, 9.0], [5.0, 0.3, 8.0]]) + 0.25, sq + 0.25)
kernel("1col-grid", np.array([[0.1], [5.0]]), sq)
kernel("3d-grid", np.zeros((2, 2, 2)), sq)
kernel("3col-border", pts + 0.25, np.concatenate([sq + 0.25, np.ones((4, 1))], axis=1))
kernel("int-grid", np.array([[0, 0], [3, 4], [1, 1], [-7, 2]]), sq + 0.5)
kernel("int-both", np.array([[0, 0], [3, 4], [1, 1], [-7, 2]]), np.array([[2, 1], [1, -1], [-1, -1], [-1, 2]]))
kernel("f32-grid", (pts[:10] + 0.3).astype(np.float32), (sq + 0.3).astype(np.float32))
kernel("complex-grid", (pts[:10] + 0.3).astype(complex), sq + 0.3)
kernel("bool-grid", np.array([[True, False], [True, True]]), sq * 0.5 + 0.1)
kernel("fortran", np.asfortranarray(pts[:10] + 0.3), np.asfortranarray(sq + 0.3))
kernel("strided", (np.repeat(pts[:10], 2, axis=1) + 0.3)[:, ::2], (sq + 0.3)[::-1])
ro = pts[:10] + 0.3
ro.setflags(write=False)
kernel("readonly", ro, sq + 0.3)
kernel("list-grid", [[0.0, 0.0], [3.0, 3.0]], sq)
kernel("list-border", pts, [[1.0, 1.0], [-1.0, -1.0]])
kernel("none-grid", None, sq)
kernel("none-border", pts, None)
try:
    kernel("masked", np.ma.masked_invalid(special + 0.3), sq + 0.3)
except Exception as e:  # noqa
    feed("masked-outer", type(e).__name__)

# shared object: grid and border are the very same array / views of one another
shared = rng.normal(size=(40, 2)) * 2.0 + 0.7
kernel("shared-same", shared, shared)
kernel("shared-view", shared, shared[:10])
kernel("shared-view2", shared, shared[::4])

# ---------------------------------------------------------------- 3. BorderRelocator end to end


def relocator_case(tag, mask, sub_size, distort=None, outliers=True, use_map=False):
    try:
        ss_arr = np.array(mask.pixels_in_mask * [sub_size]) if not use_map else sub_size
        over_sampler = aa.OverSamplerUniform(mask=mask, sub_size=ss_arr)
        grid = over_sampler.over_sampled_grid
        if distort is not None:
            g = np.array(grid)
            grid = aa.Grid2DIrregular(values=distort(g))
        if outliers and len(grid) > 5:
            idx = np.linspace(0, len(grid) - 1, 5).astype(int)
            vals = np.array([[11.1, 1.0], [-6.0, 9.0], [1.0, -30.0], [0.01, 0.02], [250.0, 250.0]])
            for i, v in zip(idx, vals):
                grid[i, :] = v
        relocator = aa.BorderRelocator(mask=mask, sub_size=sub_size)
        feed(tag + ":sub_border_slim", np.asarray(relocator.sub_border_slim))
        before = np.array(grid).copy()
        out = relocator.relocated_grid_from(grid=grid)
        feed(tag + ":out", np.array(out))
        feed(tag + ":type", type(out).__name__)
        feed(tag + ":is_input", out is grid)
        feed(tag + ":input_untouched", bool(np.array_equal(np.array(grid), before)))
        out2 = relocator.relocated_grid_from(grid=grid)  # repeated call, cached properties
        feed(tag + ":out2", np.array(out2))
        feed(tag + ":bitsame", (np.array(out) == before).all(axis=1))

        mesh = aa.Grid2DIrregular(
            values=np.array(
                [[0.0, 0.0], [1.0, 1.0], [1.05, 0.95], [40.0, -3.0], [-0.7, 0.6], [1.9, 1.2], [1e-3, 5.0]]
            )
        )
        mesh_before = np.array(mesh).copy()
        mout = relocator.relocated_mesh_grid_from(grid=grid, mesh_grid=mesh)
        feed(tag + ":mesh", np.array(mout))
        feed(tag + ":mesh_type", type(mout).__name__)
        feed(tag + ":mesh_is_input", mout is mesh)
        feed(tag + ":mesh_untouched", bool(np.array_equal(np.array(mesh), mesh_before)))
        mout2 = relocator.relocated_mesh_grid_from(grid=out, mesh_grid=mout)
        feed(tag + ":mesh2", np.array(mout2))
    except Exception as e:  # noqa
        feed(tag, "EXC:" + type(e).__name__)


masks = {
    "circ-centred": aa.Mask2D.circular(shape_native=(30, 30), radius=1.0, pixel_scales=(0.1, 0.1)),
    "circ-offcentre": aa.Mask2D.circular(
        shape_native=(60, 60), radius=1.0, pixel_scales=(0.1, 0.1), centre=(1.0, 1.0)
    ),
    "circ-nonsquare-aniso": aa.Mask2D.circular(
        shape_native=(25, 41), radius=0.9, pixel_scales=(0.1, 0.07), centre=(-0.2, 0.35)
    ),
    "circ-origin": aa.Mask2D.circular(
        shape_native=(31, 27), radius=1.0, pixel_scales=(0.1, 0.1), origin=(0.7, -1.3), centre=(0.7, -1.3)
    ),
    "circ-touch-edge": aa.Mask2D.circular(
        shape_native=(20, 20), radius=2.0, pixel_scales=(0.2, 0.2), centre=(1.0, -1.0)
    ),
    "annulus": aa.Mask2D.circular_annular(
        shape_native=(40, 40), inner_radius=0.5, outer_radius=1.5, pixel_scales=(0.1, 0.1), centre=(0.3, 0.1)
    ),
    "all-unmasked": aa.Mask2D.all_false(shape_native=(7, 9), pixel_scales=(0.3, 0.5)),
    "single-pixel": aa.Mask2D(
        mask=np.array([[True, True, True], [True, False, True], [True, True, True]]), pixel_scales=1.0
    ),
    "two-pixels-asym": aa.Mask2D(
        mask=np.array(
            [[True, True, True, True], [True, False, False, True], [True, True, True, True]]
        ),
        pixel_scales=(1.0, 2.0),
        origin=(0.5, 0.25),
    ),
    "L-shape": aa.Mask2D(
        mask=np.array(
            [
                [True, True, True, True, True, True],
                [True, False, True, True, True, True],
                [True, False, True, True, True, True],
                [True, False, False, False, False, True],
                [True, True, True, True, True, True],
            ]
        ),
        pixel_scales=(0.5, 0.3),
    ),
}
try:
    masks["all-masked"] = aa.Mask2D.all_false(shape_native=(4, 4), pixel_scales=1.0, invert=True)
except Exception as e:  # noqa
    feed("all-masked-build", type(e).__name__)

for name, mask in masks.items():
    for sub_size in (1, 2, 3):
        relocator_case(f"{name}:s{sub_size}", mask, sub_size)
        relocator_case(f"{name}:s{sub_size}:nooutl", mask, sub_size, outliers=False)
    # distorted "source-plane" grid: shear + shift + mild non-linearity
    relocator_case(
        f"{name}:distort",
        mask,
        2,
        distort=lambda g: np.stack(
            [1.3 * g[:, 0] + 0.4 * g[:, 1] + 0.37 + 0.05 * g[:, 1] ** 2, -0.2 * g[:, 0] + 0.8 * g[:, 1] - 1.11],
            axis=1,
        ),
    )

# non-uniform sub-size map
m = masks["circ-nonsquare-aniso"]
sub_map = np.where(np.arange(m.pixels_in_mask) % 3 == 0, 4, 2)
relocator_case("submap", m, sub_map, use_map=True)
m = masks["L-shape"]
relocator_case("submap-L", m, np.array([1, 2, 3, 1, 2, 4][: m.pixels_in_mask]), use_map=True)

print("items", N[0])
print("exceptions", len(EXC), sorted(set(t for t, _ in EXC)))
print("digest", H.hexdigest())
