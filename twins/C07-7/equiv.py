"""
Differential test for `mapper_util.adaptive_pixel_signals_from` (C07-7 twin).

Prints one sha256 digest over: every returned array (dtype, shape, bytes), the type of every raised exception, and the
state (dtype, shape, bytes) of EVERY input array after each call (so in-place effects on the caller's arrays, e.g. on the
mapper's cached interpolation weights, change the digest). Run on the clean tree and on the twin tree: the two digests
must be identical.
"""
import hashlib
import os
import warnings

import numpy as np

warnings.filterwarnings("ignore")

import autoarray as aa
from autoarray.inversion.pixelization.mappers import mapper_util

H = hashlib.sha256()
N_RECORDS = [0]


def rec(tag, obj):
    N_RECORDS[0] += 1
    H.update(tag.encode())
    if isinstance(obj, BaseException):
        H.update(("EXC:" + type(obj).__name__).encode())
        if os.environ.get("EQUIV_VERBOSE"):
            print("EXC", tag, type(obj).__name__, str(obj)[:100])
    elif isinstance(obj, np.ndarray):
        H.update(str(obj.dtype).encode())
        H.update(str(obj.shape).encode())
        H.update(str(type(obj).__name__).encode())
        if obj.dtype == object or obj.dtype in (np.longdouble, np.clongdouble):  # longdouble has padding bytes
            H.update(repr(obj.tolist()).encode())
        else:
            H.update(np.ascontiguousarray(obj).tobytes())
    elif isinstance(obj, (list, tuple)):
        H.update(type(obj).__name__.encode())
        for i, o in enumerate(obj):
            rec(f"{tag}[{i}]", o)
    else:
        H.update((type(obj).__name__ + ":" + repr(obj)).encode())


def call_util(tag, repeats=3, **kwargs):
    """Call the util `repeats` times on the SAME input objects, recording result + all inputs after every call."""
    for r in range(repeats):
        try:
            with np.errstate(all="ignore"):
                out = mapper_util.adaptive_pixel_signals_from(**kwargs)
        except Exception as e:  # noqa
            out = e
        rec(f"{tag}/call{r}/out", out)
        for k in sorted(kwargs):
            rec(f"{tag}/call{r}/in:{k}", kwargs[k])


# ----------------------------------------------------------------------------------------------------------------
# 1) direct calls of the util with synthetic inputs
# ----------------------------------------------------------------------------------------------------------------


def synthetic(rng, pixels, n_slim, sub, max_size, wdtype=np.float64, adtype=np.float64, sizes=None):
    n_sub = n_slim * sub
    if sizes is None:
        # the util needs size == row width whenever size > 1 (Delaunay: 1 or 3); other sizes raise a broadcast error
        sizes = rng.choice([1, max_size], size=n_sub)
    elif isinstance(sizes, str) and sizes == "any":
        sizes = rng.integers(1, max_size + 1, size=n_sub)
    sizes = np.asarray(sizes, dtype=int)
    idx = -np.ones((n_sub, max_size), dtype=int)
    w = np.zeros((n_sub, max_size))
    for i in range(n_sub):
        s = sizes[i]
        idx[i, :s] = rng.choice(pixels, size=s, replace=(s > pixels))
        ww = rng.uniform(0.05, 1.0, size=s)
        w[i, :s] = ww / ww.sum()
    slim = np.repeat(np.arange(n_slim), sub)
    adapt = (0.1 + 5.0 * rng.uniform(size=n_slim)).astype(adtype)
    return dict(
        pixels=pixels,
        pixel_weights=w.astype(wdtype),
        signal_scale=float(rng.uniform(0.2, 3.0)),
        pix_indexes_for_sub_slim_index=idx,
        pix_size_for_sub_slim_index=sizes,
        slim_index_for_sub_slim_index=slim,
        adapt_data=adapt,
    )


rng = np.random.default_rng(12345)

case = 0
for pixels in (1, 2, 5, 13):
    for n_slim in (1, 4, 9):
        for sub in (1, 4):
            for max_size in (1, 3, 5):
                case += 1
                kw = synthetic(rng, pixels, n_slim, sub, max_size)
                call_util(f"syn{case}", **kw)
                if max_size > 1 and sub == 4:
                    call_util(f"syn{case}-anysizes", **synthetic(rng, pixels, n_slim, sub, max_size, sizes="any"))

# all sub-pixels interpolated (size == max_size == 3, the Delaunay interior case), all size 1, mixed with size 2
for sizes_kind in ("all3", "all1", "all2", "mix"):
    n_slim, sub, max_size, pixels = 6, 4, 3, 9
    n_sub = n_slim * sub
    sizes = {
        "all3": np.full(n_sub, 3),
        "all1": np.full(n_sub, 1),
        "all2": np.full(n_sub, 2),
        "mix": np.tile([1, 2, 3], n_sub // 3),
    }[sizes_kind]
    call_util(f"kind-{sizes_kind}", **synthetic(rng, pixels, n_slim, sub, max_size, sizes=sizes))

# dtype variations of the weights / adapt data (in-place multiply would behave differently: casting, errors)
for wdtype in (np.float64, np.float32, np.float16, np.int64, np.int32, np.complex128, np.longdouble):
    for adtype in (np.float64, np.float32, np.int64, np.complex128):
        kw = synthetic(rng, 7, 5, 4, 3, wdtype=wdtype, adtype=adtype)
        if np.issubdtype(wdtype, np.integer):
            kw["pixel_weights"] = rng.integers(1, 4, size=kw["pixel_weights"].shape).astype(wdtype)
        call_util(f"dtype-{np.dtype(wdtype).name}-{np.dtype(adtype).name}", **kw)

# read-only weights (what a caller may legitimately pass: the function must not need to write to them)
kw = synthetic(rng, 7, 5, 4, 3)
kw["pixel_weights"].setflags(write=False)
call_util("readonly-weights", **kw)
kw = synthetic(rng, 7, 5, 4, 3)
for k in ("pixel_weights", "pix_indexes_for_sub_slim_index", "pix_size_for_sub_slim_index",
          "slim_index_for_sub_slim_index", "adapt_data"):
    kw[k].setflags(write=False)
call_util("readonly-all", **kw)

# non-contiguous / Fortran-ordered / broadcast (stride-0) weights
kw = synthetic(rng, 7, 5, 4, 3)
kw["pixel_weights"] = np.asfortranarray(kw["pixel_weights"])
call_util("fortran-weights", **kw)
kw = synthetic(rng, 7, 5, 4, 3)
big = np.zeros((kw["pixel_weights"].shape[0], 6))
big[:, ::2] = kw["pixel_weights"]
kw["pixel_weights"] = big[:, ::2]
call_util("strided-weights", **kw)
rec("strided-weights/base", big)
kw = synthetic(rng, 7, 5, 4, 3, sizes=np.full(20, 3))
kw["pixel_weights"] = np.broadcast_to(np.array([0.2, 0.3, 0.5]), (20, 3))
call_util("broadcast-weights", **kw)

# weights given as nested python lists / tuple rows, adapt data as list
kw = synthetic(rng, 7, 5, 4, 3)
kw["pixel_weights"] = kw["pixel_weights"].tolist()
call_util("list-weights", **kw)
kw = synthetic(rng, 7, 5, 4, 3)
kw["pixel_weights"] = [tuple(r) for r in kw["pixel_weights"].tolist()]
kw["adapt_data"] = kw["adapt_data"].tolist()
call_util("tuple-rows-list-adapt", **kw)

# aa.Array2D adapt data passed directly (not converted with np.array)
kw = synthetic(rng, 7, 6, 4, 3)
kw["adapt_data"] = aa.Array2D.no_mask(values=kw["adapt_data"].reshape(2, 3), pixel_scales=(1.0, 0.5))
try:
    call_util("array2d-adapt", **kw)
except Exception as e:  # recording a wrapper object may fail the same way on both trees
    rec("array2d-adapt/recfail", e)

# special values in adapt data / weights: zeros, negatives, nan, inf, all-zero adapt (0/0 -> nan)
for name, vals in (
    ("zeros", np.zeros(5)),
    ("neg", np.array([-1.0, 2.0, -3.0, 0.5, 0.0])),
    ("nan", np.array([np.nan, 2.0, 1.0, 0.5, 3.0])),
    ("inf", np.array([np.inf, 2.0, 1.0, 0.5, 3.0])),
    ("ones", np.ones(5)),
):
    kw = synthetic(rng, 7, 5, 4, 3)
    kw["adapt_data"] = vals
    call_util(f"special-{name}", **kw)
kw = synthetic(rng, 7, 5, 4, 3)
kw["pixel_weights"][::3] = 0.0
kw["pixel_weights"][1, 0] = -0.0
call_util("special-zero-weights", **kw)

# empty cases
kw = synthetic(rng, 4, 3, 1, 3)
for k in ("pixel_weights", "pix_indexes_for_sub_slim_index"):
    kw[k] = kw[k][:0]
for k in ("pix_size_for_sub_slim_index", "slim_index_for_sub_slim_index"):
    kw[k] = kw[k][:0]
call_util("empty-sub", **kw)
kw["pixels"] = 0
call_util("empty-pixels", **kw)
kw = synthetic(rng, 4, 1, 1, 3, sizes=[3])
call_util("single-sub-size3", **kw)
kw = synthetic(rng, 4, 1, 1, 3, sizes=[1])
call_util("single-sub-size1", **kw)

# error cases (exception types must agree)
kw = synthetic(rng, 7, 5, 4, 3)
kw["adapt_data"] = kw["adapt_data"][:2]  # too short -> IndexError
call_util("err-adapt-short", **kw)
kw = synthetic(rng, 7, 5, 4, 3)
kw["adapt_data"] = None
call_util("err-adapt-none", **kw)
kw = synthetic(rng, 7, 5, 4, 3)
kw["pixel_weights"] = None
call_util("err-weights-none", **kw)
kw = synthetic(rng, 7, 5, 4, 3)
kw["pixel_weights"] = kw["pixel_weights"][:5]  # too few rows
call_util("err-weights-short", **kw)
kw = synthetic(rng, 7, 5, 4, 3)
kw["pixel_weights"] = kw["pixel_weights"][:, :2]  # rows shorter than pix_size -> broadcast error for size 3
call_util("err-weights-narrow", **kw)
kw = synthetic(rng, 7, 5, 4, 3)
kw["pixel_weights"] = np.hstack([kw["pixel_weights"], np.zeros((20, 2))])  # rows longer than pix_size
call_util("err-weights-wide", **kw)
kw = synthetic(rng, 7, 5, 4, 3)
kw["pixels"] = 3  # vertex indices out of range
call_util("err-pixels-small", **kw)
kw = synthetic(rng, 7, 5, 4, 3)
kw["pix_size_for_sub_slim_index"] = kw["pix_size_for_sub_slim_index"][:4]
call_util("err-sizes-short", **kw)
kw = synthetic(rng, 7, 5, 4, 3)
kw["pix_size_for_sub_slim_index"] = kw["pix_size_for_sub_slim_index"].astype(float)  # float slice bound
call_util("err-sizes-float", **kw)
kw = synthetic(rng, 7, 5, 4, 3)
kw["slim_index_for_sub_slim_index"] = kw["slim_index_for_sub_slim_index"].astype(float)
call_util("err-slim-float", **kw)
kw = synthetic(rng, 7, 5, 4, 3)
kw["pixel_weights"] = kw["pixel_weights"].astype(str)
call_util("err-weights-str", **kw)
kw = synthetic(rng, 7, 5, 4, 3)
kw["signal_scale"] = "a"
call_util("err-scale-str", **kw)

# the same weights array shared by two different calls (different adapt data), interleaved
kw1 = synthetic(rng, 7, 5, 4, 3)
kw2 = dict(kw1)
kw2["adapt_data"] = 0.3 + 2.0 * rng.uniform(size=5)
for r in range(3):
    call_util(f"shared-A{r}", repeats=1, **kw1)
    call_util(f"shared-B{r}", repeats=1, **kw2)

# ----------------------------------------------------------------------------------------------------------------
# 2) through the public API: mappers + adaptive regularization schemes, repeated calls on the same mapper
# ----------------------------------------------------------------------------------------------------------------


def mask_from(kind, shape, pixel_scales, origin):
    if kind == "full":
        return aa.Mask2D.all_false(shape_native=shape, pixel_scales=pixel_scales, origin=origin)
    m = np.ones(shape, dtype=bool)
    if kind == "edge":  # unmasked pixels touching the array edges
        m[0, :] = False
        m[:, -1] = False
        m[shape[0] // 2, shape[1] // 2] = False
    elif kind == "blob":
        m[1:-1, 1:-1] = False
        m[2, 2] = True
    elif kind == "single":
        m[shape[0] // 2, shape[1] // 2] = False
    return aa.Mask2D(mask=m, pixel_scales=pixel_scales, origin=origin)


def mapper_from(cls_name, mask, sub_size, mesh_yx, adapt_kind, rng_local, rect_shape=(3, 4)):
    over_sampler = aa.OverSamplerUniform(mask=mask, sub_size=sub_size)
    data_grid = over_sampler.over_sampled_grid
    if adapt_kind == "none":
        adapt = None
    elif adapt_kind == "ones":
        adapt = aa.Array2D(values=np.ones(mask.shape_native), mask=mask)
    else:
        adapt = aa.Array2D(values=0.2 + 4.0 * rng_local.uniform(size=mask.shape_native), mask=mask)
    if cls_name == "rect":
        mesh_grid = aa.Mesh2DRectangular.overlay_grid(shape_native=rect_shape, grid=data_grid)
        cls = aa.MapperRectangular
    elif cls_name == "delaunay":
        mesh_grid = aa.Mesh2DDelaunay(values=mesh_yx)
        cls = aa.MapperDelaunay
    else:
        mesh_grid = aa.Mesh2DVoronoi(values=mesh_yx)
        cls = aa.MapperVoronoi
    mapper_grids = aa.MapperGrids(
        mask=mask,
        source_plane_data_grid=data_grid,
        source_plane_mesh_grid=mesh_grid,
        image_plane_mesh_grid=None,
        adapt_data=adapt,
    )
    return cls(mapper_grids=mapper_grids, over_sampler=over_sampler, border_relocator=None, regularization=None)


def attempt(tag, fn):
    try:
        with np.errstate(all="ignore"):
            out = fn()
    except Exception as e:  # noqa
        out = e
    if not isinstance(out, BaseException):
        out = np.array(out)
    rec(tag, out)


REGS = [
    ("AB", lambda: aa.reg.AdaptiveBrightness(inner_coefficient=0.3, outer_coefficient=2.5, signal_scale=1.5)),
    ("ABS", lambda: aa.reg.AdaptiveBrightnessSplit(inner_coefficient=0.7, outer_coefficient=1.2, signal_scale=0.6)),
    ("BZ", lambda: aa.reg.BrightnessZeroth(coefficient=1.3, signal_scale=0.8)),
]

configs = []
for mask_kind, shape, ps, origin in (
    ("full", (6, 5), (0.5, 0.4), (0.0, 0.0)),
    ("full", (4, 7), (1.0, 1.0), (0.3, -0.2)),
    ("edge", (5, 6), (0.3, 0.6), (0.0, 0.0)),
    ("blob", (6, 6), (0.5, 0.5), (-1.0, 2.0)),
    ("single", (3, 3), (1.0, 2.0), (0.0, 0.0)),
):
    for sub_size in (1, 2):
        for adapt_kind in ("rand", "ones", "none"):
            configs.append((mask_kind, shape, ps, origin, sub_size, adapt_kind))

rng2 = np.random.default_rng(2024)
for ci, (mask_kind, shape, ps, origin, sub_size, adapt_kind) in enumerate(configs):
    mask = mask_from(mask_kind, shape, ps, origin)
    ext_y = shape[0] * ps[0] / 2.0
    ext_x = shape[1] * ps[1] / 2.0
    n_mesh = int(rng2.integers(6, 15))
    mesh_yx = np.column_stack(
        [
            origin[0] + rng2.uniform(-0.8 * ext_y, 0.8 * ext_y, n_mesh),
            origin[1] + rng2.uniform(-0.8 * ext_x, 0.8 * ext_x, n_mesh),
        ]
    )
    for cls_name in ("delaunay", "rect"):  # MapperVoronoi needs an optional C library that is not installed
        tag = f"api{ci}-{cls_name}"
        seed = int(rng2.integers(0, 2**31))
        try:
            mapper = mapper_from(cls_name, mask, sub_size, mesh_yx, adapt_kind, np.random.default_rng(seed))
        except Exception as e:  # noqa
            rec(tag + "/build", e)
            continue

        # order A: signals, weights, matrix, weights again, signals again, then mapping matrix built AFTERWARDS
        attempt(tag + "/w0", lambda: np.array(mapper.pix_weights_for_sub_slim_index))
        attempt(tag + "/sig1", lambda: mapper.pixel_signals_from(signal_scale=1.0))
        attempt(tag + "/sig2", lambda: mapper.pixel_signals_from(signal_scale=1.0))
        attempt(tag + "/sig3", lambda: mapper.pixel_signals_from(signal_scale=2.3))
        for rname, rmake in REGS:
            reg = rmake()
            attempt(tag + f"/{rname}/weights1", lambda: reg.regularization_weights_from(linear_obj=mapper))
            attempt(tag + f"/{rname}/matrix1", lambda: reg.regularization_matrix_from(linear_obj=mapper))
            attempt(tag + f"/{rname}/weights2", lambda: reg.regularization_weights_from(linear_obj=mapper))
            attempt(tag + f"/{rname}/matrix2", lambda: reg.regularization_matrix_from(linear_obj=mapper))
        attempt(tag + "/w1", lambda: np.array(mapper.pix_weights_for_sub_slim_index))
        attempt(tag + "/idx1", lambda: np.array(mapper.pix_indexes_for_sub_slim_index))
        attempt(tag + "/sizes1", lambda: np.array(mapper.pix_sizes_for_sub_slim_index))
        attempt(tag + "/mapping_matrix_after", lambda: mapper.mapping_matrix)
        attempt(tag + "/adapt_after", lambda: np.array(mapper.adapt_data))

        # order B on a fresh, identical mapper: mapping matrix first, matrix before weights
        try:
            mapper_b = mapper_from(cls_name, mask, sub_size, mesh_yx, adapt_kind, np.random.default_rng(seed))
        except Exception as e:  # noqa
            rec(tag + "/buildB", e)
            continue
        attempt(tag + "/B/mapping_matrix_first", lambda: mapper_b.mapping_matrix)
        for rname, rmake in REGS:
            reg = rmake()
            attempt(tag + f"/B/{rname}/matrix1", lambda: reg.regularization_matrix_from(linear_obj=mapper_b))
            attempt(tag + f"/B/{rname}/weights1", lambda: reg.regularization_weights_from(linear_obj=mapper_b))
        attempt(tag + "/B/w", lambda: np.array(mapper_b.pix_weights_for_sub_slim_index))

        # aliasing: is the cached weights object the same object before/after (not replaced)?
        try:
            w_obj_1 = mapper_b.pix_weights_for_sub_slim_index
            mapper_b.pixel_signals_from(signal_scale=1.0)
            w_obj_2 = mapper_b.pix_weights_for_sub_slim_index
            rec(tag + "/B/same-cache-object", bool(w_obj_1 is w_obj_2))
        except Exception as e:  # noqa
            rec(tag + "/B/same-cache-object", e)

# the exact trigger of the seed's demo
mask = aa.Mask2D.all_false(shape_native=(6, 5), pixel_scales=(0.5, 0.4))
over_sampler = aa.OverSamplerUniform(mask=mask, sub_size=2)
rng3 = np.random.default_rng(7)
yx = np.column_stack([rng3.uniform(-1.7, 1.7, 14), rng3.uniform(-1.2, 1.2, 14)])
adapt = aa.Array2D.no_mask(values=1.0 + 4.0 * rng3.uniform(size=(6, 5)), pixel_scales=(0.5, 0.4))
mapper_grids = aa.MapperGrids(
    mask=mask,
    source_plane_data_grid=over_sampler.over_sampled_grid,
    source_plane_mesh_grid=aa.Mesh2DDelaunay(values=yx),
    image_plane_mesh_grid=None,
    adapt_data=adapt,
)
mapper = aa.MapperDelaunay(
    mapper_grids=mapper_grids, over_sampler=over_sampler, border_relocator=None, regularization=None
)
reg = aa.reg.AdaptiveBrightness(inner_coefficient=0.3, outer_coefficient=2.5, signal_scale=1.5)
for r in range(4):
    attempt(f"demo/weights{r}", lambda: reg.regularization_weights_from(linear_obj=mapper))
    attempt(f"demo/matrix{r}", lambda: reg.regularization_matrix_from(linear_obj=mapper))
    attempt(f"demo/cached-weights{r}", lambda: np.array(mapper.pix_weights_for_sub_slim_index))
attempt("demo/mapping_matrix", lambda: mapper.mapping_matrix)

print("records", N_RECORDS[0])
print("digest", H.hexdigest())
