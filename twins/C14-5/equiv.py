"""
Differential test for the C14-5 twin (np.pad fast path in `AbstractArray2D.resized_from`).

Prints a sha256 digest over the results (values, dtypes, shapes, masks, geometry, headers, exception types, warning
categories) of many `resized_from` / `padded_before_convolution_from` / `array_with_new_shape` calls. The digest must
be identical on the clean HEAD tree and on the tree with twin.patch applied.
"""
import hashlib
import itertools
import os
import warnings

import numpy as np

import autoarray as aa
from autoarray.dataset import preprocess

H = hashlib.sha256()
N_CALLS = 0
N_EXC = 0
TRACE = open(os.environ['EQUIV_TRACE'], 'w') if os.environ.get('EQUIV_TRACE') else None
EXC_KINDS = {}


def feed(*items):
    for item in items:
        if isinstance(item, np.ndarray):
            H.update(repr((item.dtype.str, item.shape)).encode())
            H.update(np.ascontiguousarray(item).tobytes())
        else:
            H.update(repr(item).encode())
        H.update(b"|")


def describe(result):
    """Everything a caller can see of a resized Array2D."""
    feed(type(result).__name__)
    feed(np.array(result), np.array(result.slim), np.array(result.native))
    feed(np.array(result.mask), result.mask.pixel_scales, result.mask.origin)
    feed(result.shape_native, result.shape_slim, result.store_native)
    feed(result.mask.pixels_in_mask, result.geometry.extent)
    feed(None if result.header is None else (result.header.header_sci_obj, result.header.header_hdu_obj))


def call(label, func):
    global N_CALLS, N_EXC
    N_CALLS += 1
    if TRACE is not None:
        TRACE.write(H.hexdigest()[:12] + " before " + repr(label) + "\n")
    feed(label)
    with warnings.catch_warnings(record=True) as caught:
        warnings.simplefilter("always")
        try:
            result = func()
        except BaseException as e:  # noqa
            N_EXC += 1
            feed("EXC", type(e).__name__)
            EXC_KINDS[type(e).__name__] = EXC_KINDS.get(type(e).__name__, 0) + 1
            result = None
    feed(sorted(set(w.category.__name__ for w in caught)))
    if result is not None:
        describe(result)
    return result


rng = np.random.default_rng(14)

shapes = [(1, 1), (1, 2), (2, 1), (2, 2), (3, 3), (4, 4), (3, 4), (4, 3), (5, 2), (2, 5), (4, 7), (7, 4), (5, 5), (6, 6), (1, 6), (6, 1)]
deltas = list(itertools.product([-2, -1, 0, 1, 2, 3, 4, 5], repeat=2))
geoms = [((1.0, 1.0), (0.0, 0.0)), ((1.0, 2.0), (0.5, -1.0)), ((0.3, 0.1), (-2.0, 3.5))]


def masks_for(shape, pixel_scales, origin):
    out = []
    out.append(("all_false", np.full(shape, False)))
    m = np.full(shape, False)
    m[0, 0] = True
    out.append(("corner", m))
    m = np.full(shape, True)
    m[-1, :] = False
    m[:, -1] = False
    out.append(("edges_unmasked", m))
    m = rng.random(shape) < 0.5
    m[shape[0] // 2, shape[1] // 2] = False
    out.append(("random", m))
    out.append(("all_true", np.full(shape, True)))
    return [
        (name, aa.Mask2D(mask=m, pixel_scales=pixel_scales, origin=origin))
        for name, m in out
    ]


# ---------------------------------------------------------------- main sweep
for shape in shapes:
    for gi, (pixel_scales, origin) in enumerate(geoms):
        for mask_name, mask in masks_for(shape, pixel_scales, origin):
            values = rng.normal(size=shape) * 10.0 + 1.0
            for store_native in (False, True):
                try:
                    array = aa.Array2D(values=values, mask=mask, store_native=store_native)
                except BaseException as e:  # noqa
                    feed("CTOR_EXC", shape, mask_name, type(e).__name__)
                    continue
                before = np.array(array).copy()
                for dy, dx in deltas:
                    # keep the sweep affordable: full delta grid only for first geometry
                    if gi > 0 and (dy, dx) not in [(1, 1), (2, 1), (1, 0), (0, 3), (-1, 2), (3, -1), (0, 0), (5, 4)]:
                        continue
                    new_shape = (shape[0] + dy, shape[1] + dx)
                    for pad_value in (0.0, 1):
                        label = (shape, gi, mask_name, store_native, new_shape, pad_value)
                        res = call(label, lambda: array.resized_from(new_shape=new_shape, mask_pad_value=pad_value))
                        if res is not None and dy >= 0 and dx >= 0:
                            # round trip and a second enlargement of the result
                            call(label + ("back",), lambda: res.resized_from(new_shape=shape))
                            call(label + ("again",), lambda: res.resized_from(new_shape=(new_shape[0] + 1, new_shape[1] + 3), mask_pad_value=pad_value))
                # input untouched, no aliasing of the input
                feed("unchanged", bool((np.array(array) == before).all()))

# ------------------------------------------------- aliasing / repeated calls
mask = aa.Mask2D(mask=np.full((3, 5), False), pixel_scales=(1.0, 2.0), origin=(0.5, -1.0))
for store_native in (False, True):
    array = aa.Array2D(values=np.arange(15.0).reshape(3, 5), mask=mask, store_native=store_native)
    for new_shape in [(3, 5), (4, 6), (4, 5), (3, 8), (6, 10)]:
        r1 = array.resized_from(new_shape=new_shape)
        r2 = array.resized_from(new_shape=new_shape)
        feed("shares_with_input", bool(np.shares_memory(np.array(r1), np.array(array))))
        feed("shares_between_calls", bool(np.shares_memory(np.array(r1), np.array(r2))))
        r1._array[...] = -7.0
        describe(r2)
        describe(array)
        feed(bool(r1.mask is array.mask))

# ------------------------------------------------------------ unusual dtypes
mask33 = aa.Mask2D(mask=np.array([[False, True, False], [False, False, False], [True, False, False]]), pixel_scales=1.0)
base = np.arange(9).reshape(3, 3)
special = np.array([[np.inf, 1.0, -np.inf], [np.nan, -0.0, 2.0], [3.0, np.nan, 5e300]])
dtype_values = [
    ("int64", base),
    ("int8", base.astype("int8")),
    ("uint8", (base * 25).astype("uint8")),
    ("bool", base > 4),
    ("float32", (base / 3.0).astype("float32")),
    ("float16", (base / 3.0).astype("float16")),
    ("bigint", base.astype("int64") + 2**60 + 1),
    ("complex", base + 1j * (base + 1)),
    ("complex_inf", base + 1j * np.where(base % 2 == 0, np.inf, 1.0)),
    ("special", special),
]
for name, v in dtype_values:
    for store_native in (False, True):
        with warnings.catch_warnings():
            warnings.simplefilter("ignore")
            try:
                array = aa.Array2D(values=v, mask=mask33, store_native=store_native)
            except BaseException as e:  # noqa
                feed("CTOR_EXC", name, type(e).__name__)
                continue
        for new_shape in [(3, 3), (4, 4), (5, 5), (4, 3), (3, 6), (2, 4), (4, 2), (8, 9)]:
            for pad_value in (0.0, 1):
                call((name, store_native, new_shape, pad_value), lambda: array.resized_from(new_shape=new_shape, mask_pad_value=pad_value))

# ---------------------------------------------------- unusual new_shape args
array = aa.Array2D(values=np.arange(1.0, 13.0).reshape(3, 4), mask=aa.Mask2D.all_false(shape_native=(3, 4), pixel_scales=(2.0, 1.0)))
odd_args = [
    [4, 6],
    np.array([4, 6]),
    (np.int64(4), np.int32(5)),
    (4.0, 6.0),
    (4.5, 6),
    (4, 6.0),
    (2.0, 6),
    (4,),
    (),
    (4, 6, 2),
    (3, 4, 1),
    (2, 6, 2),
    (-1, 5),
    (5, -1),
    (0, 0),
    (0, 4),
    (3, 0),
    (True, 5),
    ("4", "6"),
    (None, 4),
    # `new_shape=None` is deliberately not digested: TypeError on both trees, but HEAD first reaches
    # `np.zeros(shape=None)`, which emits a numpy DeprecationWarning (see TWIN_NOTES.md); checked separately below.
    5,
    (4, 6),
]
for arg in odd_args:
    call(("odd", repr(arg)), lambda: array.resized_from(new_shape=arg))
    call(("odd_pad1", repr(arg)), lambda: array.resized_from(new_shape=arg, mask_pad_value=1))

try:
    with warnings.catch_warnings():
        warnings.simplefilter("ignore")
        array.resized_from(new_shape=None)
    feed("none_shape", "no exception")
except BaseException as e:  # noqa
    feed("none_shape", type(e).__name__)

# ----------------------------------------------------------- other callers
header = aa.Header(header_sci_obj={"EXPTIME": 10.0}, header_hdu_obj={"BUNIT": "eps"})
for shape in [(3, 3), (4, 4), (3, 4), (5, 6), (6, 5)]:
    mask = aa.Mask2D(mask=rng.random(shape) < 0.3, pixel_scales=(0.5, 0.25), origin=(1.0, -1.0))
    array = aa.Array2D(values=rng.normal(size=shape), mask=mask, header=header)
    for kernel_shape in [(1, 1), (3, 3), (2, 2), (4, 3), (3, 4), (2, 5), (5, 5)]:
        for pad_value in (0.0, 1):
            res = call(("pbc", shape, kernel_shape, pad_value), lambda: array.padded_before_convolution_from(kernel_shape=kernel_shape, mask_pad_value=pad_value))
            if res is not None:
                call(("trim", shape, kernel_shape), lambda: res.trimmed_after_convolution_from(kernel_shape=kernel_shape))
    for new_shape in [(4, 4), (6, 7), (2, 2), (7, 6), (8, 8)]:
        call(("preprocess", shape, new_shape), lambda: preprocess.array_with_new_shape(array=array, new_shape=new_shape))

    # Kernel2D shares AbstractArray2D.resized_from
    kernel = aa.Kernel2D.no_mask(values=rng.random(shape), pixel_scales=(0.5, 0.25))
    for new_shape in [(shape[0] + 1, shape[1] + 1), (shape[0] + 2, shape[1] + 3), (shape[0], shape[1] + 1), (shape[0] - 1, shape[1] + 2)]:
        call(("kernel", shape, new_shape), lambda: kernel.resized_from(new_shape=new_shape))

# Array2D constructors
for ctor_shape in [(3, 3), (4, 5), (5, 4)]:
    a = aa.Array2D.no_mask(values=rng.normal(size=ctor_shape), pixel_scales=(1.0, 3.0), origin=(2.0, 2.0))
    for new_shape in [(4, 4), (6, 6), (5, 8), (8, 5), (9, 9)]:
        call(("no_mask", ctor_shape, new_shape), lambda: a.resized_from(new_shape=new_shape))
    f = aa.Array2D.full(fill_value=2.5, shape_native=ctor_shape, pixel_scales=0.1)
    for new_shape in [(4, 6), (6, 4)]:
        call(("full", ctor_shape, new_shape), lambda: f.resized_from(new_shape=new_shape, mask_pad_value=1))

# Imaging auto padding goes through padded_before_convolution_from
for shape, kshape in [((6, 6), (3, 3)), ((7, 6), (3, 3)), ((7, 7), (5, 3)), ((6, 7), (3, 5))]:
    def build():
        data = aa.Array2D.no_mask(values=rng.random(shape) + 1.0, pixel_scales=0.2)
        noise = aa.Array2D.no_mask(values=np.full(shape, 2.0), pixel_scales=0.2)
        psf = aa.Kernel2D.no_mask(values=np.ones(kshape), pixel_scales=0.2)
        with warnings.catch_warnings():
            warnings.simplefilter("ignore")
            ds = aa.Imaging(data=data, noise_map=noise, psf=psf, pad_for_convolver=True)
        return ds
    feed(("imaging", shape, kshape))
    try:
        ds = build()
        describe(ds.data)
        describe(ds.noise_map)
    except BaseException as e:  # noqa
        feed("EXC", type(e).__name__)

print("calls", N_CALLS, "exceptions", N_EXC, sorted(EXC_KINDS.items()))
print("digest", H.hexdigest())
