"""
Differential test for the C15-8 twin (defensive copy of the preloaded curvature matrix).

Prints one sha256 digest over every observable recorded below. The digest must be identical on the clean HEAD tree
and on the tree with twin.patch applied.

Observables: values / dtypes / memory layout of the inversion outputs, raised exception types, bytes of the caller's
Preloads arrays before / after every inversion, identity of `inversion.preloads`, memory sharing between what the
inversion returns and what the caller preloaded, re-reads of `curvature_matrix` after `curvature_reg_matrix`, late
mutation of the Preloads object, `run_time_dict` keys.
"""
import copy
import hashlib
import itertools
import logging
import warnings

import numpy as np

warnings.filterwarnings("ignore")
logging.disable(logging.CRITICAL)

import autoarray as aa
from autoarray import fixtures as fx
from autoconf import conf

# `profile_func` needs this entry (absent from the default config) to fill a `run_time_dict`.
conf.instance["general"]["profiling"] = {"repeats": 1}

H = hashlib.sha256()
N_RECORDS = 0


def rec(tag, value):
    global N_RECORDS
    N_RECORDS += 1
    H.update(repr(tag).encode())
    if isinstance(value, np.ndarray):
        arr = np.asarray(value)
        H.update(type(value).__name__.encode())
        H.update(str(arr.dtype).encode())
        H.update(repr(arr.shape).encode())
        H.update(
            repr(
                (
                    arr.flags["C_CONTIGUOUS"],
                    arr.flags["F_CONTIGUOUS"],
                    arr.flags["WRITEABLE"],
                )
            ).encode()
        )
        H.update(np.ascontiguousarray(arr).tobytes())
    else:
        H.update(repr(value).encode())


def attempt(tag, func):
    try:
        value = func()
    except Exception as e:  # noqa
        rec(tag, ("EXC", type(e).__name__))
        return None
    rec(tag, value)
    return value


def make_dataset(seed):
    dataset = copy.deepcopy(fx.make_masked_imaging_7x7())
    rng = np.random.default_rng(seed)
    dataset.data[:] = rng.normal(1.0, 0.5, size=9)
    dataset.noise_map[:] = rng.uniform(0.5, 2.0, size=9)
    dataset.psf[0] = 0.1
    dataset.psf[4] = 0.9
    return dataset


def make_func(dataset, seed, parameters=2):
    grid = aa.Grid2D.from_mask(mask=dataset.mask)
    rng = np.random.default_rng(100 + seed)
    mapping_matrix = rng.uniform(0.1, 1.0, size=(9, parameters))
    return aa.m.MockLinearObjFuncList(
        parameters=parameters, grid=grid, mapping_matrix=mapping_matrix
    )


NAMES = [
    "data_vector",
    "curvature_matrix",
    "regularization_matrix",
    "curvature_reg_matrix",
    "curvature_matrix",
    "reconstruction",
    "curvature_matrix",
    "mapped_reconstructed_data",
    "regularization_term",
    "log_det_curvature_reg_matrix_term",
    "log_det_regularization_matrix_term",
    "curvature_reg_matrix",
    "curvature_matrix",
]

NAMES_RECON_FIRST = [
    "reconstruction",
    "curvature_matrix",
    "curvature_reg_matrix",
    "curvature_matrix",
    "log_det_curvature_reg_matrix_term",
]

SLOTS = [
    "curvature_matrix",
    "regularization_matrix",
    "log_det_regularization_matrix_term",
]


def slot_bytes(preloads):
    out = []
    for slot in SLOTS + ["operated_mapping_matrix", "curvature_matrix_mapper_diag"]:
        value = getattr(preloads, slot)
        if isinstance(value, np.ndarray):
            out.append((slot, hashlib.sha256(np.asarray(value).tobytes()).hexdigest()))
        else:
            out.append((slot, repr(value)))
    return out


def run_sequence(tag, dataset, linear_obj_list, settings, preloads, names, repeats=3):
    for k in range(repeats):
        try:
            inversion = aa.Inversion(
                dataset=dataset,
                linear_obj_list=linear_obj_list,
                settings=settings,
                preloads=preloads,
            )
        except Exception as e:  # noqa
            rec((tag, k, "construct"), ("EXC", type(e).__name__))
            continue

        rec((tag, k, "type"), type(inversion).__name__)
        rec((tag, k, "preloads_is"), inversion.preloads is preloads)

        for i, name in enumerate(names):
            value = attempt((tag, k, i, name), lambda: getattr(inversion, name))
            if (
                name == "curvature_matrix"
                and isinstance(value, np.ndarray)
                and preloads is not None
                and isinstance(preloads.curvature_matrix, np.ndarray)
            ):
                rec(
                    (tag, k, i, "shares_memory"),
                    bool(np.shares_memory(value, preloads.curvature_matrix)),
                )
                rec((tag, k, i, "is"), value is preloads.curvature_matrix)
                # Two accesses in a row return the same cached object.
                rec((tag, k, i, "cached"), value is getattr(inversion, name))
            if preloads is not None:
                rec((tag, k, i, "slots"), slot_bytes(preloads))

        rec((tag, k, "dict_keys"), sorted(inversion.__dict__.keys()))


def preloads_from(source, subset, transform=None):
    kwargs = {}
    for slot in subset:
        value = getattr(source, slot)
        if isinstance(value, np.ndarray):
            value = np.array(value)
            if transform is not None and slot == "curvature_matrix":
                value = transform(value)
        kwargs[slot] = value
    return aa.Preloads(**kwargs)


def mixes(dataset):
    rect = fx.make_rectangular_mapper_7x7_3x3()
    dela = fx.make_delaunay_mapper_9_3x3()
    rect_2 = fx.make_rectangular_mapper_7x7_3x3()
    func = make_func(dataset, 0)
    func_1 = make_func(dataset, 1, parameters=1)
    return {
        "rect": [rect],
        "dela": [dela],
        "rect+dela": [rect, dela],
        "rect+rect": [rect, rect_2],
        "func": [func],
        "func+rect": [func, rect],
        "rect+func": [rect, func],
        "rect+func+dela": [rect, func, dela],
        "func+func1+rect": [func, func_1, rect],
    }


def main():
    # ------------------------------------------------------------------------------------------------------------
    # 1. Main grid: formalism x solver x linear-object mix x preload subset x 3 successive inversions.
    # ------------------------------------------------------------------------------------------------------------
    for seed in [1, 2]:
        dataset = make_dataset(seed)
        for mix_name, linear_obj_list in mixes(dataset).items():
            for use_w_tilde, positive_only in itertools.product(
                [False, True], [False, True]
            ):
                if seed == 2 and positive_only:
                    continue
                settings = aa.SettingsInversion(
                    use_w_tilde=use_w_tilde, use_positive_only_solver=positive_only
                )
                base = (seed, mix_name, use_w_tilde, positive_only)

                run_sequence(
                    base + ("none",),
                    dataset,
                    linear_obj_list,
                    settings,
                    None,
                    NAMES,
                    repeats=1,
                )

                try:
                    source = aa.Inversion(
                        dataset=dataset,
                        linear_obj_list=linear_obj_list,
                        settings=settings,
                    )
                    source.curvature_matrix
                except Exception as e:  # noqa
                    rec(base + ("source",), ("EXC", type(e).__name__))
                    continue

                for r in range(len(SLOTS) + 1):
                    for subset in itertools.combinations(SLOTS, r):
                        try:
                            preloads = preloads_from(source, subset)
                        except Exception as e:  # noqa
                            rec(base + (subset, "preloads"), ("EXC", type(e).__name__))
                            continue
                        run_sequence(
                            base + (subset,),
                            dataset,
                            linear_obj_list,
                            settings,
                            preloads,
                            NAMES,
                        )
                        if "curvature_matrix" in subset:
                            preloads = preloads_from(source, subset)
                            run_sequence(
                                base + (subset, "recon_first"),
                                dataset,
                                linear_obj_list,
                                settings,
                                preloads,
                                NAMES_RECON_FIRST,
                            )

    # ------------------------------------------------------------------------------------------------------------
    # 2. Unusual preloaded curvature matrices: memory layouts, read-only, subclasses, views, non-arrays.
    # ------------------------------------------------------------------------------------------------------------
    dataset = make_dataset(3)
    all_mixes = mixes(dataset)

    class MyArray(np.ndarray):
        pass

    def readonly(a):
        a = np.array(a)
        a.setflags(write=False)
        return a

    def big_view(a):
        big = np.zeros((a.shape[0] * 2, a.shape[1] * 2))
        big[::2, ::2] = a
        return big[::2, ::2]

    transforms = {
        "fortran": lambda a: np.asfortranarray(a),
        "readonly": readonly,
        "subclass": lambda a: np.array(a).view(MyArray),
        "strided_view": big_view,
        "float32": lambda a: a.astype("float32"),
        "int": lambda a: np.round(a * 10).astype("int64"),
        "transposed": lambda a: np.array(a.T.copy()).T,
        "list": lambda a: a.tolist(),
        "tuple": lambda a: tuple(map(tuple, a.tolist())),
        "wrong_shape": lambda a: a[:-1, :-1].copy(),
        "zeros": lambda a: np.zeros_like(a),
        "array2d_like": lambda a: aa.ArrayIrregular(values=a[0]),
        "scalar": lambda a: 3.0,
        "string": lambda a: "not a matrix",
    }

    for mix_name in ["rect", "rect+dela", "rect+func"]:
        linear_obj_list = all_mixes[mix_name]
        for use_w_tilde in [False, True]:
            settings = aa.SettingsInversion(
                use_w_tilde=use_w_tilde, use_positive_only_solver=False
            )
            source = aa.Inversion(
                dataset=dataset, linear_obj_list=linear_obj_list, settings=settings
            )
            for t_name, transform in transforms.items():
                try:
                    preloads = preloads_from(
                        source, ("curvature_matrix",), transform=transform
                    )
                except Exception as e:  # noqa
                    rec((mix_name, use_w_tilde, t_name), ("EXC", type(e).__name__))
                    continue
                before = copy.deepcopy(preloads.curvature_matrix)
                run_sequence(
                    ("unusual", mix_name, use_w_tilde, t_name),
                    dataset,
                    linear_obj_list,
                    settings,
                    preloads,
                    NAMES,
                    repeats=2,
                )
                after = preloads.curvature_matrix
                rec(
                    ("unusual", mix_name, use_w_tilde, t_name, "type_after"),
                    type(after).__name__,
                )
                try:
                    same = bool(np.array_equal(np.asarray(before), np.asarray(after)))
                except Exception as e:  # noqa
                    same = ("EXC", type(e).__name__)
                rec(("unusual", mix_name, use_w_tilde, t_name, "unchanged"), same)

    # ------------------------------------------------------------------------------------------------------------
    # 3. The Preloads object is shared, not copied: identity, late mutation, two inversions interleaved.
    # ------------------------------------------------------------------------------------------------------------
    for use_w_tilde in [False, True]:
        settings = aa.SettingsInversion(
            use_w_tilde=use_w_tilde, use_positive_only_solver=False
        )
        linear_obj_list = all_mixes["rect"]
        source = aa.Inversion(
            dataset=dataset, linear_obj_list=linear_obj_list, settings=settings
        )
        F = np.array(source.curvature_matrix)

        # (a) slot filled AFTER the inversion was constructed.
        preloads = aa.Preloads()
        inversion = aa.Inversion(
            dataset=dataset,
            linear_obj_list=linear_obj_list,
            settings=settings,
            preloads=preloads,
        )
        rec(("late", use_w_tilde, "is"), inversion.preloads is preloads)
        preloads.curvature_matrix = 2.0 * F
        attempt(("late", use_w_tilde, "F"), lambda: inversion.curvature_matrix)
        attempt(("late", use_w_tilde, "recon"), lambda: inversion.reconstruction)
        # (b) slot replaced between `curvature_reg_matrix` and the re-read of `curvature_matrix`.
        preloads.curvature_matrix = 3.0 * F
        attempt(("late", use_w_tilde, "F2"), lambda: inversion.curvature_matrix)
        # (c) slot emptied again, the inversion goes back to computing.
        preloads.curvature_matrix = None
        attempt(("late", use_w_tilde, "F3-cached"), lambda: inversion.curvature_matrix)
        attempt(("late", use_w_tilde, "FH"), lambda: inversion.curvature_reg_matrix)
        inversion.__dict__.pop("curvature_reg_matrix", None)
        attempt(("late", use_w_tilde, "F4"), lambda: inversion.curvature_matrix)
        rec(("late", use_w_tilde, "slots"), slot_bytes(preloads))

        # (d) in-place edit of the preloaded array between inversions is picked up (the preload is read at access).
        preloads = aa.Preloads(curvature_matrix=np.array(F))
        inv_0 = aa.Inversion(
            dataset=dataset,
            linear_obj_list=linear_obj_list,
            settings=settings,
            preloads=preloads,
        )
        inv_1 = aa.Inversion(
            dataset=dataset,
            linear_obj_list=linear_obj_list,
            settings=settings,
            preloads=preloads,
        )
        attempt(("interleave", use_w_tilde, "0-recon"), lambda: inv_0.reconstruction)
        preloads.curvature_matrix[0, 0] += 1.0
        attempt(("interleave", use_w_tilde, "1-F"), lambda: inv_1.curvature_matrix)
        attempt(("interleave", use_w_tilde, "1-recon"), lambda: inv_1.reconstruction)
        attempt(("interleave", use_w_tilde, "0-F"), lambda: inv_0.curvature_matrix)
        attempt(("interleave", use_w_tilde, "1-F-again"), lambda: inv_1.curvature_matrix)
        rec(("interleave", use_w_tilde, "slots"), slot_bytes(preloads))

        # (e) writing into the matrix an inversion returned never reaches the preload or another inversion.
        preloads = aa.Preloads(curvature_matrix=np.array(F))
        inv_0 = aa.Inversion(
            dataset=dataset,
            linear_obj_list=linear_obj_list,
            settings=settings,
            preloads=preloads,
        )
        inv_0.curvature_matrix[:] = -7.0
        rec(("write", use_w_tilde, "slots"), slot_bytes(preloads))
        attempt(("write", use_w_tilde, "0-FH"), lambda: inv_0.curvature_reg_matrix)
        attempt(("write", use_w_tilde, "0-F"), lambda: inv_0.curvature_matrix)
        inv_1 = aa.Inversion(
            dataset=dataset,
            linear_obj_list=linear_obj_list,
            settings=settings,
            preloads=preloads,
        )
        attempt(("write", use_w_tilde, "1-recon"), lambda: inv_1.reconstruction)

        # (f) the class attributes visible on the public API of an inversion with preloads.
        rec(
            ("api", use_w_tilde),
            sorted(
                n
                for n in dir(type(inv_1))
                if not n.startswith("_") and "curvature" in n
            ),
        )

        # (g) profiling dictionary keys.
        run_time_dict = {}
        inversion = aa.Inversion(
            dataset=dataset,
            linear_obj_list=linear_obj_list,
            settings=settings,
            preloads=aa.Preloads(curvature_matrix=np.array(F)),
            run_time_dict=run_time_dict,
        )
        attempt(("profile", use_w_tilde, "recon"), lambda: inversion.reconstruction)
        attempt(("profile", use_w_tilde, "F"), lambda: inversion.curvature_matrix)
        rec(("profile", use_w_tilde, "keys"), sorted(run_time_dict.keys()))

    # ------------------------------------------------------------------------------------------------------------
    # 4. AbstractInversion.__init__ itself (shared by the interferometer classes, which need PyLops to be exercised):
    #    what is stored as `.preloads` for None / empty / filled / non-Preloads arguments.
    # ------------------------------------------------------------------------------------------------------------
    from autoarray.inversion.inversion.abstract import AbstractInversion

    rect = fx.make_rectangular_mapper_7x7_3x3()
    filled = aa.Preloads(curvature_matrix=np.eye(9))

    class Falsy:
        curvature_matrix = None

        def __bool__(self):
            return False

    for name, preloads in [
        ("none", None),
        ("empty", aa.Preloads()),
        ("filled", filled),
        ("falsy", Falsy()),
        ("string", "preloads"),
        ("zero", 0),
    ]:
        for cls in [
            AbstractInversion,
            aa.InversionImagingMapping,
            aa.InversionImagingWTilde,
        ]:
            try:
                kwargs = dict(
                    dataset=dataset,
                    linear_obj_list=[rect],
                    settings=aa.SettingsInversion(),
                    preloads=preloads,
                )
                if cls is aa.InversionImagingWTilde:
                    kwargs["w_tilde"] = dataset.w_tilde
                inversion = cls(**kwargs)
            except Exception as e:  # noqa
                rec(("init", name, cls.__name__), ("EXC", type(e).__name__))
                continue
            rec(("init", name, cls.__name__, "is"), inversion.preloads is preloads)
            rec(
                ("init", name, cls.__name__, "type"), type(inversion.preloads).__name__
            )
            attempt(
                ("init", name, cls.__name__, "F"), lambda: inversion.curvature_matrix
            )
            attempt(
                ("init", name, cls.__name__, "FH"),
                lambda: inversion.curvature_reg_matrix,
            )
            attempt(
                ("init", name, cls.__name__, "F2"), lambda: inversion.curvature_matrix
            )
    rec(("init", "filled", "slots"), slot_bytes(filled))

    print("records", N_RECORDS)
    print("digest", H.hexdigest())


if __name__ == "__main__":
    main()
