"""
Differential test for the C18-5 twin (sub_border_pixel_slim_indexes_from).

Prints a sha256 digest over the results (values, dtypes, shapes, exception types) of many calls. The digest must be
identical on the clean HEAD tree and on the tree with twin.patch applied.

    cd /tmp/wt8/C18-5 && PYTHONPATH=/tmp/wt8/C18-5 /venv/bin/python -W ignore equiv.py
"""
import hashlib
import os
import warnings

import numpy as np

warnings.filterwarnings("ignore")

import autoarray as aa
from autoarray.inversion.pixelization.border_relocator import (
    sub_border_pixel_slim_indexes_from,
    BorderRelocator,
)

H = hashlib.sha256()
N_OK = 0
N_EXC = 0


def feed(tag, value):
    H.update(repr(tag).encode())
    if isinstance(value, np.ndarray):
        H.update(str(value.dtype).encode())
        H.update(repr(value.shape).encode())
        H.update(np.ascontiguousarray(value).tobytes())
    else:
        H.update(repr(value).encode())


def run(tag, func):
    global N_OK, N_EXC
    try:
        value = func()
        N_OK += 1
    except Exception as e:  # noqa
        value = "EXC:" + type(e).__name__
        N_EXC += 1
    if not isinstance(value, (np.ndarray, str)):
        value = np.array(value)
    feed(tag, value)
    if os.environ.get("EQUIV_DUMP"):
        print("TAG", tag, value if isinstance(value, str) else (value.dtype, value.shape, hashlib.md5(value.tobytes()).hexdigest()))
    return value


# ---------------------------------------------------------------------------------------------------------------------
# masks
# ---------------------------------------------------------------------------------------------------------------------
rng = np.random.RandomState(1805)

masks = {}


def add(name, mask_2d):
    masks[name] = np.array(mask_2d, dtype=bool)


for shape, radius in [((9, 9), 3.0), ((13, 17), 5.0), ((17, 13), 5.5), ((7, 21), 3.2), ((21, 21), 9.0)]:
    add(
        f"circ{shape}",
        aa.Mask2D.circular(shape_native=shape, radius=radius, pixel_scales=(1.0, 1.0)),
    )
add(
    "circ_offcentre",
    aa.Mask2D.circular(shape_native=(15, 19), radius=4.0, pixel_scales=(1.0, 1.0), centre=(2.0, -3.0)),
)
add(
    "circ_aniso_origin",
    aa.Mask2D.circular(
        shape_native=(14, 18), radius=3.0, pixel_scales=(0.7, 0.4), origin=(0.3, -0.2), centre=(0.5, 0.1)
    ),
)
add(
    "ellip",
    aa.Mask2D.elliptical(
        shape_native=(13, 17), major_axis_radius=7.0, axis_ratio=0.6, angle=0.0, pixel_scales=(1.0, 1.0)
    ),
)
add(
    "ellip_rot",
    aa.Mask2D.elliptical(
        shape_native=(19, 15), major_axis_radius=6.0, axis_ratio=0.4, angle=35.0, pixel_scales=(1.0, 1.0)
    ),
)
add(
    "annular",
    aa.Mask2D.circular_annular(shape_native=(17, 17), inner_radius=2.5, outer_radius=7.0, pixel_scales=(1.0, 1.0)),
)
add("all_unmasked_5x7", np.full((5, 7), False))  # touches every edge
add("all_unmasked_1x1", np.full((1, 1), False))
add("all_unmasked_1x6", np.full((1, 6), False))
add("all_unmasked_6x1", np.full((6, 1), False))
add("all_masked_4x5", np.full((4, 5), True))

m = np.full((6, 8), True)
m[2, 3] = False
add("single_pixel", m)

m = np.full((7, 9), True)
m[0:3, 0:4] = False  # touches top-left corner / edges
add("corner_block", m)

m = np.full((8, 6), True)
m[3:8, 2:6] = False  # touches bottom and right edges
add("edge_block", m)

m = np.full((9, 9), True)
m[1:8, 1:8] = False
m[3:6, 3:6] = True
m[4, 4] = False  # ring + isolated interior pixel
add("ring_with_centre", m)

m = np.full((10, 12), True)
m[1:4, 1:4] = False
m[6:9, 7:11] = False  # two disjoint islands
add("two_islands", m)

m = np.full((9, 11), True)
m[4, 1:10] = False
m[1:8, 5] = False  # plus / cross shape
add("cross", m)

for k in range(8):
    shape = (int(rng.randint(3, 14)), int(rng.randint(3, 14)))
    add(f"random{k}{shape}", rng.rand(*shape) < rng.uniform(0.2, 0.8))


# ---------------------------------------------------------------------------------------------------------------------
# sub-size maps
# ---------------------------------------------------------------------------------------------------------------------
def sub_size_maps(name, n):
    local = np.random.RandomState(abs(hash_name(name)) % (2**31))
    out = {}
    for s in (1, 2, 3, 4):
        out[f"uniform{s}"] = np.full(n, s, dtype="int")
    out["random_1_5"] = local.randint(1, 6, size=n)
    out["random_1_3"] = local.randint(1, 4, size=n)
    out["random_2_8_int32"] = local.randint(2, 9, size=n).astype("int32")
    out["ascending"] = (1 + np.arange(n) % 4).astype("int")
    out["descending"] = (4 - np.arange(n) % 4).astype("int")
    if n > 0:
        first_big = np.ones(n, dtype="int")
        first_big[0] = 5
        out["first_big"] = first_big
        last_big = np.ones(n, dtype="int")
        last_big[-1] = 6
        out["last_big"] = last_big
        small_then_big = np.where(np.arange(n) < n // 2, 1, 4).astype("int")
        out["small_then_big"] = small_then_big
        out["big_then_small"] = small_then_big[::-1].copy()
    return out


def hash_name(name):
    return int(hashlib.md5(name.encode()).hexdigest()[:8], 16)


# ---------------------------------------------------------------------------------------------------------------------
# 1) the function itself
# ---------------------------------------------------------------------------------------------------------------------
for name, mask_2d in masks.items():
    n = int(np.sum(~mask_2d))
    for sname, sub_size in sub_size_maps(name, n).items():
        sub_before = sub_size.copy()
        mask_before = mask_2d.copy()
        run(
            ("func", name, sname),
            lambda: sub_border_pixel_slim_indexes_from(mask_2d=mask_2d, sub_size=sub_size),
        )
        # inputs must not be modified in place
        feed(("func-inputs", name, sname), np.array([(sub_before == sub_size).all(), (mask_before == mask_2d).all()]))

    # irregular / invalid inputs: only exception TYPES (or values) are compared
    if n > 0:
        with_zero = np.full(n, 2, dtype="int")
        with_zero[n // 2] = 0  # a pixel without sub-pixels (it may or may not be a border pixel)
        run(("func-zero-mid", name), lambda: sub_border_pixel_slim_indexes_from(mask_2d=mask_2d, sub_size=with_zero))
        zero_first = np.full(n, 2, dtype="int")
        zero_first[0] = 0  # the first unmasked pixel is always a border pixel
        run(("func-zero-first", name), lambda: sub_border_pixel_slim_indexes_from(mask_2d=mask_2d, sub_size=zero_first))
        run(
            ("func-float", name),
            lambda: sub_border_pixel_slim_indexes_from(mask_2d=mask_2d, sub_size=np.full(n, 2.0)),
        )
        run(
            ("func-short", name),
            lambda: sub_border_pixel_slim_indexes_from(mask_2d=mask_2d, sub_size=np.full(n - 1, 2, dtype="int")),
        )
        run(
            ("func-list", name),
            lambda: sub_border_pixel_slim_indexes_from(mask_2d=mask_2d, sub_size=[2] * n),
        )
        run(
            ("func-scalar", name),
            lambda: sub_border_pixel_slim_indexes_from(mask_2d=mask_2d, sub_size=2),
        )

# ---------------------------------------------------------------------------------------------------------------------
# 2) through BorderRelocator (Array2D sub-size maps, int sub-size, caching / repeated access, relocation)
# ---------------------------------------------------------------------------------------------------------------------
mask_objects = {
    "circ": aa.Mask2D.circular(shape_native=(13, 17), radius=5.0, pixel_scales=(1.0, 1.0)),
    "circ_aniso_origin": aa.Mask2D.circular(
        shape_native=(14, 18), radius=3.0, pixel_scales=(0.7, 0.4), origin=(0.3, -0.2), centre=(0.5, 0.1)
    ),
    "ellip": aa.Mask2D.elliptical(
        shape_native=(13, 17), major_axis_radius=7.0, axis_ratio=0.6, angle=0.0, pixel_scales=(1.0, 1.0)
    ),
    "annular": aa.Mask2D.circular_annular(
        shape_native=(17, 17), inner_radius=2.5, outer_radius=7.0, pixel_scales=(0.5, 0.5)
    ),
    "all_unmasked": aa.Mask2D.all_false(shape_native=(5, 7), pixel_scales=(2.0, 1.0), origin=(1.0, 1.0)),
    "edge_block": aa.Mask2D(mask=masks["edge_block"], pixel_scales=(1.0, 0.5)),
    "two_islands": aa.Mask2D(mask=masks["two_islands"], pixel_scales=0.3),
    "single_pixel": aa.Mask2D(mask=masks["single_pixel"], pixel_scales=1.0),
    "random3": aa.Mask2D(mask=[k for n_, k in masks.items() if n_.startswith("random3")][0], pixel_scales=1.0),
}

for name, mask in mask_objects.items():
    n = mask.pixels_in_mask
    pixel_grid = np.array(aa.Grid2D.from_mask(mask=mask))
    centre = pixel_grid.mean(axis=0)
    radii = np.sqrt(((pixel_grid - centre) ** 2).sum(axis=1))
    scale = max(radii.max(), 1e-9)
    adaptive = np.where(radii < 0.3 * scale, 4, np.where(radii < 0.6 * scale, 3, 2)).astype("int")
    inverse = np.where(radii < 0.3 * scale, 1, np.where(radii < 0.6 * scale, 2, 5)).astype("int")
    local = np.random.RandomState(hash_name(name) % (2**31))
    rand = local.randint(1, 5, size=n)

    variants = {"int1": 1, "int2": 2, "int3": 3}
    for vname, values in (("adaptive", adaptive), ("inverse", inverse), ("random", rand)):
        variants[vname] = aa.Array2D(values=values, mask=mask)

    for vname, sub_size in variants.items():
        tag = ("reloc", name, vname)
        # (only success / exception type of the constructor is hashed, not the object itself)
        ctor = run(tag + ("ctor",), lambda: type(BorderRelocator(mask=mask, sub_size=sub_size)).__name__)
        if ctor.startswith("EXC:"):
            continue
        relocator = BorderRelocator(mask=mask, sub_size=sub_size)
        first = run(tag + ("sub_border_slim",), lambda: np.array(relocator.sub_border_slim))
        run(tag + ("sub_border_slim-again",), lambda: np.array(relocator.sub_border_slim))
        run(tag + ("cached-identity",), lambda: relocator.sub_border_slim is relocator.sub_border_slim)
        run(tag + ("sub_border_grid",), lambda: np.array(relocator.sub_border_grid))
        run(tag + ("border_grid",), lambda: np.array(relocator.border_grid))
        run(tag + ("sub_size-after",), lambda: np.array(relocator.sub_size))

        # a second, independent relocator sharing the same mask / sub-size objects
        relocator_2 = BorderRelocator(mask=mask, sub_size=sub_size)
        run(tag + ("second",), lambda: np.array(relocator_2.sub_border_slim))

        # relocation of the (distorted) over-sampled grid and of a mesh grid
        def relocate():
            sub_grid = np.array(relocator.sub_grid)
            c = sub_grid.mean(axis=0)
            distorted = c + (sub_grid - c) * (1.0 + 0.8 * local.rand(sub_grid.shape[0], 1))
            grid = aa.Grid2DIrregular(values=distorted)
            relocated = relocator.relocated_grid_from(grid=grid)
            mesh = aa.Grid2DIrregular(values=c + 3.0 * scale * (local.rand(25, 2) - 0.5))
            relocated_mesh = relocator.relocated_mesh_grid_from(grid=grid, mesh_grid=mesh)
            return np.concatenate([np.array(relocated), np.array(relocated_mesh)], axis=0)

        run(tag + ("relocate",), relocate)

# the trigger of the seed notes, verbatim
mask = aa.Mask2D.elliptical(
    shape_native=(13, 17), major_axis_radius=7.0, axis_ratio=0.6, angle=0.0, pixel_scales=(1.0, 1.0), centre=(0.0, 0.0)
)
pixel_grid = np.array(aa.Grid2D.from_mask(mask=mask))
radii = np.sqrt(pixel_grid[:, 0] ** 2 + pixel_grid[:, 1] ** 2)
sub_size_map = np.where(radii < 1.5, 4, np.where(radii < 3.0, 3, 2)).astype("int")
relocator = BorderRelocator(mask=mask, sub_size=aa.Array2D(values=sub_size_map, mask=mask))
run(("trigger", "slim"), lambda: np.array(relocator.sub_border_slim))
run(("trigger", "grid"), lambda: np.array(relocator.sub_border_grid))

print(f"calls ok={N_OK} exceptions={N_EXC}")
print("DIGEST", H.hexdigest())
