"""
Differential test for the C06-6 twin (fast path for sub_size == 1 data pixels in
`mapper_util.data_slim_to_pixelization_unique_from`).

Prints a sha256 digest over every result (array dtype / shape / raw bytes, or the exception type when a call raises).
The digest must be identical on the clean HEAD tree and on the tree with twin.patch applied.

Run:  cd /tmp/wt8/C06-6 && PYTHONPATH=/tmp/wt8/C06-6 /venv/bin/python -W ignore equiv.py
"""
import hashlib
import sys
import warnings

import numpy as np

warnings.filterwarnings("ignore")

import autoarray as aa
from autoarray.inversion.pixelization.mappers import mapper_util

H = hashlib.sha256()
N_CASES = [0]
N_EXC = [0]


def feed(tag, obj):
    H.update(repr(tag).encode())
    if isinstance(obj, (tuple, list)):
        H.update(b"seq%d" % len(obj))
        for k, item in enumerate(obj):
            feed((tag, k), item)
    elif isinstance(obj, np.ndarray):
        arr = np.ascontiguousarray(obj)
        H.update(str(arr.dtype).encode())
        H.update(repr(arr.shape).encode())
        H.update(arr.tobytes())  # bit-exact (distinguishes -0.0 from 0.0, nan payloads, ...)
    else:
        H.update(repr(obj).encode())


def call_util(tag, **kwargs):
    """Call the kernel, digest the outputs or the exception type, and check the inputs were not modified."""
    N_CASES[0] += 1
    before = {
        k: (np.array(v, copy=True) if isinstance(v, np.ndarray) else v)
        for k, v in kwargs.items()
    }
    try:
        result = mapper_util.data_slim_to_pixelization_unique_from(**kwargs)
    except Exception as e:  # noqa
        N_EXC[0] += 1
        result = ("EXC", type(e).__name__)
    feed(tag, result)
    for k, v in kwargs.items():
        if isinstance(v, np.ndarray):
            same = v.dtype == before[k].dtype and v.tobytes() == before[k].tobytes()
            feed((tag, "input-unchanged", k), bool(same))
    return result


# ----------------------------------------------------------------------------------------------------------------------
# 1) direct calls of the kernel on random, well formed inputs
# ----------------------------------------------------------------------------------------------------------------------


def random_inputs(rng, data_pixels, pix_pixels, max_map, sub_choices, distinct=True, full_sizes=False):
    sub_size = rng.choice(sub_choices, size=data_pixels).astype("int")
    total = int(np.sum(sub_size**2))
    if full_sizes:
        sizes = np.full(total, max_map, dtype="int")
    else:
        sizes = rng.integers(1, max_map + 1, size=total).astype("int")
    idx = -1 * np.ones((total, max_map), dtype="int")
    wts = np.zeros((total, max_map))
    for s in range(total):
        n = sizes[s]
        if distinct and n <= pix_pixels:
            idx[s, :n] = rng.choice(pix_pixels, size=n, replace=False)
        else:
            idx[s, :n] = rng.integers(0, pix_pixels, size=n)
        w = rng.uniform(0.0, 1.0, size=n)
        wts[s, :n] = w / w.sum()
    return dict(
        data_pixels=data_pixels,
        pix_indexes_for_sub_slim_index=idx,
        pix_sizes_for_sub_slim_index=sizes,
        pix_weights_for_sub_slim_index=wts,
        pix_pixels=pix_pixels,
        sub_size=sub_size,
    )


rng = np.random.default_rng(20260603)

case = 0
for sub_choices in ([1], [2], [3], [1, 2], [1, 2, 3, 4], [1, 1, 1, 4], [2, 3], [1, 3]):
    for max_map in (1, 2, 3, 5):
        for data_pixels in (1, 2, 7, 19):
            for pix_pixels in (1, 3, 10):
                for distinct in (True, False):
                    kw = random_inputs(rng, data_pixels, pix_pixels, max_map, sub_choices, distinct=distinct)
                    call_util(("rand", case), **kw)
                    case += 1

# Delaunay-like: every sub pixel has either 3 distinct vertices or a single nearest vertex
for trial in range(40):
    kw = random_inputs(rng, 12, 9, 3, [1, 2, 1, 4, 1, 3], distinct=True)
    sizes = kw["pix_sizes_for_sub_slim_index"]
    sizes[:] = np.where(rng.uniform(size=sizes.shape) < 0.7, 3, 1)
    for s in range(sizes.shape[0]):
        kw["pix_indexes_for_sub_slim_index"][s, sizes[s] :] = -1
        w = kw["pix_weights_for_sub_slim_index"][s]
        w[sizes[s] :] = 0.0
        w[: sizes[s]] = rng.dirichlet(np.ones(sizes[s]))
    call_util(("delaunay-like", trial), **kw)

# specific orderings of the sub-size map (the seed's trigger: a 1 after a larger value)
for t, sub_map in enumerate(
    (
        [1, 1, 1, 1],
        [2, 1, 1, 1],
        [1, 2, 1, 1],
        [1, 1, 1, 2],
        [4, 1, 3, 1, 2, 1],
        [1, 1, 2, 2],
        [2, 2, 1, 1],
        [3, 1],
        [1, 3],
        [1],
        [2],
    )
):
    for max_map in (1, 3):
        for distinct in (True, False):
            kw = random_inputs(rng, len(sub_map), 6, max_map, [1], distinct=distinct)
            kw["sub_size"] = np.array(sub_map, dtype="int")
            total = int(np.sum(kw["sub_size"] ** 2))
            big = random_inputs(rng, total, 6, max_map, [1], distinct=distinct)
            for k in ("pix_indexes_for_sub_slim_index", "pix_sizes_for_sub_slim_index", "pix_weights_for_sub_slim_index"):
                kw[k] = big[k]
            call_util(("order", t, max_map, distinct), **kw)

# ----------------------------------------------------------------------------------------------------------------------
# 2) direct calls: edge cases and malformed inputs (duplicates, out of range / negative indexes, sizes which disagree
#    with the array widths, signed zeros, nan, integer weights, other integer dtypes, empty inputs, float sub_size)
# ----------------------------------------------------------------------------------------------------------------------

I = lambda x: np.array(x, dtype="int")  # noqa
F = lambda x: np.array(x, dtype="float")  # noqa

base = dict(
    data_pixels=3,
    pix_indexes_for_sub_slim_index=I([[0, 1, 2], [2, 0, -1], [1, 1, 0], [0, 2, 1], [2, -1, -1], [1, 2, -1]]),
    pix_sizes_for_sub_slim_index=I([3, 2, 3, 3, 1, 2]),
    pix_weights_for_sub_slim_index=F(
        [[0.2, 0.3, 0.5], [0.6, 0.4, 0.0], [0.1, 0.2, 0.7], [0.3, 0.3, 0.4], [1.0, 0.0, 0.0], [0.5, 0.5, 0.0]]
    ),
    pix_pixels=3,
    sub_size=I([1, 2, 1]),
)


def variant(**changes):
    kw = {k: (np.array(v, copy=True) if isinstance(v, np.ndarray) else v) for k, v in base.items()}
    kw.update(changes)
    return kw


call_util("edge-base", **variant())

# duplicated indexes inside the single sub-pixel of a sub_size 1 pixel (first / last / all pixels)
call_util("dup-first", **variant(pix_indexes_for_sub_slim_index=I([[1, 1, 2], [2, 0, -1], [1, 1, 0], [0, 2, 1], [2, -1, -1], [1, 2, -1]])))
call_util("dup-last", **variant(pix_indexes_for_sub_slim_index=I([[0, 1, 2], [2, 0, -1], [1, 1, 0], [0, 2, 1], [2, -1, -1], [2, 2, -1]])))
call_util("dup-triple", **variant(pix_indexes_for_sub_slim_index=I([[2, 2, 2], [2, 0, -1], [1, 1, 0], [0, 2, 1], [2, -1, -1], [1, 1, -1]])))
call_util(
    "dup-all-sub1",
    **variant(
        sub_size=I([1, 1, 1, 1, 1, 1]),
        data_pixels=6,
        pix_indexes_for_sub_slim_index=I([[0, 0, 2], [2, 2, -1], [1, 1, 1], [0, 2, 0], [2, -1, -1], [1, 2, -1]]),
    ),
)

# negative indexes inside the used part (numpy wrap-around in the original) and the alias -1 <-> pix_pixels - 1
call_util("neg-index", **variant(pix_indexes_for_sub_slim_index=I([[0, -1, 2], [2, 0, -1], [1, 1, 0], [0, 2, 1], [2, -1, -1], [-1, 2, -1]])))
call_util("neg-index-2", **variant(pix_indexes_for_sub_slim_index=I([[0, -2, 1], [2, 0, -1], [1, 1, 0], [0, 2, 1], [2, -1, -1], [-3, 0, -1]])))
call_util("neg-index-oob", **variant(pix_indexes_for_sub_slim_index=I([[0, -4, 1], [2, 0, -1], [1, 1, 0], [0, 2, 1], [2, -1, -1], [1, 0, -1]])))

# out of range indexes (IndexError in the original)
call_util("oob-first", **variant(pix_indexes_for_sub_slim_index=I([[0, 3, 2], [2, 0, -1], [1, 1, 0], [0, 2, 1], [2, -1, -1], [1, 2, -1]])))
call_util("oob-last", **variant(pix_indexes_for_sub_slim_index=I([[0, 1, 2], [2, 0, -1], [1, 1, 0], [0, 2, 1], [2, -1, -1], [1, 7, -1]])))
call_util("pix-pixels-small", **variant(pix_pixels=2))
call_util("pix-pixels-1", **variant(pix_pixels=1))
call_util("pix-pixels-0", **variant(pix_pixels=0))
call_util("pix-pixels-large", **variant(pix_pixels=50))

# sizes which disagree with the width of the index / weight arrays, zero and negative sizes
call_util("size-too-big-first", **variant(pix_sizes_for_sub_slim_index=I([4, 2, 3, 3, 1, 2])))
call_util("size-too-big-last", **variant(pix_sizes_for_sub_slim_index=I([3, 2, 3, 3, 1, 5])))
call_util("size-zero", **variant(pix_sizes_for_sub_slim_index=I([0, 2, 3, 3, 1, 0])))
call_util("size-negative", **variant(pix_sizes_for_sub_slim_index=I([-1, 2, 3, 3, 1, -2])))
call_util("size-all-zero", **variant(pix_sizes_for_sub_slim_index=I([0, 0, 0, 0, 0, 0])))
call_util("weights-narrow", **variant(pix_weights_for_sub_slim_index=F([[0.2, 0.8], [0.6, 0.4], [0.1, 0.9], [0.3, 0.7], [1.0, 0.0], [0.5, 0.5]])))
call_util(
    "weights-narrow-ok",
    **variant(
        pix_sizes_for_sub_slim_index=I([2, 2, 2, 2, 1, 2]),
        pix_weights_for_sub_slim_index=F([[0.2, 0.8], [0.6, 0.4], [0.1, 0.9], [0.3, 0.7], [1.0, 0.0], [0.5, 0.5]]),
    ),
)
call_util("weights-wide", **variant(pix_weights_for_sub_slim_index=np.hstack([base["pix_weights_for_sub_slim_index"], np.full((6, 2), 9.0)])))
call_util("too-few-rows", **variant(sub_size=I([1, 2, 2])))
call_util("too-few-rows-sub1", **variant(sub_size=I([2, 1, 1]), pix_sizes_for_sub_slim_index=I([3, 2, 3, 3, 1]), ))
call_util("extra-rows", **variant(sub_size=I([1, 1, 1])))
call_util("data-pixels-fewer", **variant(data_pixels=2))
call_util("data-pixels-more", **variant(data_pixels=4))
call_util("data-pixels-zero", **variant(data_pixels=0))
call_util(
    "all-empty",
    data_pixels=0,
    pix_indexes_for_sub_slim_index=np.zeros((0, 1), dtype="int"),
    pix_sizes_for_sub_slim_index=np.zeros(0, dtype="int"),
    pix_weights_for_sub_slim_index=np.zeros((0, 1)),
    pix_pixels=3,
    sub_size=np.zeros(0, dtype="int"),
)
call_util(
    "single",
    data_pixels=1,
    pix_indexes_for_sub_slim_index=I([[4]]),
    pix_sizes_for_sub_slim_index=I([1]),
    pix_weights_for_sub_slim_index=F([[1.0]]),
    pix_pixels=5,
    sub_size=I([1]),
)

# special weight values: signed zeros, nan, inf, negative, weights which do not sum to one, integer weights
call_util("neg-zero", **variant(pix_weights_for_sub_slim_index=F([[-0.0, 0.3, 0.7], [0.6, 0.4, 0.0], [0.1, 0.2, 0.7], [0.3, 0.3, 0.4], [1.0, 0.0, 0.0], [-0.0, -0.0, 0.0]])))
call_util("nan-inf", **variant(pix_weights_for_sub_slim_index=F([[np.nan, 0.3, np.inf], [0.6, 0.4, 0.0], [0.1, 0.2, 0.7], [0.3, 0.3, 0.4], [1.0, 0.0, 0.0], [-np.inf, np.nan, 0.0]])))
call_util("neg-weights", **variant(pix_weights_for_sub_slim_index=-3.7 * base["pix_weights_for_sub_slim_index"]))
call_util("int-weights", **variant(pix_weights_for_sub_slim_index=I([[1, 2, 3], [1, 1, 0], [4, 5, 6], [1, 1, 1], [1, 0, 0], [7, 8, 0]])))
call_util("f32-weights", **variant(pix_weights_for_sub_slim_index=base["pix_weights_for_sub_slim_index"].astype("float32")))
call_util("tiny-weights", **variant(pix_weights_for_sub_slim_index=5e-324 * np.ones((6, 3))))

# other dtypes of the integer arrays
for dt in ("int32", "int64", "int8", "uint8", "uint64"):
    call_util(("sub_size-dtype", dt), **variant(sub_size=base["sub_size"].astype(dt)))
    call_util(("sizes-dtype", dt), **variant(pix_sizes_for_sub_slim_index=base["pix_sizes_for_sub_slim_index"].astype(dt)))
    call_util(("index-dtype", dt), **variant(pix_indexes_for_sub_slim_index=base["pix_indexes_for_sub_slim_index"].astype(dt)))
call_util("sub_size-float", **variant(sub_size=F([1, 2, 1])))
call_util("sub_size-float-all1", **variant(sub_size=F([1, 1, 1])))
call_util("sub_size-float-single", **variant(data_pixels=1, sub_size=F([1])))
call_util("sub_size-bool", **variant(sub_size=np.array([True, True, True])))
call_util("sub_size-list", **variant(sub_size=[1, 2, 1]))
call_util("sub_size-zero", **variant(sub_size=I([1, 0, 1])))
call_util("sub_size-zero-2", **variant(sub_size=I([0, 1, 1])))
call_util("sizes-float", **variant(pix_sizes_for_sub_slim_index=F([3, 2, 3, 3, 1, 2])))
call_util("non-contiguous", **variant(
    pix_indexes_for_sub_slim_index=np.asfortranarray(base["pix_indexes_for_sub_slim_index"]),
    pix_weights_for_sub_slim_index=np.asfortranarray(base["pix_weights_for_sub_slim_index"]),
))

# repeated calls on the very same input objects; outputs must be fresh, independent arrays
kw = variant()
r1 = call_util("repeat-1", **kw)
r1[0][:] = 77.0
r1[1][:] = 77.0
r2 = call_util("repeat-2", **kw)
feed("repeat-alias", [bool(np.shares_memory(a, b)) for a in r2 for b in list(kw.values()) if isinstance(b, np.ndarray)])

# the unit test inputs of the repository
call_util(
    "unit-test-1",
    data_pixels=2,
    pix_indexes_for_sub_slim_index=I([[0], [0], [0], [1], [2], [1], [0], [2]]),
    pix_sizes_for_sub_slim_index=I([1, 1, 1, 1, 1, 1, 1, 1]),
    pix_weights_for_sub_slim_index=F([[1.0]] * 8),
    pix_pixels=3,
    sub_size=I([2, 2]),
)
call_util(
    "unit-test-2",
    data_pixels=2,
    pix_indexes_for_sub_slim_index=I([[0, 1], [0, 1], [0, 2], [1, -1], [2, -1], [1, -1], [0, -1], [2, -1]]),
    pix_sizes_for_sub_slim_index=I([2, 2, 2, 1, 1, 1, 1, 1]),
    pix_weights_for_sub_slim_index=F([[0.5, 0.5], [0.25, 0.75], [0.75, 0.25], [1.0, -1], [1.0, -1], [1.0, -1], [1.0, -1], [1.0, -1]]),
    pix_pixels=3,
    sub_size=I([2, 2]),
)

# ----------------------------------------------------------------------------------------------------------------------
# 3) through the public mapper API (rectangular + Delaunay), many masks / pixel scales / origins / sub-size maps
# ----------------------------------------------------------------------------------------------------------------------


def masks():
    out = []

    m = np.ones((6, 5), dtype=bool)
    m[0:5, 1:5] = False
    m[2, 2] = True
    out.append(("edge-6x5", aa.Mask2D(mask=m, pixel_scales=(1.0, 0.8), origin=(0.3, -0.2))))

    m = np.ones((7, 7), dtype=bool)
    yy, xx = np.mgrid[0:7, 0:7]
    r = np.hypot(yy - 3, xx - 3)
    m[(r < 3.3) & (r > 0.9)] = False
    out.append(("annulus-7x7", aa.Mask2D(mask=m, pixel_scales=0.5)))

    m = np.zeros((4, 7), dtype=bool)  # nothing masked: touches every edge
    out.append(("full-4x7", aa.Mask2D(mask=m, pixel_scales=(0.3, 1.3), origin=(-1.0, 2.0))))

    m = np.ones((5, 4), dtype=bool)
    m[2, 1] = False
    out.append(("single-pixel", aa.Mask2D(mask=m, pixel_scales=(2.0, 1.0), origin=(0.5, 0.5))))

    m = np.ones((3, 9), dtype=bool)
    m[1, :] = False
    m[0, 0] = False
    m[2, 8] = False
    out.append(("row-3x9", aa.Mask2D(mask=m, pixel_scales=(0.7, 0.2))))

    return out


def sub_maps(n, rng):
    maps = [
        ("u1", np.full(n, 1)),
        ("u2", np.full(n, 2)),
        ("u3", np.full(n, 3)),
        ("demo", np.array([1 + (3 * i + i // 4) % 4 for i in range(n)])),
        ("ones-last", np.array([2] * (n // 2) + [1] * (n - n // 2))),
        ("ones-first", np.array([1] * (n // 2) + [3] * (n - n // 2))),
        ("alternate", np.array([(4 if i % 2 == 0 else 1) for i in range(n)])),
        ("random", rng.integers(1, 5, size=n)),
        ("mostly-one", np.where(rng.uniform(size=n) < 0.2, 4, 1)),
    ]
    return [(name, np.asarray(v, dtype="int")) for name, v in maps]


def result_of(f):
    try:
        return f()
    except Exception as e:  # noqa
        N_EXC[0] += 1
        return ("EXC", type(e).__name__)


rng = np.random.default_rng(7)

for mask_name, mask in masks():
    n = mask.pixels_in_mask
    for map_name, sub_map in sub_maps(n, rng):
        sub_size = aa.Array2D(values=sub_map, mask=mask)
        over_sampler = aa.OverSamplerUniform(mask=mask, sub_size=sub_size)
        image_grid = np.array(over_sampler.over_sampled_grid)
        y, x = image_grid[:, 0], image_grid[:, 1]
        source = np.stack([0.9 * y + 0.1 * x + 0.02 * x * x, 1.1 * x - 0.05 * y + 0.02 * y * x], axis=1)
        source_plane_data_grid = aa.Grid2DIrregular(values=source)

        lo, hi = source.min(axis=0), source.max(axis=0)
        span = np.where(hi - lo > 0, hi - lo, 1.0)
        # vertices deliberately inside a shrunk box, so that many sub-pixels are outside the hull (pix size 1)
        verts = lo + span * rng.uniform(0.2, 0.8, size=(9, 2))

        meshes = []
        for shape_native in ((3, 3), (4, 3), (3, 5)):
            meshes.append((f"rect{shape_native}", lambda s=shape_native: aa.Mesh2DRectangular.overlay_grid(shape_native=s, grid=source)))
        meshes.append(("delaunay", lambda: aa.Mesh2DDelaunay(values=verts)))

        for mesh_name, mesh_f in meshes:
            tag = (mask_name, map_name, mesh_name)
            N_CASES[0] += 1

            def build():
                mapper_grids = aa.MapperGrids(
                    mask=mask,
                    source_plane_data_grid=source_plane_data_grid,
                    source_plane_mesh_grid=mesh_f(),
                )
                return aa.Mapper(mapper_grids=mapper_grids, over_sampler=over_sampler, regularization=None)

            mapper = result_of(build)
            if isinstance(mapper, tuple):
                feed(tag, mapper)
                continue

            def unique():
                um = mapper.unique_mappings
                return (um.data_to_pix_unique, um.data_weights, um.pix_lengths)

            u1 = result_of(unique)
            feed((tag, "unique-1"), u1)
            # a second evaluation on the same mapper (shared cached pix_sub_weights) and the inputs afterwards
            u2 = result_of(unique)
            feed((tag, "unique-2"), u2)
            feed((tag, "indexes"), result_of(lambda: np.array(mapper.pix_indexes_for_sub_slim_index)))
            feed((tag, "sizes"), result_of(lambda: np.array(mapper.pix_sizes_for_sub_slim_index)))
            feed((tag, "weights"), result_of(lambda: np.array(mapper.pix_weights_for_sub_slim_index)))
            feed((tag, "mapping_matrix"), result_of(lambda: np.array(mapper.mapping_matrix)))
            feed((tag, "sub_size"), np.array(over_sampler.sub_size))

            # internal consistency (same on both trees, but makes the script useful on its own)
            if isinstance(u1[0], str):
                continue
            dense = np.array(mapper.mapping_matrix)
            sparse = np.zeros_like(dense)
            for i in range(n):
                k = int(u1[2][i])
                sparse[i, u1[0][i, :k].astype("int")] += u1[1][i, :k]
            feed((tag, "consistent"), bool(np.abs(sparse - dense).max() < 1e-10))

# a float sub-size map through the public API (as produced by e.g. `OverSamplingUniform.from_radial_bins`)
mask = masks()[0][1]
N_CASES[0] += 1


def float_sub_size():
    sub_size = aa.Array2D(values=np.full(mask.pixels_in_mask, 1.0), mask=mask)
    over_sampler = aa.OverSamplerUniform(mask=mask, sub_size=sub_size)
    grid = np.array(over_sampler.over_sampled_grid)
    mapper_grids = aa.MapperGrids(
        mask=mask,
        source_plane_data_grid=aa.Grid2DIrregular(values=grid),
        source_plane_mesh_grid=aa.Mesh2DRectangular.overlay_grid(shape_native=(3, 3), grid=grid),
    )
    mapper = aa.Mapper(mapper_grids=mapper_grids, over_sampler=over_sampler, regularization=None)
    um = mapper.unique_mappings
    return (um.data_to_pix_unique, um.data_weights, um.pix_lengths)


feed("float-sub-size-api", result_of(float_sub_size))

print(f"cases {N_CASES[0]}  (of which raised: {N_EXC[0]})", file=sys.stderr)
print(H.hexdigest())
