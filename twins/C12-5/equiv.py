"""
Differential test for the C12-5 twin (Mask2D zoom geometry refactoring).

Prints a sha256 digest over the exact (bit-level) results, result types and raised exception types of every public
quantity touched by the refactoring, for a deterministic family of masks. Run it on the clean tree and on the twin
tree: the two digests must be identical.

    cd /tmp/wt8/C12-5 && PYTHONPATH=/tmp/wt8/C12-5 /venv/bin/python -W ignore equiv.py [dump.pkl]

If a file name is given the raw records are also pickled there (handy to locate a difference).
"""
import hashlib
import pickle
import sys
import warnings

import numpy as np

warnings.filterwarnings("ignore")

import autoarray as aa


def raw(arr):
    """Bytes of an array; NaNs are canonicalised first (the sign / payload of a NaN is not observable behaviour)."""
    arr = np.array(arr)
    if arr.dtype.kind == "f":
        arr = arr.copy()
        arr[np.isnan(arr)] = np.nan
    return arr.tobytes().hex()


def enc(obj):
    """Exact, type-aware encoding of a result (floats via float.hex so that every bit counts)."""
    if isinstance(obj, aa.Mask2D):
        return (
            "Mask2D",
            obj.shape_native,
            enc(obj.pixel_scales),
            enc(obj.origin),
            np.array(obj).astype("bool").tobytes().hex(),
        )
    if isinstance(obj, (aa.Array2D, aa.Grid2D)):
        return (
            type(obj).__name__,
            enc(obj.mask),
            str(np.array(obj).dtype),
            np.array(obj).shape,
            raw(obj),
            raw(obj.native),
        )
    if isinstance(obj, np.ndarray):
        return ("ndarray", str(obj.dtype), obj.shape, raw(obj))
    if isinstance(obj, (tuple, list)):
        return (type(obj).__name__, tuple(enc(o) for o in obj))
    if isinstance(obj, (float, np.floating)):
        return (type(obj).__name__, float(obj).hex() if np.isfinite(obj) else repr(float(obj)))
    if isinstance(obj, (int, np.integer)):
        return (type(obj).__name__, int(obj))
    return (type(obj).__name__, repr(obj))


def attempt(func):
    try:
        return ("ok", enc(func()))
    except Exception as e:  # noqa
        return ("raise", type(e).__name__)


def make_masks():
    rng = np.random.RandomState(12345)
    masks = []

    def add(name, arr):
        masks.append((name, np.array(arr, dtype=bool)))

    # hand made edge cases
    add("1x1_false", [[False]])
    add("1x1_true", [[True]])
    add("1x5_single", [[True, True, False, True, True]])
    add("1x5_edge", [[False, True, True, True, False]])
    add("5x1_edge", [[False], [True], [True], [False], [True]])
    add("all_true_4x6", np.full((4, 6), True))
    add("all_false_4x6", np.full((4, 6), False))
    add("all_false_7x7", np.full((7, 7), False))
    m = np.full((9, 12), True)
    m[1:4, 6:11] = False
    m[2, 5] = False
    add("notes_trigger_9x12", m)
    m = np.full((6, 6), True)
    m[0, 0] = False
    add("corner_tl", m)
    m = np.full((6, 6), True)
    m[5, 5] = False
    add("corner_br", m)
    m = np.full((6, 9), True)
    m[0, 8] = False
    m[5, 0] = False
    add("two_corners", m)
    m = np.full((8, 5), True)
    m[:, 2] = False
    add("full_column", m)
    m = np.full((5, 8), True)
    m[2, :] = False
    add("full_row", m)
    m = np.full((10, 10), True)
    m[0:2, 3:9] = False
    add("touch_top_wide", m)
    m = np.full((10, 10), True)
    m[3:9, 8:10] = False
    add("touch_right_tall", m)
    m = np.full((11, 4), True)
    m[1:10, 1:3] = False
    add("tall_region_narrow_array", m)

    # random ones: rectangles, sparse, dense
    for i in range(60):
        ny, nx = rng.randint(1, 14), rng.randint(1, 14)
        kind = i % 3
        if kind == 0:
            arr = np.full((ny, nx), True)
            y0 = rng.randint(0, ny)
            y1 = rng.randint(y0, ny)
            x0 = rng.randint(0, nx)
            x1 = rng.randint(x0, nx)
            arr[y0 : y1 + 1, x0 : x1 + 1] = False
        elif kind == 1:
            arr = rng.rand(ny, nx) > 0.15
            if arr.all():
                arr[rng.randint(0, ny), rng.randint(0, nx)] = False
        else:
            arr = rng.rand(ny, nx) > 0.7
        add("rand%d" % i, arr)

    return masks


PIXEL_SCALES = [
    1.0,
    (0.5, 0.2),
    (0.1, 0.3),
    0.05,
    (1.0 / 3.0, 0.7),
    (2.37, 0.013),
]

ORIGINS = [
    (0.0, 0.0),
    (1.0, 0.4),
    (1.7, -0.9),
    (-0.25, 3.5),
    (0.1, 0.1),
    (-123.456, 7.0 / 3.0),
    (1.0e6 + 0.1, -1.0e-7),
]


def records_for(name, arr, pixel_scales, origin):
    recs = []

    def mk():
        return aa.Mask2D(mask=arr.copy(), pixel_scales=pixel_scales, origin=origin)

    key = (name, repr(pixel_scales), repr(origin))

    for attr in [
        "shape_native_masked_pixels",
        "zoom_centre",
        "zoom_offset_pixels",
        "zoom_offset_scaled",
        "zoom_region",
        "zoom_shape_native",
        "zoom_mask_unmasked",
    ]:
        # fresh object per attribute, then all attributes on one shared object (repeated calls)
        recs.append((key, attr, "fresh", attempt(lambda: getattr(mk(), attr))))

    shared = mk()
    before = np.array(shared).copy()
    for rep in range(2):
        for attr in [
            "zoom_mask_unmasked",
            "zoom_offset_scaled",
            "zoom_region",
            "zoom_centre",
            "shape_native_masked_pixels",
            "zoom_offset_pixels",
            "zoom_shape_native",
        ]:
            recs.append((key, attr, "shared%d" % rep, attempt(lambda: getattr(shared, attr))))
    # the parent mask must not be modified
    recs.append((key, "parent_unchanged", enc(shared), bool((np.array(shared) == before).all())))

    # derived quantities of the zoomed mask (what the notes say breaks)
    def zoom_derived():
        zm = mk().zoom_mask_unmasked
        return (
            np.array(zm.derive_grid.all_false),
            np.array(zm.geometry.extent),
            zm.geometry.central_scaled_coordinates,
            np.array(aa.Grid2D.from_mask(mask=zm)),
        )

    recs.append((key, "zoom_derived", attempt(zoom_derived)))

    # consumers of zoom_region in Array2D
    def arr2d():
        mask = mk()
        values = np.arange(arr.size, dtype=float).reshape(arr.shape) + 0.5
        return aa.Array2D(values=values, mask=mask)

    for buffer in (0, 1, 2):
        recs.append(
            (key, "zoomed_around_mask", buffer, attempt(lambda: arr2d().zoomed_around_mask(buffer=buffer)))
        )
        recs.append(
            (
                key,
                "extent_of_zoomed_array",
                buffer,
                attempt(lambda: arr2d().extent_of_zoomed_array(buffer=buffer)),
            )
        )

    return recs


def main():
    all_recs = []
    masks = make_masks()
    for i, (name, arr) in enumerate(masks):
        for j, ps in enumerate(PIXEL_SCALES):
            for k, origin in enumerate(ORIGINS):
                # full cross product for the hand-made masks, a rotating subset for the random ones
                if name.startswith("rand") and (i + j + k) % 3 != 0:
                    continue
                all_recs.extend(records_for(name, arr, ps, origin))

    # exotic geometries (negative / zero pixel scales, non-finite or huge origins) on the hand-made masks only
    for name, arr in masks:
        if name.startswith("rand"):
            continue
        for ps, origin in [
            ((-0.5, 0.2), (1.0, 0.4)),
            ((0.5, -0.2), (1.7, -0.9)),
            ((0.0, 0.3), (1.0, 2.0)),
            ((0.1, 0.3), (float("nan"), 1.0)),
            ((0.1, 0.3), (float("inf"), -1.0)),
            ((1e-12, 1e12), (3.3e9, -7.7e-9)),
            ((1, 2), (0, 0)),
            ((2, 1), (3, -4)),
            ((np.float64(0.5), np.float64(0.2)), (np.float64(1.7), np.float64(-0.9))),
            ((np.float32(0.3), np.float32(0.7)), (np.float32(0.1), np.float32(2.3))),
            ((0.5, 0.2), [1.7, -0.9]),
            ((0.5, 0.2), np.array([1.7, -0.9])),
            ((0.5, 0.2), (None, 1.0)),
        ]:
            all_recs.extend(records_for(name, arr, ps, origin))

    # interferometer consumer of shape_native_masked_pixels is a plain read of the property: covered above.

    n_ok = sum(1 for r in all_recs if isinstance(r[-1], tuple) and r[-1][0] == "ok")
    n_raise = sum(1 for r in all_recs if isinstance(r[-1], tuple) and r[-1][0] == "raise")

    digest = hashlib.sha256(repr(all_recs).encode()).hexdigest()
    print("records", len(all_recs), "ok", n_ok, "raise", n_raise)
    print("digest", digest)

    if len(sys.argv) > 1:
        with open(sys.argv[1], "wb") as f:
            pickle.dump(all_recs, f)


if __name__ == "__main__":
    main()
