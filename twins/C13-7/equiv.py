"""
Differential test for the C13-7 twin (`InversionInterferometerMapping.curvature_matrix`).

Prints a sha256 digest over every value (bytes, dtype, shape, type name), every raised exception type and every
caller-visible side effect (contents of the cached / preloaded `operated_mapping_matrix`, of the caller's noise map,
order-of-read dependence, re-computation after `curvature_reg_matrix` dropped the cache, array identity of repeated
reads) observed on a fixed set of scenarios. The digest must be identical on the clean HEAD tree and on the twin tree.

EQUIV_DUMP=<file> additionally writes one line per observation (to diff two trees); EQUIV_OUT_OF_DOMAIN=1 adds the
ill-formed inputs (2D noise map, complex64 noise map with complex64 matrix, 1D operated matrix) on which the twin is
KNOWN to differ from HEAD because of the pre-allocated float64 accumulator (documented in TWIN_NOTES.md).

    cd /tmp/wt10/C13-7 && PYTHONPATH=/tmp/wt10/C13-7 /venv/bin/python -W ignore equiv.py
"""
import sys
import types
import hashlib
import itertools
import warnings

warnings.simplefilter("ignore")

# minimal stand-in for the optional PyLops base class of the transformers
pylops = types.ModuleType("pylops")


class LinearOperator:
    def __init__(self, *args, **kwargs):
        pass


pylops.LinearOperator = LinearOperator
sys.modules["pylops"] = pylops

import numpy as np
import autoarray as aa

np.seterr(all="ignore")

import os

H = hashlib.sha256()
OUT_OF_DOMAIN = bool(os.environ.get("EQUIV_OUT_OF_DOMAIN"))
DUMP = open(os.environ["EQUIV_DUMP"], "w") if os.environ.get("EQUIV_DUMP") else None
N_RECORDS = [0]


def rec(label, value):
    """Add one labelled observation to the digest (EQUIV_DUMP=<file> also writes one line per observation)."""
    N_RECORDS[0] += 1
    if DUMP is not None:
        if isinstance(value, BaseException):
            DUMP.write("%s\tEXC:%s\n" % (label, type(value).__name__))
        elif isinstance(value, np.ndarray) or hasattr(value, "_array"):
            arr = np.array(value)
            DUMP.write(
                "%s\t%s:%s:%s:%s\n"
                % (
                    label,
                    type(value).__name__,
                    arr.dtype,
                    arr.shape,
                    hashlib.sha256(np.ascontiguousarray(arr).tobytes()).hexdigest()[:16],
                )
            )
        else:
            DUMP.write("%s\t%r\n" % (label, value))
    H.update(label.encode())
    H.update(b"|")
    if isinstance(value, BaseException):
        H.update(("EXC:" + type(value).__name__).encode())
    elif isinstance(value, np.ndarray):
        H.update(
            ("ND:%s:%s:%s:" % (type(value).__name__, value.dtype, value.shape)).encode()
        )
        H.update(np.ascontiguousarray(value).tobytes())
    elif hasattr(value, "_array"):
        arr = np.array(value)
        H.update(("AA:%s:%s:%s:" % (type(value).__name__, arr.dtype, arr.shape)).encode())
        H.update(np.ascontiguousarray(arr).tobytes())
    else:
        H.update(("PY:%s:%r" % (type(value).__name__, value)).encode())
    H.update(b"\n")


def attempt(label, func):
    try:
        value = func()
    except Exception as e:  # noqa
        rec(label, e)
        return None
    rec(label, value)
    return value


# ---------------------------------------------------------------------------------------------------------------
# Part A : full inversions through TransformerDFT (real datasets, real structures)
# ---------------------------------------------------------------------------------------------------------------

MASKS = {
    "2x3_aniso_origin": dict(
        mask=[[True, False, False], [False, False, True]],
        pixel_scales=(0.3, 0.2),
        origin=(0.1, -0.2),
    ),
    "3x3_edges": dict(
        mask=[[False, False, False], [False, True, False], [False, False, False]],
        pixel_scales=0.05,
        origin=(0.0, 0.0),
    ),
    "4x2_single_column": dict(
        mask=[[True, False], [True, False], [True, False], [True, False]],
        pixel_scales=(1.0, 2.0),
        origin=(-3.0, 5.0),
    ),
    "1x1_single_pixel": dict(mask=[[False]], pixel_scales=0.7, origin=(0.3, 0.4)),
}


def make_case(rng, mask_kwargs, n_vis, n_params_list, noise_kind):
    mask = aa.Mask2D(**mask_kwargs)
    n_pix = int(mask.pixels_in_mask)
    uv = rng.uniform(-3.0e5, 3.0e5, size=(n_vis, 2))
    if n_vis > 1:
        uv[1] = 0.0
    if n_vis > 3:
        uv[3] = uv[2]
    vis = rng.normal(size=n_vis) + 1j * rng.normal(size=n_vis)
    if noise_kind == "unit":
        noise = np.ones(n_vis) + 1j * np.ones(n_vis)
    elif noise_kind == "generic":
        noise = rng.uniform(0.2, 3.0, size=n_vis) + 1j * rng.uniform(0.2, 3.0, size=n_vis)
    elif noise_kind == "tiny_huge":
        noise = 10.0 ** rng.uniform(-6, 6, size=n_vis) + 1j * 10.0 ** rng.uniform(
            -6, 6, size=n_vis
        )
    else:
        raise ValueError(noise_kind)
    mapping_matrices = []
    for k, n_params in enumerate(n_params_list):
        m = rng.normal(size=(n_pix, n_params))
        m[rng.uniform(size=m.shape) < 0.3] = 0.0
        if n_params > 1 and k == 0:
            m[:, -1] = 0.0  # a source pixel nothing maps to
        mapping_matrices.append(m)
    return mask, uv, vis, noise, mapping_matrices


def build_inversion(
    mask,
    uv,
    vis,
    noise,
    mapping_matrices,
    preload_transform,
    reg_kinds,
    diag_value,
    preload_operated=None,
    raw_noise=False,
):
    transformer = aa.TransformerDFT(
        uv_wavelengths=uv, real_space_mask=mask, preload_transform=preload_transform
    )
    noise_obj = noise if raw_noise else aa.VisibilitiesNoiseMap(visibilities=noise)
    dataset = aa.DatasetInterface(
        data=aa.Visibilities(visibilities=vis),
        noise_map=noise_obj,
        transformer=transformer,
    )
    linear_obj_list = []
    for m, reg_kind in zip(mapping_matrices, reg_kinds):
        n = m.shape[1]
        if reg_kind is None:
            reg = None
        else:
            reg = aa.m.MockRegularization(
                regularization_matrix=reg_kind * (np.eye(n) + 0.1 * np.ones((n, n)))
            )
        linear_obj_list.append(
            aa.m.MockLinearObj(parameters=n, mapping_matrix=m, regularization=reg)
        )
    preloads = (
        aa.Preloads(operated_mapping_matrix=preload_operated)
        if preload_operated is not None
        else aa.Preloads()
    )
    inversion = aa.InversionInterferometerMapping(
        dataset=dataset,
        linear_obj_list=linear_obj_list,
        settings=aa.SettingsInversion(
            no_regularization_add_to_curvature_diag_value=diag_value,
            use_positive_only_solver=False,
        ),
        preloads=preloads,
    )
    return inversion, noise_obj


READ_ORDERS = [
    ("data_vector", "curvature_matrix", "operated_mapping_matrix"),
    ("curvature_matrix", "data_vector", "operated_mapping_matrix"),
    ("curvature_matrix", "curvature_matrix", "data_vector"),
    ("curvature_reg_matrix", "curvature_matrix", "data_vector", "curvature_matrix"),
    ("curvature_matrix", "curvature_reg_matrix", "curvature_matrix", "data_vector"),
    ("operated_mapping_matrix", "curvature_matrix", "operated_mapping_matrix"),
    ("curvature_reg_matrix", "data_vector", "reconstruction"),
    ("reconstruction", "curvature_matrix", "data_vector", "operated_mapping_matrix"),
    ("curvature_matrix", "reconstruction", "mapped_reconstructed_data"),
    ("curvature_matrix", "curvature_reg_matrix_reduced", "data_vector"),
]


def run_reads(tag, inversion, noise_obj, order):
    noise_before = np.array(noise_obj).copy()
    seen = {}
    for i, name in enumerate(order):
        value = attempt("%s/%d:%s" % (tag, i, name), lambda: getattr(inversion, name))
        if value is not None and isinstance(value, np.ndarray):
            if name in seen:
                rec("%s/%d:%s:same_object" % (tag, i, name), value is seen[name])
            seen[name] = value
    rec(tag + "/final_operated", np.array(inversion.operated_mapping_matrix))
    rec(tag + "/noise_unchanged", bool(np.array_equal(np.array(noise_obj), noise_before)))
    rec(tag + "/dict_keys", sorted(k for k in inversion.__dict__ if "matri" in k or "vector" in k))


def part_a():
    rng = np.random.default_rng(20131307)
    configs = [
        # mask name, n_vis, params per linear obj, noise kind, reg kinds, diag value
        ("2x3_aniso_origin", 5, [2], "generic", [None], 0.0),
        ("2x3_aniso_origin", 5, [2], "generic", [None], 1.0e-3),
        ("2x3_aniso_origin", 5, [3], "generic", [1.5], 0.0),
        ("2x3_aniso_origin", 7, [3, 2], "generic", [1.5, None], 1.0e-8),
        ("2x3_aniso_origin", 7, [3, 2], "tiny_huge", [0.5, 2.0], 0.0),
        ("3x3_edges", 1, [4], "generic", [1.0], 0.0),
        ("3x3_edges", 6, [4], "unit", [None], True),
        ("3x3_edges", 9, [2, 2, 1], "generic", [None, 0.7, None], 1.0e-4),
        ("4x2_single_column", 4, [1], "generic", [2.0], 0.0),
        ("4x2_single_column", 3, [5], "tiny_huge", [None], 0.0),
        ("1x1_single_pixel", 2, [1], "generic", [None], 0.0),
        ("1x1_single_pixel", 1, [1], "generic", [3.0], 0.0),
    ]
    for ci, (mname, n_vis, params, nkind, regs, diag) in enumerate(configs):
        case = make_case(rng, MASKS[mname], n_vis, params, nkind)
        for preload_transform in (True, False):
            for oi, order in enumerate(READ_ORDERS):
                tag = "A%d/%s/pre%d/ord%d" % (ci, mname, preload_transform, oi)
                try:
                    inversion, noise_obj = build_inversion(
                        *case,
                        preload_transform=preload_transform,
                        reg_kinds=regs,
                        diag_value=diag,
                    )
                except Exception as e:  # noqa
                    rec(tag + "/build", e)
                    continue
                run_reads(tag, inversion, noise_obj, order)

    # caller-owned preloaded operated mapping matrix, shared by several inversions
    for ci, (mname, n_vis, params, nkind, regs, diag) in enumerate(configs[:6]):
        case = make_case(rng, MASKS[mname], n_vis, params, nkind)
        first, _ = build_inversion(
            *case, preload_transform=True, reg_kinds=regs, diag_value=diag
        )
        shared = np.array(first.operated_mapping_matrix)
        shared_copy = shared.copy()
        for rep in range(3):
            for oi, order in enumerate(READ_ORDERS[:6]):
                tag = "Apre%d/rep%d/ord%d" % (ci, rep, oi)
                inversion, noise_obj = build_inversion(
                    *case,
                    preload_transform=bool(rep % 2),
                    reg_kinds=regs,
                    diag_value=diag,
                    preload_operated=shared,
                )
                run_reads(tag, inversion, noise_obj, order)
                rec(tag + "/is_shared", inversion.operated_mapping_matrix is shared)
                rec(tag + "/shared_bytes", shared)
        rec("Apre%d/shared_intact" % ci, bool(np.array_equal(shared, shared_copy)))

    # noise map handed over as a plain complex ndarray (as the pinned unit test does) and shared by inversions
    case = make_case(rng, MASKS["2x3_aniso_origin"], 6, [3], "generic")
    for rep in range(2):
        for oi, order in enumerate(READ_ORDERS[:6]):
            tag = "Araw/rep%d/ord%d" % (rep, oi)
            inversion, noise_obj = build_inversion(
                *case,
                preload_transform=True,
                reg_kinds=[1.0],
                diag_value=0.0,
                raw_noise=True,
            )
            run_reads(tag, inversion, noise_obj, order)
    rec("Araw/noise_final", case[3])


# ---------------------------------------------------------------------------------------------------------------
# Part B : MockInversionInterferometer with hand-made operated matrices (dtypes, layouts, degenerate and bad inputs)
# ---------------------------------------------------------------------------------------------------------------


def mock_inversion(operated, noise, n_params, diag_value, with_reg=False):
    if with_reg:
        reg = aa.m.MockRegularization(regularization_matrix=2.0 * np.eye(n_params))
    else:
        reg = None
    return aa.m.MockInversionInterferometer(
        linear_obj_list=[aa.m.MockLinearObj(parameters=n_params, regularization=reg)],
        operated_mapping_matrix=operated,
        noise_map=noise,
        settings=aa.SettingsInversion(no_regularization_add_to_curvature_diag_value=diag_value),
    )


def part_b():
    rng = np.random.default_rng(77)

    def cplx(shape):
        return rng.normal(size=shape) + 1j * rng.normal(size=shape)

    operated_cases = {}
    for n_vis, n_params in [(1, 1), (1, 3), (2, 3), (5, 1), (6, 4), (17, 9), (0, 3), (4, 0), (0, 0)]:
        operated_cases["c128_%dx%d" % (n_vis, n_params)] = (cplx((n_vis, n_params)), n_vis)
    operated_cases["fortran_6x4"] = (np.asfortranarray(cplx((6, 4))), 6)
    operated_cases["strided_6x4"] = (cplx((12, 8))[::2, ::2], 6)
    operated_cases["transposed_6x4"] = (cplx((4, 6)).T, 6)
    z = cplx((6, 4))
    z[:, 1] = 0.0
    z[:, 2] = -np.abs(z[:, 2].real) + 0.0j
    z[2, :] = 0.0
    operated_cases["zero_col_neg_col_6x4"] = (z, 6)
    z = cplx((1, 3))
    z[0, 0] = 0.0
    z[0, 1] = -1.0 - 2.0j
    operated_cases["one_row_zero_entry"] = (z, 1)
    z = cplx((5, 3))
    z[1, 1] = np.nan
    z[3, 2] = np.inf
    operated_cases["nan_inf_5x3"] = (z, 5)
    operated_cases["float64_real_6x4"] = (rng.normal(size=(6, 4)), 6)
    operated_cases["int_real_3x2"] = (np.array([[1, 2], [3, 4], [5, 6]]), 3)
    operated_cases["complex64_6x4"] = (cplx((6, 4)).astype("complex64"), 6)
    ro = cplx((6, 4))
    ro.setflags(write=False)
    operated_cases["readonly_6x4"] = (ro, 6)

    def noise_cases(n_vis):
        out = {}
        out["generic"] = rng.uniform(0.3, 2.0, n_vis) + 1j * rng.uniform(0.3, 2.0, n_vis)
        out["unit"] = np.ones(n_vis) + 1j * np.ones(n_vis)
        out["aa"] = None  # filled below when possible
        out["real_float"] = rng.uniform(0.3, 2.0, n_vis)  # imaginary noise is 0 -> division by zero
        out["negative"] = -(rng.uniform(0.3, 2.0, n_vis) + 1j * rng.uniform(0.3, 2.0, n_vis))
        out["wrong_len"] = rng.uniform(0.3, 2.0, n_vis + 1) + 1j * rng.uniform(0.3, 2.0, n_vis + 1)
        two_d = rng.uniform(0.3, 2.0, (n_vis, 1)) + 1j * rng.uniform(0.3, 2.0, (n_vis, 1))
        c64 = (rng.uniform(0.3, 2.0, n_vis) + 1j * rng.uniform(0.3, 2.0, n_vis)).astype("complex64")
        if OUT_OF_DOMAIN:
            # ill-formed inputs on which a pre-allocated float64 [total_params, total_params] accumulator cannot
            # reproduce HEAD (N-d broadcasting garbage / float32 result), see TWIN_NOTES.md
            out["two_d"] = two_d
            out["complex64"] = c64
        ro_noise = rng.uniform(0.3, 2.0, n_vis) + 1j * rng.uniform(0.3, 2.0, n_vis)
        ro_noise.setflags(write=False)
        out["readonly"] = ro_noise
        out["none"] = None
        out["list"] = [complex(1.0, 2.0)] * n_vis
        if n_vis > 0:
            try:
                out["aa"] = aa.VisibilitiesNoiseMap(
                    visibilities=rng.uniform(0.3, 2.0, n_vis) + 1j * rng.uniform(0.3, 2.0, n_vis)
                )
            except Exception:  # noqa
                out["aa"] = None
        return out

    for oname, (operated, n_vis) in operated_cases.items():
        n_params = operated.shape[1]
        for nname, noise in noise_cases(n_vis).items():
            for diag_value in (0.0, 1.0e-8):
                for with_reg in (False, True):
                    tag = "B/%s/%s/diag%g/reg%d" % (oname, nname, diag_value, with_reg)
                    operated_before = np.array(operated, copy=True)
                    try:
                        inversion = mock_inversion(operated, noise, n_params, diag_value, with_reg)
                    except Exception as e:  # noqa
                        rec(tag + "/build", e)
                        continue
                    first = attempt(tag + "/cm1", lambda: inversion.curvature_matrix)
                    second = attempt(tag + "/cm2", lambda: inversion.curvature_matrix)
                    if first is not None:
                        rec(tag + "/cached", first is second)
                        rec(tag + "/writeable", bool(first.flags.writeable))
                        rec(tag + "/c_contig", bool(first.flags.c_contiguous))
                        rec(
                            tag + "/shares_memory",
                            bool(np.shares_memory(first, operated)),
                        )
                    attempt(tag + "/crm", lambda: inversion.curvature_reg_matrix)
                    attempt(tag + "/cm3", lambda: inversion.curvature_matrix)
                    rec(tag + "/operated_after", operated)
                    rec(
                        tag + "/operated_intact",
                        bool(np.array_equal(operated, operated_before, equal_nan=True)),
                    )
                    rec(tag + "/operated_is", inversion.operated_mapping_matrix is operated)
                    if isinstance(noise, np.ndarray):
                        rec(tag + "/noise_after", noise)

    if OUT_OF_DOMAIN:
        inversion = mock_inversion(cplx((4,)), cplx((4,)), 4, 0.0)
        attempt("B/ood/one_d_operated", lambda: inversion.curvature_matrix)

    # the pinned unit-test inputs
    operated = np.array([[1.0 + 1j, 1.0 + 1j, 1.0 + 1j], [1.0 + 1j, 1.0 + 1j, 1.0 + 1j]])
    noise = np.array([1.0 + 1j, 1.0 + 1j])
    for diag_value in (False, True, 0.5):
        inversion = mock_inversion(operated, noise, 3, diag_value)
        attempt("B/pinned/%r" % (diag_value,), lambda: inversion.curvature_matrix)
    rec("B/pinned/operated", operated)

    # one operated matrix object shared by many inversions with different noise maps, read repeatedly
    shared = cplx((8, 5))
    for rep in range(4):
        noise = rng.uniform(0.3, 2.0, 8) + 1j * rng.uniform(0.3, 2.0, 8)
        inversion = mock_inversion(shared, noise, 5, 0.0, with_reg=bool(rep % 2))
        for k in range(3):
            attempt("B/shared/rep%d/cm%d" % (rep, k), lambda: inversion.curvature_matrix)
            attempt("B/shared/rep%d/crm%d" % (rep, k), lambda: inversion.curvature_reg_matrix)
        rec("B/shared/rep%d/bytes" % rep, shared)


part_a()
part_b()

print("records", N_RECORDS[0])
print("digest", H.hexdigest())
