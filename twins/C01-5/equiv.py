"""
Differential test for the C01-5 twin (`Array2D._native_from` helper shared by `native` / `native_skip_mask`).

Prints a sha256 digest over the observable behaviour of `Array2D.native`, `Array2D.native_skip_mask` and of the
methods built on top of them, for many masks / storage formats / post-construction modifications. The digest must be
identical on the clean HEAD tree and on the tree with twin.patch applied.

Run:  cd /tmp/wt8/C01-5 && PYTHONPATH=/tmp/wt8/C01-5 /venv/bin/python equiv.py
"""
import copy
import hashlib
import itertools
import warnings

import numpy as np

warnings.filterwarnings("ignore")

import logging

import autoarray as aa

logging.disable(logging.CRITICAL)

H = hashlib.sha256()
N_RECORDS = 0
EXC_COUNTS = {}


def feed(tag, obj):
    global N_RECORDS
    N_RECORDS += 1
    H.update(repr(tag).encode())
    H.update(b"|")
    H.update(encode(obj))
    H.update(b"\n")


def encode(obj):
    if isinstance(obj, aa.Mask2D):
        return b"Mask2D" + encode(np.array(obj)) + repr((obj.pixel_scales, obj.origin)).encode()
    if hasattr(obj, "_array") and hasattr(obj, "mask"):
        # an autoarray structure: class, stored ndarray, mask, geometry, header identity class
        return (
            type(obj).__name__.encode()
            + encode(np.asarray(obj._array))
            + encode(obj.mask)
            + repr(type(getattr(obj, "header", None)).__name__).encode()
        )
    if isinstance(obj, np.ndarray):
        a = np.ascontiguousarray(obj)
        return repr((a.dtype.str, a.shape)).encode() + a.tobytes()
    if isinstance(obj, (tuple, list)):
        return b"(" + b",".join(encode(o) for o in obj) + b")"
    return repr(obj).encode()


def attempt(tag, func):
    """Record the result of func(), or the type of the exception it raises."""
    try:
        result = func()
    except Exception as e:  # noqa
        feed(tag, ("EXC", type(e).__name__))
        EXC_COUNTS[type(e).__name__] = EXC_COUNTS.get(type(e).__name__, 0) + 1
        return None
    feed(tag, result)
    return result


# ---------------------------------------------------------------------------------------------------------------
# masks: non-square, anisotropic pixel scales, non-zero origin, touching edges, fully unmasked, single unmasked
# pixel, fully masked, 1x1, 1xN, Nx1
# ---------------------------------------------------------------------------------------------------------------
rng = np.random.RandomState(12345)


def make_masks():
    masks = []

    def add(name, m, pixel_scales=(1.0, 1.0), origin=(0.0, 0.0)):
        try:
            masks.append(
                (name, aa.Mask2D(mask=np.array(m, dtype=bool), pixel_scales=pixel_scales, origin=origin))
            )
        except Exception as e:  # noqa
            feed(("mask-construction", name), ("EXC", type(e).__name__))

    add(
        "demo_3x4",
        [[True, False, False, True], [False, False, True, False], [True, True, False, False]],
        pixel_scales=(1.0, 2.0),
    )
    add("all_false_3x4", np.zeros((3, 4)), pixel_scales=(0.5, 0.25), origin=(1.0, -2.0))
    add("all_false_4x3", np.zeros((4, 3)), pixel_scales=(2.0, 3.0))
    add("all_false_1x1", np.zeros((1, 1)))
    add("all_true_3x3", np.ones((3, 3)))
    add("all_true_1x1", np.ones((1, 1)))
    m = np.ones((5, 3))
    m[2, 1] = False
    add("single_5x3", m, pixel_scales=(0.1, 0.3), origin=(0.5, 0.5))
    m = np.ones((4, 6))
    m[0, :] = False
    m[:, 0] = False
    m[3, 5] = False
    add("edges_4x6", m, pixel_scales=(1.5, 0.5), origin=(-1.0, 3.0))
    add("row_1x5", [[False, True, False, False, True]], pixel_scales=(1.0, 2.0))
    add("col_5x1", [[False], [True], [False], [False], [True]], pixel_scales=(2.0, 1.0))
    for k, shape in enumerate([(6, 5), (5, 7), (7, 7), (2, 9)]):
        add(
            f"random_{shape[0]}x{shape[1]}",
            rng.rand(*shape) < 0.45,
            pixel_scales=(0.3 + k, 1.1 + 0.5 * k),
            origin=(0.25 * k, -0.5 * k),
        )
    return masks


MASKS = make_masks()


def values_for(mask, kind):
    shape = mask.shape_native
    n = shape[0] * shape[1]
    if kind == "float":
        return np.arange(1.0, n + 1.0).reshape(shape) - (n / 2.0 + 0.25)  # never zero
    if kind == "int":
        return np.arange(1, n + 1).reshape(shape)
    if kind == "nan":
        v = np.arange(1.0, n + 1.0).reshape(shape)
        v[0, 0] = np.nan
        v[-1, -1] = np.inf
        return v
    if kind == "complex":
        return np.arange(1.0, n + 1.0).reshape(shape) * (1.0 + 2.0j)
    if kind == "bool":
        return (np.arange(n).reshape(shape) % 3) != 0
    raise ValueError(kind)


MODIFIERS = [
    ("identity", lambda a: a),
    ("plus10", lambda a: a + 10.0),
    ("radd", lambda a: 3.0 + a),
    ("mul_sub", lambda a: a * 2 - 1),
    ("rsub", lambda a: 1.0 - a),
    ("abs_plus", lambda a: abs(a) + 0.5),
    ("pow_off", lambda a: (a + 1.0) ** 2),
    ("neg_plus", lambda a: -a + 7.0),
    ("div", lambda a: (a + 2.0) / 4.0),
    ("rtruediv", lambda a: 1.0 / (a + 100.0)),
    ("self_add", lambda a: a + a + 1.0),
    ("sqrt", lambda a: (a * a + 4.0).sqrt()),
    ("with_new_array_ones", lambda a: a.with_new_array(np.ones(a.shape))),
    ("with_new_array_same", lambda a: a.with_new_array(np.array(a._array) + 5.0)),
    ("setitem_all", lambda a: _setitem(a, Ellipsis, 9.0)),
    ("setitem_first", lambda a: _setitem(a, (0,) * a.ndim, -3.0)),
    ("setitem_boolkey", lambda a: _setitem(a, np.ones(a.shape, dtype=bool), 4.0)),
    ("copy", lambda a: a.copy()),
    ("deepcopy_plus", lambda a: copy.deepcopy(a) + 2.0),
    ("astype_float", lambda a: a.astype("float") + 0.5),
    ("getitem_slice", lambda a: a[:]),
]


def _setitem(a, key, value):
    b = a.copy()
    b[key] = value
    return b


def observe_native(tag, arr):
    """Everything a caller can see from `.native` / `.native_skip_mask` of `arr`."""
    if arr is None:
        return
    before = np.array(arr._array).copy()

    for prop in ("native", "native_skip_mask"):
        result = attempt((tag, prop), lambda: getattr(arr, prop))
        if result is None:
            continue

        # identity / aliasing visible to the caller
        feed((tag, prop, "is_self"), result is arr)
        feed((tag, prop, "shares_memory"), bool(np.shares_memory(np.asarray(result._array), np.asarray(arr._array))))
        feed((tag, prop, "mask_is"), result.mask is arr.mask)
        feed((tag, prop, "header_is"), getattr(result, "header", "none") is getattr(arr, "header", "none"))
        feed((tag, prop, "store_native"), result.store_native)

        # repeated call gives a fresh, equal object
        again = getattr(arr, prop)
        feed((tag, prop, "again_is"), again is result)
        feed((tag, prop, "again"), again)

        # in-place edit of the result must not leak (or must leak identically) into the source
        try:
            result[(0,) * result.ndim] = 123.0
        except Exception as e:  # noqa
            feed((tag, prop, "setitem-exc"), type(e).__name__)
        feed((tag, prop, "source_after_edit"), np.array(arr._array))
        feed((tag, prop, "source_unchanged"), bool(np.array_equal(before, np.array(arr._array), equal_nan=True))
             if before.dtype.kind in "fc" else bool(np.array_equal(before, np.array(arr._array))))
        feed((tag, prop, "again_after_edit"), getattr(arr, prop))

        # chains
        attempt((tag, prop, "slim"), lambda: getattr(arr, prop).slim)
        attempt((tag, prop, "slim.native"), lambda: getattr(arr, prop).slim.native)
        attempt((tag, prop, "native"), lambda: getattr(arr, prop).native)
        attempt((tag, prop, "native_skip_mask"), lambda: getattr(arr, prop).native_skip_mask)

    attempt((tag, "slim"), lambda: arr.slim)
    attempt((tag, "slim.native"), lambda: arr.slim.native)
    attempt((tag, "slim.native_skip_mask"), lambda: arr.slim.native_skip_mask)


def observe_downstream(tag, arr):
    """Methods of Array2D that are implemented through `.native`."""
    if arr is None:
        return
    attempt((tag, "binned_across_rows"), lambda: arr.binned_across_rows)
    attempt((tag, "binned_across_columns"), lambda: arr.binned_across_columns)
    attempt((tag, "zoomed_around_mask"), lambda: arr.zoomed_around_mask(buffer=1))
    attempt((tag, "extent_of_zoomed_array"), lambda: arr.extent_of_zoomed_array(buffer=1))
    attempt((tag, "resized_from_big"), lambda: arr.resized_from(new_shape=(7, 8)))
    attempt((tag, "resized_from_small"), lambda: arr.resized_from(new_shape=(2, 2)))
    attempt((tag, "padded_before_convolution_from"), lambda: arr.padded_before_convolution_from(kernel_shape=(3, 3)))
    attempt((tag, "trimmed_after_convolution_from"), lambda: arr.trimmed_after_convolution_from(kernel_shape=(3, 3)))
    attempt((tag, "hdu_for_output"), lambda: np.array(arr.hdu_for_output.data))
    attempt((tag, "apply_mask_same"), lambda: arr.apply_mask(mask=arr.mask))
    inv = attempt((tag, "inverted-mask"), lambda: aa.Mask2D(
        mask=~np.array(arr.mask), pixel_scales=arr.mask.pixel_scales, origin=arr.mask.origin))
    if inv is not None:
        attempt((tag, "apply_mask_inverted"), lambda: arr.apply_mask(mask=inv))
    unm = attempt((tag, "unmasked-mask"), lambda: aa.Mask2D.all_false(
        shape_native=arr.mask.shape_native, pixel_scales=arr.mask.pixel_scales, origin=arr.mask.origin))
    if unm is not None:
        attempt((tag, "apply_mask_all_false"), lambda: arr.apply_mask(mask=unm))


# ---------------------------------------------------------------------------------------------------------------
# 1) Array2D: every mask x value kind x storage x skip_mask x modifier
# ---------------------------------------------------------------------------------------------------------------
for (mname, mask), kind in itertools.product(MASKS, ["float", "int", "nan", "complex", "bool"]):
    values_native = values_for(mask, kind)
    values_slim = values_native[~np.array(mask)]
    header = aa.Header(header_sci_obj={"EXPTIME": 2.0}, header_hdu_obj={"BSCALE": 1.0})

    for input_form, values in (("native_in", values_native), ("slim_in", values_slim), ("list_in", values_native.tolist())):
        for store_native, skip_mask, hdr in itertools.product([False, True], [False, True], [None, header]):
            if kind != "float" and hdr is not None:
                continue
            base_tag = (mname, kind, input_form, store_native, skip_mask, hdr is not None)
            arr = attempt(
                (base_tag, "construct"),
                lambda: aa.Array2D(values=values, mask=mask, header=hdr, store_native=store_native, skip_mask=skip_mask),
            )
            if arr is None:
                continue
            modifiers = MODIFIERS if kind == "float" else MODIFIERS[:3]
            for modname, modifier in modifiers:
                modified = attempt((base_tag, modname, "modified"), lambda: modifier(arr))
                if modified is None or not hasattr(modified, "_array") or not hasattr(modified, "native"):
                    continue
                observe_native((base_tag, modname), modified)
                if kind == "float" and hdr is None and modname in ("identity", "plus10", "with_new_array_ones"):
                    observe_downstream((base_tag, modname), modified)
                # the modifier must not have changed the source, and the source's native must be stable
                feed((base_tag, modname, "source-native-after"), arr.native)

# ---------------------------------------------------------------------------------------------------------------
# 2) the exact trigger of the notes / demo, step by step, plus the skip_mask construction route
# ---------------------------------------------------------------------------------------------------------------
mask = dict(MASKS)["demo_3x4"]
mask_nd = np.array(mask)
values = np.arange(1.0, 13.0).reshape(3, 4) - 6.5
arr = aa.Array2D(values=values, mask=mask, store_native=True)
shifted = arr + 10.0
feed("trigger-stored", np.array(shifted._array))
feed("trigger-native", shifted.native)
feed("trigger-native-masked-zero", bool((np.array(shifted.native)[mask_nd] == 0.0).all()))
feed("trigger-native-skip", shifted.native_skip_mask)
feed("trigger-roundtrip", shifted.native.slim.native)
feed("trigger-roundtrip-equal", bool(np.array_equal(np.array(shifted.native.slim.native), np.array(shifted.native))))
feed("trigger-native.native", shifted.native.native)
feed("trigger-native_skip.native", shifted.native_skip_mask.native)
feed("trigger-native.native_skip", shifted.native.native_skip_mask)
skip = aa.Array2D(values=values, mask=mask, store_native=True, skip_mask=True)
feed("skip-construct", skip)
feed("skip-native", skip.native)
feed("skip-native_skip", skip.native_skip_mask)
feed("skip-slim", skip.slim)
feed("skip-slim-native_skip", skip.slim.native_skip_mask)

# shared objects: one source, several native views, edits do not cross-contaminate
n1 = shifted.native
n2 = shifted.native
n3 = shifted.native_skip_mask
n1[0, 1] = -1.0
n3[0, 0] = -2.0
feed("shared-n1", n1)
feed("shared-n2", n2)
feed("shared-n3", n3)
feed("shared-source", shifted)
feed("shared-ids", (n1 is n2, n1 is shifted, n3 is shifted, n2 is n3))

# array whose stored ndarray was replaced by one of the WRONG shape -> same exception type
bad = shifted.with_new_array(np.ones((2, 2)))
attempt("bad-shape-native", lambda: bad.native)
attempt("bad-shape-native_skip", lambda: bad.native_skip_mask)
bad3 = shifted.with_new_array(np.ones((3, 4, 2)))
attempt("bad-3d-native", lambda: bad3.native)
attempt("bad-3d-native_skip", lambda: bad3.native_skip_mask)
bad1 = shifted.with_new_array(np.ones(5))
attempt("bad-1d-native", lambda: bad1.native)
attempt("bad-1d-native_skip", lambda: bad1.native_skip_mask)

# an array whose mask attribute was swapped after construction (same shape, different mask)
other_mask = aa.Mask2D(mask=~mask_nd, pixel_scales=(1.0, 2.0))
swapped = shifted.copy()
swapped.mask = other_mask
feed("swapped-native", swapped.native)
feed("swapped-native_skip", swapped.native_skip_mask)
feed("swapped-slim", swapped.slim)

# ---------------------------------------------------------------------------------------------------------------
# 3) Kernel2D (subclass of AbstractArray2D): `.native` returns an Array2D; convolution paths use `.native`
# ---------------------------------------------------------------------------------------------------------------
for shape, ps in (((3, 3), 1.0), ((3, 5), (1.0, 2.0)), ((1, 1), 0.5), ((5, 3), (0.2, 0.4))):
    kvals = np.arange(1.0, shape[0] * shape[1] + 1.0).reshape(shape)
    for store_native in (False, True):
        tag = ("kernel", shape, store_native)
        kern = attempt((tag, "construct"), lambda: aa.Kernel2D.no_mask(values=kvals, pixel_scales=ps))
        if kern is None:
            continue
        if store_native:
            kern = attempt((tag, "to-native"), lambda: aa.Kernel2D(values=kvals, mask=kern.mask, store_native=True))
            if kern is None:
                continue
        for modname, modifier in MODIFIERS[:6]:
            modified = attempt((tag, modname, "modified"), lambda: modifier(kern))
            if modified is None or not hasattr(modified, "native"):
                continue
            observe_native((tag, modname), modified)
        attempt((tag, "normalized"), lambda: kern.normalized)
        attempt((tag, "rescaled"), lambda: kern.rescaled_with_odd_dimensions_from(rescale_factor=0.5))
        image = aa.Array2D.no_mask(values=np.arange(30.0).reshape(5, 6), pixel_scales=1.0)
        attempt((tag, "convolved_array_from"), lambda: kern.convolved_array_from(array=image))
        attempt((tag, "convolved_array_from-native-shifted"), lambda: kern.convolved_array_from(array=image.native + 1.0))
        cmask = aa.Mask2D(mask=rng.rand(5, 6) < 0.3, pixel_scales=1.0)
        masked_image = aa.Array2D(values=np.arange(30.0).reshape(5, 6), mask=cmask)
        attempt(
            (tag, "convolved_array_with_mask_from"),
            lambda: kern.convolved_array_with_mask_from(array=masked_image, mask=cmask),
        )
        attempt(
            (tag, "convolved_array_with_mask_from-native-shifted"),
            lambda: kern.convolved_array_with_mask_from(array=masked_image.native + 3.0, mask=cmask),
        )

# ---------------------------------------------------------------------------------------------------------------
# 4) class-level factory routes that end in natively stored arrays
# ---------------------------------------------------------------------------------------------------------------
for shape, ps, origin in (((3, 4), (1.0, 2.0), (0.0, 0.0)), ((4, 3), (0.5, 0.5), (1.0, -1.0)), ((1, 1), (1.0, 1.0), (0.0, 0.0))):
    tag = ("factory", shape)
    for name, func in (
        ("full", lambda: aa.Array2D.full(fill_value=2.5, shape_native=shape, pixel_scales=ps, origin=origin)),
        ("ones", lambda: aa.Array2D.ones(shape_native=shape, pixel_scales=ps, origin=origin)),
        ("zeros", lambda: aa.Array2D.zeros(shape_native=shape, pixel_scales=ps, origin=origin)),
        ("no_mask", lambda: aa.Array2D.no_mask(values=np.arange(float(shape[0] * shape[1])).reshape(shape), pixel_scales=ps, origin=origin)),
    ):
        a = attempt((tag, name), func)
        if a is None:
            continue
        observe_native((tag, name), a)
        observe_native((tag, name, "native+1"), a.native + 1.0)
        observe_native((tag, name, "native_skip*3"), a.native_skip_mask * 3.0)

print("records", N_RECORDS, "exceptions", sorted(EXC_COUNTS.items()))
print("digest", H.hexdigest())
