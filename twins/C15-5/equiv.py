"""
Differential test for the C15-5 twin (InversionImagingWTilde.curvature_matrix, preloaded curvature matrix folded into
the if / elif chain).

Prints a sha256 digest over every observable result (values, dtypes, types, identities / aliasing, bytes of the
preloaded matrix before and after each inversion, exception types). The digest must be identical on the clean HEAD
tree and on the twin tree.

Run:  cd /tmp/wt8/C15-5 && PYTHONPATH=/tmp/wt8/C15-5 /venv/bin/python equiv.py
"""
import hashlib
import logging
import warnings

warnings.filterwarnings("ignore")
logging.disable(logging.CRITICAL)

import numpy as np

import autoarray as aa

H = hashlib.sha256()
N_RECORDS = 0


def rec(tag, value):
    global N_RECORDS
    N_RECORDS += 1
    H.update(repr(tag).encode())
    if isinstance(value, np.ndarray):
        H.update(type(value).__name__.encode())
        H.update(str(value.dtype).encode())
        H.update(repr(value.shape).encode())
        H.update(np.ascontiguousarray(value).tobytes())
    else:
        H.update(type(value).__name__.encode())
        H.update(repr(value).encode())


def attempt(tag, func):
    try:
        value = func()
    except Exception as e:  # noqa
        rec(tag, "EXC:" + type(e).__name__)
        return None
    rec(tag, value)
    return value


# ----------------------------------------------------------------------------------------------------------------------
# datasets
# ----------------------------------------------------------------------------------------------------------------------


def mask_array(name):
    if name == "7x7_centre":
        m = np.full((7, 7), True)
        m[2:5, 2:5] = False
    elif name == "6x9_edges":
        # non-square, unmasked pixels touching the edges of the array
        m = np.full((6, 9), True)
        m[0, 0:4] = False
        m[1:4, 2:7] = False
        m[5, 8] = False
        m[3, 0] = False
    elif name == "5x5_single":
        m = np.full((5, 5), True)
        m[2, 2] = False
    elif name == "8x5_L":
        m = np.full((8, 5), True)
        m[1:7, 1] = False
        m[6, 1:4] = False
        m[2, 3] = False
    else:
        raise ValueError(name)
    return m


def make_dataset(mask_name, pixel_scales, origin, seed):
    rng = np.random.default_rng(seed)
    m = mask_array(mask_name)
    shape = m.shape

    mask = aa.Mask2D(mask=m, pixel_scales=pixel_scales, origin=origin)

    data = aa.Array2D.no_mask(
        values=1.0 + rng.uniform(0.0, 2.0, size=shape),
        pixel_scales=pixel_scales,
        origin=origin,
    )
    noise_map = aa.Array2D.no_mask(
        values=1.0 + rng.uniform(0.0, 1.0, size=shape),
        pixel_scales=pixel_scales,
        origin=origin,
    )
    psf = aa.Kernel2D.no_mask(
        values=[[0.0, 0.1, 0.05], [0.1, 0.5, 0.2], [0.0, 0.1, 0.0]],
        pixel_scales=pixel_scales,
    )

    imaging = aa.Imaging(
        data=data,
        noise_map=noise_map,
        psf=psf,
        over_sampling=aa.OverSamplingDataset(
            uniform=aa.OverSamplingUniform(sub_size=1)
        ),
    )

    return imaging.apply_mask(mask=mask)


def make_mapper(dataset, sub_size, mesh_shape, regularization):
    mask = dataset.mask
    over_sampler = aa.OverSamplerUniform(mask=mask, sub_size=sub_size)
    grid = over_sampler.over_sampled_grid
    mesh_grid = aa.Mesh2DRectangular.overlay_grid(grid=grid, shape_native=mesh_shape)
    mapper_grids = aa.MapperGrids(
        mask=mask,
        source_plane_data_grid=grid,
        source_plane_mesh_grid=mesh_grid,
        image_plane_mesh_grid=None,
        adapt_data=None,
    )
    return aa.MapperRectangular(
        mapper_grids=mapper_grids,
        over_sampler=over_sampler,
        border_relocator=None,
        regularization=regularization,
    )


def make_func(dataset, params, regularization, seed):
    rng = np.random.default_rng(seed)
    grid = aa.Grid2D.from_mask(mask=dataset.mask)
    n = dataset.mask.pixels_in_mask
    mapping_matrix = 0.1 + rng.uniform(0.0, 1.0, size=(n, params))
    return aa.m.MockLinearObjFuncList(
        parameters=params,
        grid=grid,
        mapping_matrix=mapping_matrix,
        regularization=regularization,
    )


def linear_obj_list_from(config, dataset):
    objs = []
    for k, item in enumerate(config):
        if item == "M":
            objs.append(
                make_mapper(dataset, 2, (3, 3), aa.reg.Constant(coefficient=1.0))
            )
        elif item == "M2":
            objs.append(
                make_mapper(dataset, 1, (2, 3), aa.reg.Constant(coefficient=2.0))
            )
        elif item == "F":
            objs.append(make_func(dataset, 2, None, seed=100 + k))
        elif item == "F1":
            objs.append(make_func(dataset, 1, None, seed=200 + k))
        elif item == "FR":
            objs.append(
                make_func(dataset, 2, aa.reg.Constant(coefficient=3.0), seed=300 + k)
            )
        else:
            raise ValueError(item)
    return objs


# ----------------------------------------------------------------------------------------------------------------------
# observation of one inversion
# ----------------------------------------------------------------------------------------------------------------------

OUTPUTS_A = [
    "curvature_matrix",
    "data_vector",
    "regularization_matrix",
    "curvature_reg_matrix",
    "reconstruction",
    "mapped_reconstructed_data",
    "regularization_term",
    "log_det_curvature_reg_matrix_term",
    "log_det_regularization_matrix_term",
]

# curvature_reg_matrix / reconstruction are read BEFORE curvature_matrix in this order (in-place sum aliasing).
OUTPUTS_B = [
    "reconstruction",
    "curvature_reg_matrix",
    "curvature_matrix",
    "mapped_reconstructed_data",
    "regularization_term",
]


def conv(value):
    if isinstance(value, (list, tuple)):
        return repr([np.asarray(v).tolist() for v in value])
    if isinstance(value, dict):
        return repr({str(k): np.asarray(v).tolist() for k, v in value.items()})
    if isinstance(value, np.ndarray) or hasattr(value, "native"):
        return np.array(value)
    if isinstance(value, (float, np.floating)):
        return float(value)
    return value


def observe(tag, dataset, linear_obj_list, settings, preloads, order):
    pre = preloads.curvature_matrix if preloads is not None else None

    if isinstance(pre, np.ndarray):
        rec((tag, "pre_bytes_before"), np.array(pre))

    try:
        kwargs = {} if preloads is None else {"preloads": preloads}
        inversion = aa.Inversion(
            dataset=dataset, linear_obj_list=linear_obj_list, settings=settings, **kwargs
        )
    except Exception as e:  # noqa
        rec((tag, "construct"), "EXC:" + type(e).__name__)
        return None

    rec((tag, "cls"), type(inversion).__name__)

    for name in order:
        attempt((tag, name), lambda: conv(getattr(inversion, name)))

    def alias_info():
        cm = inversion.curvature_matrix
        cm_again = inversion.curvature_matrix
        return (
            type(cm).__name__,
            cm is pre,
            (pre is not None and isinstance(cm, np.ndarray) and isinstance(pre, np.ndarray))
            and bool(np.shares_memory(cm, pre)),
            cm is cm_again,
            getattr(cm, "flags", None) is not None and bool(cm.flags["C_CONTIGUOUS"]),
            getattr(cm, "flags", None) is not None and bool(cm.flags["WRITEABLE"]),
        )

    attempt((tag, "alias"), alias_info)

    if isinstance(pre, np.ndarray):
        rec((tag, "pre_bytes_after"), np.array(pre))
        rec((tag, "pre_same_object"), preloads.curvature_matrix is pre)

    return inversion


# ----------------------------------------------------------------------------------------------------------------------
# main sweep
# ----------------------------------------------------------------------------------------------------------------------

DATASETS = [
    ("7x7_centre", (1.0, 1.0), (0.0, 0.0), 7),
    ("6x9_edges", (0.5, 2.0), (0.3, -1.2), 11),
    ("8x5_L", (2.0, 0.7), (-4.0, 2.5), 13),
    ("5x5_single", (1.0, 1.0), (0.0, 0.0), 17),
]

CONFIGS = [
    ("M",),
    ("F", "M"),  # the trigger: unregularized func list + mapper
    ("M", "F"),
    ("F", "F1", "M"),
    ("F1", "M", "F", "M2"),
    ("M", "M2"),
    ("FR", "M"),
    ("FR", "F", "M"),
    ("F",),  # routed to mapping formalism
    ("FR",),  # routed to mapping formalism, single regularization -> in place sum
    ("F", "FR"),
]

SETTINGS = [
    dict(use_w_tilde=True, use_positive_only_solver=False),
    dict(
        use_w_tilde=True,
        use_positive_only_solver=False,
        no_regularization_add_to_curvature_diag_value=0.37,
    ),
    dict(use_w_tilde=True, use_positive_only_solver=True),
    dict(use_w_tilde=False, use_positive_only_solver=False),
]


def fresh_curvature(dataset, linear_obj_list, settings):
    try:
        return np.array(
            aa.Inversion(
                dataset=dataset, linear_obj_list=linear_obj_list, settings=settings
            ).curvature_matrix
        )
    except Exception:  # noqa
        return None


class ArraySub(np.ndarray):
    """ndarray subclass: copy.copy must preserve the type, mirroring would not."""


def preload_variants(F):
    n = F.shape[0]
    rng = np.random.default_rng(n)

    variants = [("fresh", F.copy())]

    nonsym = F.copy()
    nonsym[0, n - 1] += 0.25
    nonsym[n - 1, 0] -= 0.5
    if n > 2:
        nonsym[1, 2] = 0.0
    variants.append(("nonsym", nonsym))

    variants.append(("random", rng.uniform(-1.0, 1.0, size=(n, n)) + n * np.eye(n)))
    variants.append(("fortran", np.asfortranarray(F + 0.01 * np.eye(n))))
    variants.append(("float32", (F + 0.02 * np.eye(n)).astype("float32")))
    variants.append(("subclass", (F + 0.03 * np.eye(n)).view(ArraySub)))
    variants.append(("zeros", np.zeros((n, n))))
    ro = F.copy()
    ro.setflags(write=False)
    variants.append(("readonly", ro))
    variants.append(("wrong_shape", np.eye(n + 1)))
    variants.append(("rect_shape", np.ones((n, n + 2))))
    variants.append(("one_d", np.ones(n)))
    variants.append(("list", F.tolist()))
    variants.append(("scalar", 2.5))

    return variants


def main():
    for ds_spec in DATASETS:
        try:
            dataset = make_dataset(*ds_spec)
        except Exception as e:  # noqa
            rec(("dataset", ds_spec), "EXC:" + type(e).__name__)
            continue

        for config in CONFIGS:
            try:
                linear_obj_list = linear_obj_list_from(config, dataset)
            except Exception as e:  # noqa
                rec(("objs", ds_spec[0], config), "EXC:" + type(e).__name__)
                continue

            for s_index, s_kwargs in enumerate(SETTINGS):
                settings = aa.SettingsInversion(**s_kwargs)
                base = (ds_spec[0], config, s_index)

                # no preload, both read orders
                observe(base + ("nopre", "A"), dataset, linear_obj_list, settings, None, OUTPUTS_A)
                observe(base + ("nopre", "B"), dataset, linear_obj_list, settings, None, OUTPUTS_B)

                # empty Preloads object shared by two inversions
                empty = aa.Preloads()
                for k in range(2):
                    observe(base + ("empty", k), dataset, linear_obj_list, settings, empty, OUTPUTS_A)
                rec(base + ("empty_after",), empty.curvature_matrix is None)

                F = fresh_curvature(dataset, linear_obj_list, settings)
                if F is None:
                    rec(base + ("F",), "EXC")
                    continue

                full = ds_spec[0] in ("7x7_centre", "6x9_edges") or s_index == 0

                for v_name, value in preload_variants(F):
                    if not full and v_name not in ("fresh", "nonsym", "subclass"):
                        continue

                    preloads = aa.Preloads(curvature_matrix=value)

                    # one Preloads object reused for 3 successive inversions, alternating the read order
                    for k in range(3):
                        observe(
                            base + (v_name, k),
                            dataset,
                            linear_obj_list,
                            settings,
                            preloads,
                            OUTPUTS_A if k != 1 else OUTPUTS_B,
                        )

                # curvature matrix preloaded together with other slots
                mapper_diag = None
                try:
                    inv = aa.Inversion(dataset=dataset, linear_obj_list=linear_obj_list, settings=settings)
                    mapper_diag = getattr(inv, "_curvature_matrix_mapper_diag", None)
                    reg = np.array(inv.regularization_matrix)
                    omm = [np.array(m) for m in inv.operated_mapping_matrix_list]
                except Exception:  # noqa
                    reg = None
                    omm = None

                combos = [
                    dict(curvature_matrix=F.copy(), regularization_matrix=reg),
                    dict(
                        curvature_matrix=F.copy(),
                        curvature_matrix_mapper_diag=None if mapper_diag is None else np.array(mapper_diag),
                    ),
                    dict(
                        curvature_matrix=None,
                        curvature_matrix_mapper_diag=None if mapper_diag is None else np.array(mapper_diag),
                    ),
                ]
                for c_index, kwargs in enumerate(combos):
                    try:
                        preloads = aa.Preloads(**kwargs)
                    except Exception as e:  # noqa
                        rec(base + ("combo", c_index), "EXC:" + type(e).__name__)
                        continue
                    for k in range(2):
                        observe(
                            base + ("combo", c_index, k),
                            dataset,
                            linear_obj_list,
                            settings,
                            preloads,
                            OUTPUTS_A,
                        )
                    md = preloads.curvature_matrix_mapper_diag
                    if isinstance(md, np.ndarray):
                        rec(base + ("combo", c_index, "mapper_diag_after"), np.array(md))

    # direct construction of the w-tilde class (bypassing the factory) with func lists only / preloads
    dataset = make_dataset(*DATASETS[0])
    for config in [("F", "M"), ("M",), ("M", "M2"), ("F",), ("FR", "F1")]:
        linear_obj_list = linear_obj_list_from(config, dataset)
        settings = aa.SettingsInversion(use_w_tilde=True, use_positive_only_solver=False)
        for pre_name in ["none", "fresh", "subclass"]:
            def build():
                F = fresh_curvature(dataset, linear_obj_list, settings)
                if pre_name == "none":
                    preloads = aa.Preloads()
                elif pre_name == "fresh":
                    preloads = aa.Preloads(curvature_matrix=F)
                else:
                    preloads = aa.Preloads(curvature_matrix=F.view(ArraySub))
                inv = aa.InversionImagingWTilde(
                    dataset=dataset,
                    w_tilde=dataset.w_tilde,
                    linear_obj_list=linear_obj_list,
                    settings=settings,
                    preloads=preloads,
                )
                cm = inv.curvature_matrix
                return (type(cm).__name__, np.array(cm).tobytes().hex()[:64], np.array(cm).sum())

            attempt(("direct", config, pre_name), build)

    print("records", N_RECORDS)
    print("digest", H.hexdigest())


if __name__ == "__main__":
    main()
