"""
Differential digest for `autoarray.mask.mask_2d_util.check_if_border_pixel` and everything built on it.

Run on the clean HEAD tree and on the twin tree; the printed sha256 digests must be identical.

    cd /tmp/wt10/C10-8 && PYTHONPATH=/tmp/wt10/C10-8 /venv/bin/python -W ignore equiv.py
"""
import hashlib
import itertools
import warnings

import numpy as np

warnings.filterwarnings("ignore")

import autoarray as aa
from autoarray.mask import mask_2d_util
from autoarray.inversion.pixelization import border_relocator

H = hashlib.sha256()
N_RECORDS = 0


def enc(value):
    if isinstance(value, BaseException):
        return ("EXC", type(value).__name__)
    if isinstance(value, (bool, np.bool_)):
        return ("bool", bool(value))
    if isinstance(value, (tuple, list)):
        return (type(value).__name__, [enc(v) for v in value])
    try:
        arr = np.asarray(value)
        return ("arr", type(value).__name__, str(arr.dtype), arr.shape, arr.tobytes().hex())
    except Exception as e:  # pragma: no cover
        return ("repr", repr(value), type(e).__name__)


def record(tag, func, *args, **kwargs):
    global N_RECORDS
    try:
        out = func(*args, **kwargs)
    except Exception as e:
        out = e
    H.update(repr((tag, enc(out))).encode())
    N_RECORDS += 1
    return out


def native_to_slim_of(mask):
    return np.array(
        [(y, x) for y in range(mask.shape[0]) for x in range(mask.shape[1]) if not mask[y, x]]
    ).reshape(-1, 2)


# --------------------------------------------------------------------------------------------------------------
# 1) direct calls of check_if_border_pixel: EVERY pixel (masked or not) of many masks is offered as "edge pixel",
#    via a native_to_slim table listing all pixels, plus out-of-contract indexes (negative, == shape, > shape).
# --------------------------------------------------------------------------------------------------------------


def direct_all_pixels(tag, mask, extra=True):
    ny, nx = mask.shape[0], mask.shape[1]
    ys = list(range(ny))
    xs = list(range(nx))
    if extra:
        ys = [-ny - 1, -ny, -2, -1] + ys + [ny, ny + 1]
        xs = [-nx - 1, -nx, -2, -1] + xs + [nx, nx + 1]
    table = np.array([(y, x) for y in ys for x in xs]).reshape(-1, 2)
    for i in range(table.shape[0]):
        record((tag, "direct", i), mask_2d_util.check_if_border_pixel, mask, i, table)
    # float slim index and float table (the library passes float edge pixels)
    for i in range(0, table.shape[0], 3):
        record(
            (tag, "direct-float", i),
            mask_2d_util.check_if_border_pixel,
            mask,
            float(i),
            table.astype("float"),
        )


rng = np.random.default_rng(20241003)

shapes = [(1, 1), (1, 2), (2, 1), (1, 5), (5, 1), (2, 2), (3, 3), (3, 4), (4, 3), (5, 5), (4, 7), (7, 4), (6, 6)]

masks = []

for shape in shapes:
    masks.append(np.full(shape, False))
    masks.append(np.full(shape, True))
    for p in (0.2, 0.5, 0.8):
        for _ in range(3):
            masks.append(rng.random(shape) < p)

# exhaustive small shapes
for shape in [(1, 3), (3, 1), (2, 2), (2, 3), (3, 2), (3, 3)]:
    n = shape[0] * shape[1]
    for bits in itertools.product([False, True], repeat=n):
        masks.append(np.array(bits).reshape(shape))

T, F = True, False

# the triggers of the notes / demo
masks += [
    np.array(
        [
            [T, T, T, T, T],
            [T, T, F, T, T],
            [T, T, F, T, T],
            [T, T, T, T, T],
            [F, T, F, T, F],
        ]
    ),
    np.array(
        [
            [T, T, T, T, T, T, F],
            [T, T, T, T, T, T, T],
            [T, F, F, T, T, T, F],
            [T, T, T, T, T, T, T],
            [T, T, T, T, T, T, F],
            [T, T, T, T, T, T, T],
        ]
    ),
    np.array(
        [
            [T, T, T, T, T, T],
            [T, F, F, F, F, T],
            [T, F, T, T, F, T],
            [T, T, T, T, T, T],
            [F, F, F, F, F, F],
        ]
    ),
    np.array(
        [
            [T, T, T, T, T, T],
            [T, F, F, F, F, T],
            [T, F, F, F, F, T],
            [T, F, F, F, F, T],
            [T, T, T, T, T, T],
        ]
    ),
    # same triggers mirrored onto the first row / first column and the corners
    np.array(
        [
            [F, T, F, T, F],
            [T, T, T, T, T],
            [T, T, F, T, T],
            [T, T, F, T, T],
            [F, T, F, T, F],
        ]
    ),
    np.array(
        [
            [F, T, T, T, F],
            [T, T, T, T, T],
            [F, T, F, F, F],
            [T, T, T, T, T],
            [F, T, T, T, F],
        ]
    ),
]

for k, mask in enumerate(masks):
    direct_all_pixels(("m", k), mask, extra=(k % 2 == 0 or mask.size <= 9))

# non-bool masks (ints with values other than 0 / 1, floats), 1D / 3D / list inputs
odd_masks = [
    rng.integers(0, 3, size=(4, 5)),
    rng.integers(-2, 3, size=(5, 4)),
    rng.integers(0, 2, size=(3, 3)).astype("float"),
    rng.random((3, 4)),
    np.full((4, 4), 1),
    np.full((4, 4), 2),
    rng.integers(0, 2, size=(3, 4, 2)).astype(bool),
    rng.integers(0, 2, size=(6,)).astype(bool),
    np.zeros((0, 3), dtype=bool),
    np.zeros((3, 0), dtype=bool),
]
for k, mask in enumerate(odd_masks):
    if mask.ndim >= 2:
        direct_all_pixels(("odd", k), mask)
    else:
        table = np.array([(0, 0), (1, 1), (5, 0), (6, 0)])
        for i in range(table.shape[0]):
            record(("odd", k, i), mask_2d_util.check_if_border_pixel, mask, i, table)

record("list-mask", mask_2d_util.check_if_border_pixel, [[True, False], [False, True]], 0, np.array([[0, 1]]))
record("bad-index", mask_2d_util.check_if_border_pixel, masks[5], 99, np.array([[0, 1]]))
record("bad-table", mask_2d_util.check_if_border_pixel, masks[5], 0, np.array([0, 1]))

# Mask2D objects (not ndarrays: __getitem__ re-wraps) offered directly to the util
for k, mask in enumerate(masks[::7]):
    if mask.shape[0] < 1 or mask.shape[1] < 1:
        continue
    obj = aa.Mask2D(mask=mask, pixel_scales=(2.0, 1.0), origin=(0.5, -1.0))
    table = np.array([(y, x) for y in range(mask.shape[0]) for x in range(mask.shape[1])]).reshape(-1, 2)
    for i in range(table.shape[0]):
        record(("obj", k, i), mask_2d_util.check_if_border_pixel, obj, i, table)
    record(("obj-border", k), mask_2d_util.border_slim_indexes_from, obj)

# the mask passed in must not be modified, and no aliasing of the input
probe = masks[-6].copy()
before = probe.copy()
table = native_to_slim_of(probe)
for i in range(table.shape[0]):
    record(("alias", i), mask_2d_util.check_if_border_pixel, probe, i, table)
record("alias-unchanged", lambda: bool((probe == before).all()) and probe.flags.writeable)

# --------------------------------------------------------------------------------------------------------------
# 2) the util-level and object-level consumers
# --------------------------------------------------------------------------------------------------------------

geometries = [
    dict(pixel_scales=(1.0, 1.0), origin=(0.0, 0.0)),
    dict(pixel_scales=(2.0, 0.5), origin=(0.5, -1.0)),
    dict(pixel_scales=(0.1, 0.3), origin=(-3.0, 7.0)),
]

for k, mask in enumerate(masks):
    if mask.all():
        # fully masked: record whatever happens too
        pass
    edge = record(("edge", k), mask_2d_util.edge_1d_indexes_from, mask)
    table = native_to_slim_of(mask)
    if not isinstance(edge, Exception):
        record(("total", k), mask_2d_util.total_border_pixels_from, mask, edge, table)
    record(("border_slim", k), mask_2d_util.border_slim_indexes_from, mask)
    # repeated call, same object
    record(("border_slim-again", k), mask_2d_util.border_slim_indexes_from, mask)

    if k % 5 == 0 or k >= len(masks) - 6:
        geom = geometries[k % len(geometries)]

        def build():
            return aa.Mask2D(mask=mask, **geom)

        obj = record(("Mask2D", k), build)
        if isinstance(obj, Exception):
            continue
        record(("di.border_slim", k), lambda: np.array(obj.derive_indexes.border_slim))
        record(("di.border_slim-2", k), lambda: np.array(obj.derive_indexes.border_slim))
        record(("di.border_native", k), lambda: np.array(obj.derive_indexes.border_native))
        record(("di.edge_slim", k), lambda: np.array(obj.derive_indexes.edge_slim))
        record(("dm.border", k), lambda: np.array(obj.derive_mask.border))
        record(("dm.edge", k), lambda: np.array(obj.derive_mask.edge))
        record(("dg.border", k), lambda: np.array(obj.derive_grid.border))
        record(("dg.edge", k), lambda: np.array(obj.derive_grid.edge))
        for sub_size in (1, 2):
            record(
                ("sub_border", k, sub_size),
                border_relocator.sub_border_pixel_slim_indexes_from,
                mask_2d=np.array(mask),
                sub_size=np.full(int((~mask).sum()), sub_size),
            )

# standard mask constructors, including ones touching the edges of the array
ctor_masks = []
ctor_masks.append(lambda: aa.Mask2D.circular(shape_native=(7, 7), radius=3.6, pixel_scales=1.0))
ctor_masks.append(lambda: aa.Mask2D.circular(shape_native=(7, 9), radius=10.0, pixel_scales=(1.0, 2.0)))
ctor_masks.append(lambda: aa.Mask2D.circular(shape_native=(9, 6), radius=2.5, pixel_scales=(0.5, 1.0), centre=(1.0, 1.0)))
ctor_masks.append(
    lambda: aa.Mask2D.circular_annular(shape_native=(11, 11), inner_radius=2.0, outer_radius=6.0, pixel_scales=1.0)
)
ctor_masks.append(
    lambda: aa.Mask2D.circular_annular(
        shape_native=(10, 13), inner_radius=1.0, outer_radius=4.0, pixel_scales=(1.0, 0.7), centre=(2.0, -2.0)
    )
)
ctor_masks.append(lambda: aa.Mask2D.all_false(shape_native=(4, 6), pixel_scales=(1.0, 3.0), origin=(1.0, 2.0)))
ctor_masks.append(
    lambda: aa.Mask2D.elliptical(
        shape_native=(9, 9), major_axis_radius=6.0, axis_ratio=0.4, angle=30.0, pixel_scales=1.0
    )
)

for k, ctor in enumerate(ctor_masks):
    obj = record(("ctor", k), ctor)
    if isinstance(obj, Exception):
        continue
    record(("ctor.border_slim", k), lambda: np.array(obj.derive_indexes.border_slim))
    record(("ctor.border_native", k), lambda: np.array(obj.derive_indexes.border_native))
    record(("ctor.dm.border", k), lambda: np.array(obj.derive_mask.border))
    record(("ctor.dg.border", k), lambda: np.array(obj.derive_grid.border))
    record(("ctor.util-on-object", k), mask_2d_util.border_slim_indexes_from, obj)

    def relocate():
        grid = aa.Grid2D.from_mask(mask=obj)
        relocator = aa.BorderRelocator(mask=obj, sub_size=1)
        return np.array(relocator.relocated_grid_from(grid=grid * 1.7))

    record(("ctor.relocated", k), relocate)

print("records", N_RECORDS)
print("digest", H.hexdigest())
