"""
Differential test for the C03-7 twin (Convolver.__init__ clean-up).

Builds many Convolvers (square / non-square masks, holes, single pixel, fully masked, fully unmasked interior, masks
touching the edge -> MaskException, even kernels -> KernelException, signed kernels, kernels containing exactly -1.0,
0.0, NaN and inf, anisotropic pixel scales, non-zero origins, slim (non-native) kernels, plain ndarray masks) and
hashes every table built by __init__ plus the outputs of convolve_image / convolve_image_no_blurring /
convolve_mapping_matrix, raised exception types, and aliasing / in-place effects on the inputs.

Prints one sha256 digest: it must be identical on the clean HEAD tree and on the twin tree.
"""
import hashlib
import warnings

warnings.filterwarnings("ignore")

import numpy as np

import autoarray as aa

H = hashlib.sha256()
N_RECORDS = 0


def put(tag, value):
    global N_RECORDS
    N_RECORDS += 1
    H.update(tag.encode())
    if isinstance(value, np.ndarray):
        H.update(str(value.dtype).encode())
        H.update(str(value.shape).encode())
        H.update(np.ascontiguousarray(value).tobytes())
    else:
        H.update(repr(value).encode())


TABLES = [
    "mask_index_array",
    "pixels_in_mask",
    "kernel_max_size",
    "image_frame_1d_indexes",
    "image_frame_1d_kernels",
    "image_frame_1d_lengths",
    "blurring_mask",
    "pixels_in_blurring_mask",
    "blurring_frame_1d_indexes",
    "blurring_frame_1d_kernels",
    "blurring_frame_1d_lengths",
]


def run_case(label, mask_bool, kernel_values, pixel_scales=1.0, origin=(0.0, 0.0), rng=None,
             raw_mask=False, slim_kernel=False):
    rng = rng or np.random.default_rng(0)
    put("case", label)

    try:
        mask = aa.Mask2D(mask=mask_bool, pixel_scales=pixel_scales, origin=origin)
        kernel = aa.Kernel2D.no_mask(values=kernel_values, pixel_scales=pixel_scales)
        if slim_kernel:
            kernel = kernel.slim
    except Exception as e:  # construction of the inputs is not under test, but record it
        put("input-exc", type(e).__name__)
        return

    mask_before = np.array(mask).copy()
    kernel_before = np.array(kernel.native).copy()
    kernel_native_obj = kernel.native

    mask_arg = np.array(mask) if raw_mask else mask

    try:
        convolver = aa.Convolver(mask=mask_arg, kernel=kernel)
    except Exception as e:
        put("init-exc", type(e).__name__ + ":" + str(e))
        put("mask-unchanged", bool(np.array_equal(np.array(mask), mask_before)))
        put("kernel-unchanged", bool(np.array_equal(np.array(kernel.native), kernel_before, equal_nan=True)))
        return

    for name in TABLES:
        v = getattr(convolver, name)
        put(name, np.array(v) if isinstance(v, np.ndarray) else v)
        put(name + "-type", type(v).__name__)

    # aliasing / in-place effects visible to callers
    put("mask-is", convolver.mask is mask_arg)
    put("kernel-is", convolver.kernel is kernel)
    put("mask-unchanged", bool(np.array_equal(np.array(mask), mask_before)))
    put("kernel-unchanged", bool(np.array_equal(np.array(kernel.native), kernel_before, equal_nan=True)))
    put("mia-owndata", bool(convolver.mask_index_array.flags.owndata))
    put("tables-share-kernel", bool(np.shares_memory(convolver.blurring_frame_1d_kernels, np.asarray(kernel_native_obj))))
    put("tables-share-kernel-img", bool(np.shares_memory(convolver.image_frame_1d_kernels, np.asarray(kernel_native_obj))))
    put("blurmask-shares-mask", bool(np.shares_memory(convolver.blurring_mask, np.asarray(mask))))

    if raw_mask:
        return

    native = rng.normal(size=mask_bool.shape)

    for rep in range(2):  # repeated calls on the same convolver
        try:
            image = aa.Array2D(values=native, mask=mask)
            blurring_mask = mask.derive_mask.blurring_from(kernel_shape_native=kernel.shape_native)
            blurring_image = aa.Array2D(values=native * (rep + 1), mask=blurring_mask)
            out = convolver.convolve_image(image=image, blurring_image=blurring_image)
            put("convolve_image", np.array(out.slim))
            put("convolve_image-native", np.array(out.native))
        except Exception as e:
            put("convolve_image-exc", type(e).__name__)

        try:
            out = convolver.convolve_image_no_blurring(image=aa.Array2D(values=native, mask=mask))
            put("no_blurring", np.array(out.slim))
        except Exception as e:
            put("no_blurring-exc", type(e).__name__)

        try:
            mm = rng.normal(size=(convolver.pixels_in_mask, 3))
            mm[rng.random(mm.shape) < 0.4] = 0.0
            out = convolver.convolve_mapping_matrix(mapping_matrix=mm)
            put("mapping_matrix", np.array(out))
        except Exception as e:
            put("mapping_matrix-exc", type(e).__name__)

    # tables unchanged by use
    for name in TABLES:
        v = getattr(convolver, name)
        put(name + "-after", np.array(v) if isinstance(v, np.ndarray) else v)


def block_mask(shape, r0, r1, c0, c1, holes=()):
    m = np.full(shape, True)
    m[r0:r1, c0:c1] = False
    for h in holes:
        m[h] = True
    return m


KERNELS = {
    "ones3": np.ones((3, 3)),
    "arange9": np.arange(1.0, 10.0).reshape(3, 3),
    "pos3_zeros": np.array([[0.0, 0.1, 0.05], [0.1, 0.4, 0.1], [0.05, 0.1, 0.0]]),
    "signed3x5": np.array(
        [[0.0, -1.0, 0.5, 0.0, 0.25], [-1.0, 4.0, -1.5, 0.75, -0.5], [0.3, -1.0, 0.0, 0.2, -0.1]]
    ),
    "signed5x3": np.array(
        [[0.0, -1.0, 0.5, 0.0, 0.25], [-1.0, 4.0, -1.5, 0.75, -0.5], [0.3, -1.0, 0.0, 0.2, -0.1]]
    ).T.copy(),
    "minus_ones3": -np.ones((3, 3)),  # every real entry equals the padding value -1
    "laplace3": np.array([[0.0, -1.0, 0.0], [-1.0, 4.0, -1.0], [0.0, -1.0, 0.0]]),
    "all_negative5": -np.arange(1.0, 26.0).reshape(5, 5) / 7.0,
    "tiny_negative3": np.array([[1e-300, -1e-300, 0.0], [-0.0, 1.0, -5e-324], [0.5, -0.5, 2.0]]),
    "nan3": np.array([[0.1, np.nan, 0.1], [0.2, 0.5, -0.2], [np.nan, 0.1, 0.0]]),
    "inf3": np.array([[0.1, np.inf, 0.1], [0.2, 0.5, -np.inf], [0.3, 0.1, 0.0]]),
    "k1x1": np.array([[2.5]]),
    "k1x1_neg": np.array([[-2.5]]),
    "k1x3_signed": np.array([[-1.0, 2.0, -3.0]]),
    "k3x1_signed": np.array([[-1.0], [2.0], [-3.0]]),
    "k7x7_signed": np.cos(np.arange(49.0)).reshape(7, 7),
    "even2x2": np.ones((2, 2)),
    "even3x4": -np.ones((3, 4)),
    "even4x3": np.ones((4, 3)),
}

rng_master = np.random.default_rng(12345)

MASKS = {
    "demo_12x14_hole": block_mask((12, 14), 4, 8, 5, 10, holes=[(5, 7)]),
    "sq_9x9_block": block_mask((9, 9), 3, 6, 3, 6),
    "single_pixel_9x9": block_mask((9, 9), 4, 5, 4, 5),
    "single_pixel_offcentre_11x8": block_mask((11, 8), 6, 7, 3, 4),
    "two_islands_13x15": block_mask((13, 15), 4, 6, 4, 6) & block_mask((13, 15), 7, 9, 9, 12),
    "ring_15x15": block_mask((15, 15), 4, 11, 4, 11, holes=[(slice(6, 9), slice(6, 9))]),
    "all_masked_7x9": np.full((7, 9), True),
    "touch_edge_top_8x8": block_mask((8, 8), 0, 3, 3, 5),
    "touch_edge_corner_8x10": block_mask((8, 10), 5, 8, 7, 10),
    "near_edge_1px_8x8": block_mask((8, 8), 1, 7, 1, 7),
    "all_unmasked_5x5": np.full((5, 5), False),
    "tall_20x7": block_mask((20, 7), 4, 16, 3, 4),
    "wide_7x20": block_mask((7, 20), 3, 4, 4, 16),
}
for i in range(6):
    shape = (int(rng_master.integers(10, 16)), int(rng_master.integers(10, 16)))
    m = np.full(shape, True)
    inner = rng_master.random((shape[0] - 8, shape[1] - 8)) < 0.55
    m[4:-4, 4:-4] = ~inner
    MASKS[f"random_{i}_{shape[0]}x{shape[1]}"] = m

case_no = 0
for mname, m in MASKS.items():
    for kname, k in KERNELS.items():
        case_no += 1
        run_case(
            f"{mname}|{kname}",
            m,
            k,
            rng=np.random.default_rng(case_no),
        )

# anisotropic pixel scales / non-zero origins / raw ndarray masks / slim kernels
for kname in ["signed3x5", "minus_ones3", "pos3_zeros", "all_negative5", "even2x2"]:
    for mname in ["demo_12x14_hole", "ring_15x15", "random_2_" + [n for n in MASKS if n.startswith("random_2_")][0].split("_", 2)[2], "all_masked_7x9"]:
        case_no += 1
        run_case(f"aniso|{mname}|{kname}", MASKS[mname], KERNELS[kname], pixel_scales=(0.5, 2.0),
                 origin=(1.5, -3.0), rng=np.random.default_rng(case_no))
        case_no += 1
        run_case(f"rawmask|{mname}|{kname}", MASKS[mname], KERNELS[kname], raw_mask=True,
                 rng=np.random.default_rng(case_no))
        case_no += 1
        run_case(f"slimkernel|{mname}|{kname}", MASKS[mname], KERNELS[kname], slim_kernel=True,
                 rng=np.random.default_rng(case_no))

# shared objects: two convolvers from the same mask and kernel objects, interleaved use
mask = aa.Mask2D(mask=MASKS["demo_12x14_hole"], pixel_scales=1.0)
kernel = aa.Kernel2D.no_mask(values=KERNELS["signed3x5"], pixel_scales=1.0)
c1 = aa.Convolver(mask=mask, kernel=kernel)
c2 = aa.Convolver(mask=mask, kernel=kernel)
put("shared-mia", bool(np.shares_memory(c1.mask_index_array, c2.mask_index_array)))
put("shared-bfk", bool(np.shares_memory(c1.blurring_frame_1d_kernels, c2.blurring_frame_1d_kernels)))
c1.blurring_frame_1d_kernels[:] = 0.0
c1.mask_index_array[:] = -7
put("c2-bfk-after-c1-mutation", np.array(c2.blurring_frame_1d_kernels))
put("c2-mia-after-c1-mutation", np.array(c2.mask_index_array))
put("kernel-after-c1-mutation", np.array(kernel.native))
put("mask-after-c1-mutation", np.array(mask))
c3 = aa.Convolver(mask=mask, kernel=kernel)
for name in TABLES:
    v = getattr(c3, name)
    put("c3-" + name, np.array(v) if isinstance(v, np.ndarray) else v)

# the static helper itself (signature / keyword names / return dtypes unchanged)
frame, kernel_frame = aa.Convolver.frame_at_coordinates_jit(
    coordinates=(5, 6),
    mask=MASKS["demo_12x14_hole"],
    mask_index_array=np.array(c2.mask_index_array),
    kernel_2d=KERNELS["signed3x5"],
)
put("helper-frame", frame)
put("helper-kernel-frame", kernel_frame)

print("records", N_RECORDS, "cases", case_no)
print("digest", H.hexdigest())
