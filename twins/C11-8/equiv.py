"""
Differential test for the C11-8 twin (convert_array_2d as a dispatcher over convert_array_2d_to_slim /
convert_array_2d_to_native).

Prints a sha256 digest over every observable of a large deterministic set of calls: result type, dtype, shape,
memory layout flags, bytes, exception type, whether the input was modified, whether the result aliases the input,
and whether writing to the result / normalizing a kernel writes through to the caller's objects.

Run on the clean tree and on the twin tree; the digests must be identical.
"""
import hashlib
import warnings

warnings.filterwarnings("ignore")

import numpy as np
import autoarray as aa
from autoarray.abstract_ndarray import AbstractNDArray
from autoarray.structures.arrays import array_2d_util as util

import os

H = hashlib.sha256()
# optional: EQUIV_DUMP=<file> writes every record to a file so that two trees can be diffed line by line
DUMP = open(os.environ["EQUIV_DUMP"], "w") if os.environ.get("EQUIV_DUMP") else None
N_RECORDS = 0


def raw(x):
    while isinstance(x, AbstractNDArray):
        x = x._array
    return x


def describe(x):
    """A deterministic description of a result (type, dtype, shape, layout, bytes)."""
    if isinstance(x, AbstractNDArray):
        r = raw(x)
        extra = ""
        if hasattr(x, "mask") and isinstance(x.mask, AbstractNDArray):
            m = x.mask
            extra = "|mask:%s:%s:%s:%s" % (
                np.asarray(raw(m)).shape,
                np.asarray(raw(m)).tobytes().hex(),
                getattr(m, "pixel_scales", None),
                getattr(m, "origin", None),
            )
        return "W<%s>(%s)%s" % (type(x).__name__, describe(r), extra)
    if isinstance(x, np.ndarray):
        return "%s|%s|%s|C%d|F%d|W%d|O%d|%s" % (
            type(x).__name__,
            x.dtype.str,
            x.shape,
            x.flags["C_CONTIGUOUS"],
            x.flags["F_CONTIGUOUS"],
            x.flags["WRITEABLE"],
            x.flags["OWNDATA"],
            x.tobytes().hex() if x.dtype != object else repr(x.tolist()),
        )
    return "%s|%r" % (type(x).__name__, x)


def record(tag, *items):
    global N_RECORDS
    N_RECORDS += 1
    line = tag + " :: " + " ;; ".join(str(i) for i in items)
    H.update(line.encode())
    H.update(b"\n")
    if DUMP is not None:
        DUMP.write(line + "\n")


def snapshot(x):
    """bytes of the caller's object (list / ndarray / wrapper) to detect in-place modification."""
    if isinstance(x, (list, tuple)):
        return repr(x)
    r = raw(x)
    if isinstance(r, np.ndarray):
        return r.dtype.str + str(r.shape) + (r.tobytes().hex() if r.dtype != object else repr(r.tolist()))
    return repr(r)


def shares(a, b):
    a, b = raw(a), raw(b)
    if isinstance(a, np.ndarray) and isinstance(b, np.ndarray):
        return bool(np.shares_memory(a, b))
    return a is b


def call(tag, func, inputs, **kwargs):
    """Call func(**kwargs); record the result / exception, input mutation, aliasing and write-through."""
    before = [snapshot(i) for i in inputs]
    try:
        result = func(**kwargs)
    except Exception as e:  # noqa
        record(tag, "EXC", type(e).__name__, [snapshot(i) == b for i, b in zip(inputs, before)])
        return None
    unchanged = [snapshot(i) == b for i, b in zip(inputs, before)]
    alias = [shares(result, i) or (result is i) for i in inputs]
    record(tag, describe(result), unchanged, alias)
    # write-through: modify the result in place and look at the inputs again
    r = raw(result)
    if isinstance(r, np.ndarray) and r.size > 0 and r.flags["WRITEABLE"] and r.dtype.kind in "fiub":
        saved = r.copy()
        try:
            r[...] = 1 if r.dtype.kind == "b" else 7
            record(tag + "/write", [snapshot(i) == b for i, b in zip(inputs, before)])
        finally:
            r[...] = saved
    return result


rng = np.random.RandomState(20261003)


def random_mask_bool(shape, kind):
    if kind == "none":
        return np.zeros(shape, dtype=bool)
    if kind == "all":
        return np.ones(shape, dtype=bool)
    if kind == "edge":  # unmasked pixels touching every edge, masked centre
        m = np.ones(shape, dtype=bool)
        m[0, :] = False
        m[-1, :] = False
        m[:, 0] = False
        m[:, -1] = False
        return m
    if kind == "single":
        m = np.ones(shape, dtype=bool)
        m[rng.randint(shape[0]), rng.randint(shape[1])] = False
        return m
    return rng.rand(*shape) < 0.4


def make_mask(shape, kind, idx):
    pixel_scales = [(1.0, 1.0), (0.5, 2.0), (0.1, 0.3)][idx % 3]
    origin = [(0.0, 0.0), (1.5, -2.5), (-0.3, 0.7)][idx % 3]
    return aa.Mask2D(mask=random_mask_bool(shape, kind), pixel_scales=pixel_scales, origin=origin)


SHAPES = [(1, 1), (1, 4), (5, 1), (3, 3), (2, 5), (6, 4), (7, 7)]
KINDS = ["none", "all", "edge", "single", "random", "random"]
DTYPES = [np.float64, np.float32, np.int64, np.int32, np.uint8, np.bool_, np.complex128, np.float16]


def special_values(a):
    """sprinkle nan / inf / -0.0 into a float array (in place)."""
    if a.dtype.kind == "f" and a.size >= 3:
        flat = a.reshape(-1)
        flat[0] = -0.0
        flat[a.size // 2] = np.nan
        flat[-1] = np.inf
    return a


# ----------------------------------------------------------------------------------------------------------------
# 1) convert_array_2d called directly: every representation x dtype x mask kind x store_native x skip_mask
# ----------------------------------------------------------------------------------------------------------------
case = 0
for shape in SHAPES:
    for kind in KINDS:
        case += 1
        mask = make_mask(shape, kind, case)
        n = int(mask.pixels_in_mask)
        for dtype in DTYPES:
            base_native = (rng.rand(*shape) * 20 - 5).astype(dtype)
            base_slim = (rng.rand(n) * 20 - 5).astype(dtype)
            variants = []
            variants.append(("nat", base_native.copy()))
            variants.append(("slim", base_slim.copy()))
            if dtype is np.float64:
                variants.append(("nat_special", special_values(base_native.copy())))
                variants.append(("slim_special", special_values(base_slim.copy())))
                variants.append(("nat_list", base_native.tolist()))
                variants.append(("slim_list", base_slim.tolist()))
                variants.append(("nat_F", np.asfortranarray(base_native)))
                variants.append(("nat_T", np.ascontiguousarray(base_native.T).T))
                big = rng.rand(shape[0] * 2, shape[1] * 3)
                variants.append(("nat_strided", big[::2, ::3]))
                bigs = rng.rand(max(n, 1) * 2)
                variants.append(("slim_strided", bigs[::2][:n]))
                ro = base_native.copy()
                ro.flags.writeable = False
                variants.append(("nat_readonly", ro))
                ro1 = base_slim.copy()
                ro1.flags.writeable = False
                variants.append(("slim_readonly", ro1))
                variants.append(("nat_masked_array", np.ma.masked_array(base_native.copy(), mask=base_native > 10)))
                variants.append(("nat_matrix", np.asmatrix(base_native.copy())))
                variants.append(("nat_object", base_native.astype(object)))
                variants.append(("slim_object", base_slim.astype(object)))
                # wrappers (Array2D is not an ndarray subclass): slim and native stored
                variants.append(("wrap_slim", aa.Array2D(values=base_native.copy(), mask=mask)))
                variants.append(("wrap_native", aa.Array2D(values=base_native.copy(), mask=mask, store_native=True)))
                variants.append(("wrap_mask", mask))
                # wrong sizes -> exceptions
                variants.append(("nat_wrong", rng.rand(shape[0] + 1, shape[1])))
                variants.append(("nat_wrong_T", rng.rand(shape[1], shape[0] + 2)))
                variants.append(("slim_wrong", rng.rand(n + 1)))
                variants.append(("slim_empty", np.zeros(0)))
                variants.append(("empty_list", []))
                variants.append(("tuple", tuple(base_slim.tolist())))
                variants.append(("scalar", 3.0))
                variants.append(("none", None))
                # outside of the contract: 0-d and 3-d values (kept as they are by the slim storage)
                variants.append(("zero_d", np.array(2.5)))
                variants.append(("three_d", rng.rand(n, 2, 2)))
                variants.append(("three_d_b", rng.rand(shape[0], shape[1], 1)))
            for name, values in variants:
                for store_native in (False, True):
                    for skip_mask in (False, True):
                        if name in ("zero_d", "three_d", "three_d_b") and store_native:
                            # documented residual (garbage in): only which exception is raised can differ
                            continue
                        call(
                            "convert|%s|%s|%s|%s|sn%d|sk%d"
                            % (shape, kind, np.dtype(dtype).str, name, store_native, skip_mask),
                            util.convert_array_2d,
                            [values, mask],
                            array_2d=values,
                            mask_2d=mask,
                            store_native=store_native,
                            skip_mask=skip_mask,
                        )
                # defaults / positional
                call("convert_default|%s|%s|%s" % (shape, kind, name), lambda: util.convert_array_2d(values, mask), [values, mask])

# a mask whose ndarray is not C ordered / a plain ndarray mask (no pixels_in_mask attribute)
for shape in [(3, 4), (5, 2)]:
    values = rng.rand(*shape)
    slim = rng.rand(shape[0] * shape[1])
    plain = np.zeros(shape, dtype=bool)
    for sn in (False, True):
        for sk in (False, True):
            call("plainmask|nat|%s|%d|%d" % (shape, sn, sk), util.convert_array_2d, [values, plain],
                 array_2d=values, mask_2d=plain, store_native=sn, skip_mask=sk)
            call("plainmask|slim|%s|%d|%d" % (shape, sn, sk), util.convert_array_2d, [slim, plain],
                 array_2d=slim, mask_2d=plain, store_native=sn, skip_mask=sk)
    m = aa.Mask2D(mask=random_mask_bool(shape, "random"), pixel_scales=1.0)
    m._array = np.asfortranarray(m._array)
    for sn in (False, True):
        for sk in (False, True):
            call("fmask|nat|%s|%d|%d" % (shape, sn, sk), util.convert_array_2d, [values, m],
                 array_2d=values, mask_2d=m, store_native=sn, skip_mask=sk)
            vf = np.asfortranarray(values)
            call("fmask|natF|%s|%d|%d" % (shape, sn, sk), util.convert_array_2d, [vf, m],
                 array_2d=vf, mask_2d=m, store_native=sn, skip_mask=sk)

# ----------------------------------------------------------------------------------------------------------------
# 2) the two helpers called directly (public functions of the util module)
# ----------------------------------------------------------------------------------------------------------------
case = 0
for shape in SHAPES:
    for kind in KINDS:
        case += 1
        mask = make_mask(shape, kind, case)
        n = int(mask.pixels_in_mask)
        nat = special_values(rng.rand(*shape) * 3)
        slim = rng.rand(n)
        vals = [
            ("nat", nat), ("slim", slim), ("nat_int", (nat * 0 + 3).astype(int)), ("nat_F", np.asfortranarray(nat)),
            ("wrap_slim", aa.Array2D(values=rng.rand(*shape), mask=mask)),
            ("wrap_native", aa.Array2D(values=rng.rand(*shape), mask=mask, store_native=True)),
            ("nat_wrong", rng.rand(shape[0] + 1, shape[1])), ("slim_wrong", rng.rand(n + 2)),
            ("list", nat.tolist()), ("three_d", rng.rand(n, 1, 2)), ("zero_d", np.array(1.0)),
        ]
        for name, v in vals:
            call("to_slim|%s|%s|%s" % (shape, kind, name), util.convert_array_2d_to_slim, [v, mask], array_2d=v, mask_2d=mask)
            call("to_native|%s|%s|%s" % (shape, kind, name), util.convert_array_2d_to_native, [v, mask], array_2d=v, mask_2d=mask)
        plain = np.array(mask)
        for name, v in vals[:2]:
            call("to_slim_plain|%s|%s|%s" % (shape, kind, name), util.convert_array_2d_to_slim, [v, plain], array_2d=v, mask_2d=plain)
            call("to_native_plain|%s|%s|%s" % (shape, kind, name), util.convert_array_2d_to_native, [v, plain], array_2d=v, mask_2d=plain)

# ----------------------------------------------------------------------------------------------------------------
# 3) Array2D / Kernel2D constructors and derived structures: values, aliasing, in-place normalization
# ----------------------------------------------------------------------------------------------------------------
case = 0
for shape in SHAPES:
    for kind in KINDS:
        case += 1
        mask = make_mask(shape, kind, case)
        n = int(mask.pixels_in_mask)
        nat = rng.rand(*shape) + 0.5
        slim = rng.rand(n) + 0.5
        for name, v in [("nat", nat), ("slim", slim), ("nat_list", nat.tolist()), ("slim_list", slim.tolist())]:
            for sn in (False, True):
                for sk in (False, True):
                    arr = call("Array2D|%s|%s|%s|%d|%d" % (shape, kind, name, sn, sk), aa.Array2D, [v, mask],
                               values=v, mask=mask, store_native=sn, skip_mask=sk)
                    if arr is None:
                        continue
                    # structure built from a structure (slim / native stored): never aliases / modifies the source
                    for sn2 in (False, True):
                        call("Array2D_from_Array2D|%s|%s|%s|%d|%d|%d" % (shape, kind, name, sn, sk, sn2), aa.Array2D,
                             [arr, v, mask], values=arr, mask=mask, store_native=sn2)
                    record("derived|%s|%s|%s|%d|%d" % (shape, kind, name, sn, sk),
                           describe(arr.slim), describe(arr.native), describe(arr.binned) if hasattr(arr, "binned") else "")
                    record("derived_unchanged", snapshot(v) , snapshot(arr))

            # kernels with in-place normalization
            if n > 0:
                for normalize in (False, True):
                    k = call("Kernel2D|%s|%s|%s|%d" % (shape, kind, name, normalize), aa.Kernel2D, [v, mask],
                             values=v, mask=mask, normalize=normalize)
                    if k is None:
                        continue
                    before = snapshot(k)
                    kn = k.normalized
                    record("Kernel2D.normalized|%s|%s|%s|%d" % (shape, kind, name, normalize), describe(kn),
                           snapshot(k) == before, shares(kn, k), snapshot(v))
                    k2 = call("Kernel2D_from_Kernel2D|%s|%s|%s" % (shape, kind, name), aa.Kernel2D, [k, v],
                              values=k, mask=mask, normalize=True)
                    k3 = call("Kernel2D_from_Array2D|%s|%s|%s" % (shape, kind, name), aa.Kernel2D,
                              [aa.Array2D(values=v, mask=mask)], values=aa.Array2D(values=v, mask=mask), mask=mask,
                              normalize=True)

# no_mask constructors with slim values + shape_native (the trigger of the seed), repeated use of one input
for shape in SHAPES:
    for ps in [1.0, (1.0, 0.5), (0.2, 0.7)]:
        for origin in [(0.0, 0.0), (0.3, -1.2)]:
            size = shape[0] * shape[1]
            slim = np.arange(1.0, size + 1.0)
            nat = slim.reshape(shape).copy()
            for name, v, kw in [
                ("slim", slim, dict(shape_native=shape)),
                ("nat", nat, dict()),
                ("slim_list", slim.tolist(), dict(shape_native=shape)),
                ("nat_list", nat.tolist(), dict()),
            ]:
                tag = "%s|%s|%s|%s" % (shape, ps, origin, name)
                a1 = call("Array2D.no_mask|" + tag, aa.Array2D.no_mask, [v], values=v, pixel_scales=ps, origin=origin, **kw)
                k1 = call("Kernel2D.no_mask|norm|" + tag, aa.Kernel2D.no_mask, [v], values=v, pixel_scales=ps, origin=origin, normalize=True, **kw)
                k2 = call("Kernel2D.no_mask|raw|" + tag, aa.Kernel2D.no_mask, [v], values=v, pixel_scales=ps, origin=origin, normalize=False, **kw)
                k3 = call("Kernel2D.no_mask|norm_again|" + tag, aa.Kernel2D.no_mask, [v], values=v, pixel_scales=ps, origin=origin, normalize=True, **kw)
                record("after|" + tag, snapshot(v), describe(a1), describe(k1), describe(k2), describe(k3))
                if k2 is not None:
                    kn = k2.normalized
                    record("normalized_read|" + tag, describe(kn), describe(k2), snapshot(v))
                    kn2 = k2.normalized
                    record("normalized_read2|" + tag, describe(kn2), describe(k2), shares(kn, kn2))

# derived-structure methods that call convert_array_2d with a wrapper (Array2D) argument
case = 0
for shape in [(5, 5), (6, 4), (7, 9), (4, 7)]:
    for kind in ["none", "edge", "single", "random", "random"]:
        case += 1
        mask = make_mask(shape, kind, case)
        nat = rng.rand(*shape) + 1.0
        for sn in (False, True):
            arr = aa.Array2D(values=nat, mask=mask, store_native=sn)
            before = snapshot(arr)
            for mname, f in [
                ("resized_up", lambda a: a.resized_from(new_shape=(shape[0] + 3, shape[1] + 2))),
                ("resized_down", lambda a: a.resized_from(new_shape=(shape[0] - 2, shape[1] - 1))),
                ("resized_pad1", lambda a: a.resized_from(new_shape=(shape[0] + 2, shape[1] + 2), mask_pad_value=1)),
                ("padded", lambda a: a.padded_before_convolution_from(kernel_shape=(3, 5))),
                ("trimmed", lambda a: a.trimmed_after_convolution_from(kernel_shape=(3, 3))),
                ("zoomed", lambda a: a.zoomed_around_mask(buffer=1)),
                ("zoomed0", lambda a: a.zoomed_around_mask(buffer=0)),
                ("apply_mask", lambda a: a.apply_mask(mask=make_mask(shape, "edge", 0))),
                ("binned", lambda a: a.binned),
                ("slim", lambda a: a.slim),
                ("native", lambda a: a.native),
            ]:
                call("method|%s|%s|%d|%s" % (shape, kind, sn, mname), lambda: f(arr), [arr, nat, mask])
            record("method_after|%s|%s|%d" % (shape, kind, sn), snapshot(arr) == before)

# ----------------------------------------------------------------------------------------------------------------
# 4) order (in)dependence through shared PSF objects: simulator and convolver built from the same kernel
# ----------------------------------------------------------------------------------------------------------------
kernel_values_2d = np.array([[0.0, 1.0, 0.0], [1.0, 2.0, 1.0], [0.0, 1.0, 0.0]])
image = aa.Array2D.no_mask(values=[[0.0, 0.0, 0.0], [0.0, 1.0, 0.0], [0.0, 0.0, 0.0]], pixel_scales=0.1)


def simulate(psf, normalize_psf):
    simulator = aa.SimulatorImaging(
        exposure_time=1.0, psf=psf, normalize_psf=normalize_psf,
        add_poisson_noise_to_data=False, include_poisson_noise_in_noise_map=False,
    )
    return simulator.via_image_from(image=image)


for build in ("native", "slim"):
    if build == "native":
        psf = aa.Kernel2D.no_mask(values=kernel_values_2d, pixel_scales=0.1)
    else:
        psf = aa.Kernel2D.no_mask(values=kernel_values_2d.reshape(-1).copy(), shape_native=(3, 3), pixel_scales=0.1)
    first = simulate(psf, False)
    record("sim1|" + build, describe(first.data), describe(first.psf), describe(psf))
    second = simulate(psf, True)
    record("sim2|" + build, describe(second.data), describe(second.psf), describe(psf))
    third = simulate(psf, False)
    record("sim3|" + build, describe(third.data), describe(third.psf), describe(psf))
    blurred = psf.convolved_array_from(array=image)
    record("conv|" + build, describe(blurred), describe(psf))
    resc = psf.rescaled_with_odd_dimensions_from(rescale_factor=1.0, normalize=True) if hasattr(psf, "rescaled_with_odd_dimensions_from") else None
    record("resc|" + build, describe(resc) if resc is not None else "", describe(psf))

# imaging dataset holding the caller's arrays
for sn in (False, True):
    mask = make_mask((5, 5), "edge", 1)
    data = aa.Array2D(values=rng.rand(5, 5), mask=mask, store_native=sn)
    noise = aa.Array2D(values=rng.rand(5, 5) + 1.0, mask=mask, store_native=sn)
    psf = aa.Kernel2D.no_mask(values=kernel_values_2d.reshape(-1).copy(), shape_native=(3, 3), pixel_scales=mask.pixel_scales)
    b = (snapshot(data), snapshot(noise), snapshot(psf))
    try:
        ds = aa.Imaging(data=data, noise_map=noise, psf=psf)
        record("imaging|%d" % sn, describe(ds.data), describe(ds.noise_map), describe(ds.psf),
               (snapshot(data), snapshot(noise), snapshot(psf)) == b)
        ds2 = ds.apply_mask(mask=make_mask((5, 5), "single", 1))
        record("imaging_masked|%d" % sn, describe(ds2.data), describe(ds2.noise_map), describe(ds2.psf),
               (snapshot(data), snapshot(noise), snapshot(psf)) == b)
    except Exception as e:  # noqa
        record("imaging|%d" % sn, "EXC", type(e).__name__)

print("records", N_RECORDS)
print("digest", H.hexdigest())
