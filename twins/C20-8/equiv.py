"""
Differential test for the C20-8 twin: prints a sha256 digest over the observable
behaviour of CoordinateArrayTriangles (values, dtypes, shapes, exception types),
for un-flipped and flipped sets, chains of up_sample / neighborhood / for_indexes,
different read orders (cache footprint independent results), edge cases.
Run on the clean tree and on the twin tree; the digests must be identical.
"""
import hashlib
import warnings

import numpy as np

warnings.filterwarnings("ignore")

from autoarray.structures.triangles.coordinate_array import CoordinateArrayTriangles
from autoarray.structures.triangles.shape import Point, Circle, Square, Polygon

H = hashlib.sha256()
N_RECORDS = 0
import os
DUMP = open(os.environ['EQUIV_DUMP'], 'w') if os.environ.get('EQUIV_DUMP') else None
EXC = {}


def rec(tag, value):
    global N_RECORDS
    if isinstance(value, np.ndarray) and value.dtype == object:
        # tobytes() of an object array is a list of pointers: use the values
        value = ("object-array", value.shape, repr(value.tolist()))
    N_RECORDS += 1
    if DUMP is not None and not isinstance(value, (tuple, list)):
        v = (str(value.dtype), value.shape, hashlib.md5(np.ascontiguousarray(value).tobytes()).hexdigest()) if isinstance(value, np.ndarray) else value
        DUMP.write(repr(tag) + " :: " + repr(v) + "\n")
    H.update(repr(tag).encode())
    if isinstance(value, np.ndarray):
        H.update(str(value.dtype).encode())
        H.update(repr(value.shape).encode())
        H.update(np.ascontiguousarray(value).tobytes())
    elif isinstance(value, (tuple, list)):
        for i, v in enumerate(value):
            rec((tag, i), v)
    else:
        H.update(repr(value).encode())


def attempt(tag, fn):
    try:
        value = fn()
    except Exception as e:  # noqa
        rec(tag, ("EXC", type(e).__name__))
        EXC[type(e).__name__] = EXC.get(type(e).__name__, 0) + 1
        return None
    rec(tag, value)
    return value


def make(coords, **kw):
    return CoordinateArrayTriangles(coordinates=coords, **kw)


ATTR_ORDERS = [
    ("flip_mask", "flip_array", "triangles", "centres", "vertices", "indices", "means", "area"),
    ("triangles", "flip_array", "flip_mask", "indices", "vertices", "means", "centres", "area"),
    ("flip_array", "flip_mask", "vertices", "triangles"),
    ("vertices", "flip_mask"),
]


def describe(tag, build, depth=0):
    """Record everything observable about the set returned by build()."""
    # different read orders on fresh objects (results must not depend on the order)
    for k, order in enumerate(ATTR_ORDERS):
        try:
            t = build()
        except Exception as e:  # noqa
            rec((tag, "build"), ("EXC", type(e).__name__))
            return
        for name in order:
            attempt((tag, "order", k, name), lambda: getattr(t, name))
        attempt((tag, "order", k, "len"), lambda: len(t))
        # identity of cached values across repeated reads
        for name in ("flip_mask", "flip_array", "triangles"):
            attempt((tag, "order", k, "same", name), lambda: getattr(t, name) is getattr(t, name))

    t = build()
    attempt((tag, "iter"), lambda: np.array(list(t)))
    attempt((tag, "attrs"), lambda: (t.side_length, t.x_offset, t.y_offset, t.flipped, t.scaling_factors))

    # with_vertices / ArrayTriangles view
    def wv():
        a = t.with_vertices(t.vertices)
        return (a.indices, a.vertices, a.triangles, a.area)

    attempt((tag, "with_vertices"), wv)

    # up_sample and neighbourhood: before and after reading other cached properties
    for pre in ((), ("triangles",), ("flip_array",), ("flip_mask",)):
        def run(method):
            s = build()
            for p in pre:
                getattr(s, p)
            r = getattr(s, method)()
            return (
                r.coordinates, r.side_length, r.x_offset, r.y_offset, r.flipped,
                r.flip_mask, r.flip_array, r.triangles, r.vertices, r.indices, len(r), r.area,
                np.asarray(s.coordinates),
            )
        attempt((tag, "up_sample", pre), lambda: run("up_sample"))
        attempt((tag, "neighborhood", pre), lambda: run("neighborhood"))

    # input coordinates are not modified
    attempt((tag, "coords_after"), lambda: np.asarray(t.coordinates))

    # for_indexes
    n = None
    try:
        n = t.coordinates.shape[0]
    except Exception:
        pass
    if n:
        idx_sets = [np.array([0]), np.arange(n)[::-1], np.arange(n) % 2 == 0, np.array([], dtype=int), np.array([n])]
        for j, idx in enumerate(idx_sets):
            def sel():
                s = t.for_indexes(idx)
                return (s.coordinates, s.flipped, s.flip_mask, s.flip_array, s.triangles, len(s),
                        s.up_sample().triangles, s.neighborhood().triangles)
            attempt((tag, "for_indexes", j), sel)

    # containing_indices
    shapes = [
        Point(0.1, 0.1), Point(-1.3, 0.7), Circle(0.0, 0.0, 1.0), Circle(0.4, -0.3, 0.35),
        Square(-0.5, 0.5, -0.5, 0.5) if _square_ok else Point(0.0, 0.0),
    ]
    for j, shape in enumerate(shapes):
        attempt((tag, "containing", j), lambda: build().containing_indices(shape))

    def pipeline():
        s = build()
        idx = s.containing_indices(Circle(0.0, 0.0, 1.2))
        sel = s.for_indexes(idx)
        up = sel.up_sample()
        idx2 = up.containing_indices(Circle(0.0, 0.0, 0.6))
        sel2 = up.for_indexes(idx2)
        hood = sel2.neighborhood()
        return (idx, sel.triangles, up.triangles, idx2, sel2.triangles, hood.triangles,
                hood.up_sample().triangles, hood.flip_mask, hood.flip_array)

    attempt((tag, "pipeline"), pipeline)

    # chains
    if depth < 2:
        describe((tag, "U"), lambda: build().up_sample(), depth + 1)
        describe((tag, "N"), lambda: build().neighborhood(), depth + 1)


try:
    Square(-0.5, 0.5, -0.5, 0.5)
    _square_ok = True
except Exception:
    _square_ok = False

rng = np.random.default_rng(20)

CASES = {}
CASES["one"] = dict(coords=np.array([[0, 0]]))
CASES["two"] = dict(coords=np.array([[0, 0], [1, 0]]))
CASES["demo"] = dict(coords=np.array([[0, 0], [1, 0], [-3, 2], [2, -1]]), side_length=1.5, x_offset=0.25, y_offset=-0.5)
CASES["neg"] = dict(coords=np.array([[-1, -1], [-2, -1], [-3, -5], [4, -7]]), side_length=0.3, x_offset=-2.0, y_offset=3.0)
CASES["dup"] = dict(coords=np.array([[1, 1], [1, 1], [2, 1]]), side_length=2.0)
CASES["float"] = dict(coords=np.array([[0.0, 0.0], [1.0, 1.0], [2.0, -1.0], [-1.0, 0.0]]), side_length=0.7)
CASES["halfint"] = dict(coords=np.array([[0.5, 0.0], [1.5, 1.0], [0.25, 0.25]]), side_length=1.1)
CASES["nan"] = dict(coords=np.array([[0.0, 0.0], [np.nan, np.nan], [1.0, 2.0]]))
CASES["int8"] = dict(coords=np.array([[0, 0], [1, 0], [3, 3]], dtype=np.int8))
CASES["uint"] = dict(coords=np.array([[0, 0], [1, 0], [3, 2]], dtype=np.uint16))
CASES["big"] = dict(coords=np.array([[10**9, 10**9 + 1], [-(10**9), 7]]), side_length=1e-3)
CASES["rand"] = dict(coords=rng.integers(-6, 7, size=(25, 2)), side_length=0.45, x_offset=0.1, y_offset=0.2)
CASES["empty02"] = dict(coords=np.zeros((0, 2)))
CASES["empty02i"] = dict(coords=np.zeros((0, 2), dtype=int))
CASES["empty0"] = dict(coords=np.array([]))
CASES["1d"] = dict(coords=np.array([1, 2]))
CASES["3col"] = dict(coords=np.array([[0, 0, 1], [1, 0, 5]]))
CASES["1col"] = dict(coords=np.array([[0], [1]]))
CASES["3d"] = dict(coords=np.zeros((3, 2, 2)))
CASES["scalar"] = dict(coords=np.array(3))
CASES["bool"] = dict(coords=np.array([[True, False], [True, True]]))

for name, kw in CASES.items():
    for flipped in (False, True, 0, 1, np.True_, None):
        kw2 = {k: v for k, v in kw.items() if k != "coords"}
        coords = kw["coords"]
        describe((name, repr(flipped)), lambda: make(coords.copy(), flipped=flipped, **kw2))

# malformed constructor arguments: list coordinates, array-valued / string flipped
for name, coords, flipped in [
    ("list", [[0, 0], [1, 0]], False),
    ("list", [[0, 0], [1, 0]], True),
    ("tuple", ((0, 0), (1, 0)), True),
    ("flag-array", np.array([[0, 0], [1, 0]]), np.array([True, False])),
    ("flag-array1", np.array([[0, 0], [1, 0]]), np.array([True])),
    ("flag-str", np.array([[0, 0], [1, 0]]), "no"),
    ("flag-empty", np.array([[0, 0], [1, 0]]), ""),
    ("obj", np.array([[0, 0], [1, 0], [2, 3]], dtype=object), True),
    ("complex", np.array([[0, 0], [1, 0]], dtype=complex), True),
    ("none", None, True),
]:
    describe(("malformed", name, repr(flipped)), lambda: make(coords, flipped=flipped), depth=2)

# grids from limits
for j, (lim, scale) in enumerate([
    ((-1.0, 1.0, -1.0, 1.0), 0.5),
    ((0.3, 2.1, -0.7, 0.2), 0.4),
    ((-2.0, -1.0, 1.0, 3.0), 1.0),
    ((0.0, 0.0, 0.0, 0.0), 1.0),
    ((1.0, -1.0, 1.0, -1.0), 0.5),
]):
    describe(("limits", j), lambda: CoordinateArrayTriangles.for_limits_and_scale(*lim, scale=scale), depth=1)
    # three levels of refinement on the grid
    def deep():
        t = CoordinateArrayTriangles.for_limits_and_scale(*lim, scale=scale)
        out = []
        for _ in range(3):
            t = t.up_sample()
            out += [t.coordinates, t.flip_mask, t.triangles, t.vertices, t.indices, t.flipped, t.y_offset]
            h = t.neighborhood()
            out += [h.coordinates, h.flip_mask, h.triangles]
        return out
    attempt(("limits-deep", j), deep)

# shared object / repeated calls
t = make(np.array([[0, 0], [1, 0], [2, 1], [-1, 4]]), side_length=0.9, flipped=True)
a = t.up_sample(); b = t.up_sample()
rec("repeat-up", (a.coordinates, b.coordinates, a.triangles, b.triangles, a is b))
a = t.neighborhood(); b = t.neighborhood()
rec("repeat-hood", (a.coordinates, b.coordinates, a.triangles, b.triangles))
rec("repeat-mask", (t.flip_mask, t.flip_array, t.flip_mask is t.flip_mask, t.flip_array is t.flip_array))
rec("mask-base", (t.flip_mask.flags.writeable, t.flip_array.flags.writeable, t.flip_array.shape, t.flip_mask.shape))

print("records", N_RECORDS, "exceptions", sorted(EXC.items()))
print(H.hexdigest())
