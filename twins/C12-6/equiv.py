"""
Differential test for the C12-6 twin (over_sample_util.grid_2d_slim_over_sampled_via_mask_from).

Prints a sha256 digest over the exact bytes (dtype, shape, tobytes) of every result, or the exception type when a
call raises. Run on the clean tree and on the twin tree: the digests must be identical.

    cd /tmp/wt8/C12-6 && PYTHONPATH=/tmp/wt8/C12-6 /venv/bin/python -W ignore equiv.py
"""
import hashlib
import os
import warnings

import numpy as np

warnings.simplefilter("ignore")

import autoarray as aa
from autoarray.inversion.pixelization.border_relocator import BorderRelocator
from autoarray.inversion.pixelization import border_relocator as br
from autoarray.operators.over_sampling import over_sample_util as osu

H = hashlib.sha256()
N_CASES = 0
N_EXC = 0
N_FAST = 0  # cases with all-ones sub_size of matching length (the twin's fast path)


VERBOSE = bool(os.environ.get("EQUIV_VERBOSE"))  # print one line per fed value (to locate a difference)


def feed(tag, value):
    if VERBOSE:
        v = value
        if isinstance(v, np.ndarray):
            v = (str(v.dtype), v.shape, hashlib.sha256(np.ascontiguousarray(v).tobytes()).hexdigest()[:12])
        print("FEED", repr(tag), repr(v))
    H.update(repr(tag).encode())
    if isinstance(value, np.ndarray):
        H.update(str(value.dtype).encode())
        H.update(repr(value.shape).encode())
        H.update(repr(value.flags["C_CONTIGUOUS"]).encode())
        H.update(repr(value.flags["OWNDATA"]).encode())
        H.update(repr(value.flags["WRITEABLE"]).encode())
        if value.dtype.kind == "f" and np.isnan(value).any():
            # the sign / payload of a nan is not observable behaviour: canonicalise
            value = np.where(np.isnan(value), np.nan, value)
        H.update(np.ascontiguousarray(value).tobytes())
    else:
        H.update(repr(value).encode())


def call(tag, func, *args, **kwargs):
    global N_CASES, N_EXC
    N_CASES += 1
    # inputs must never be modified in place: digest them before and after
    before = [a.copy() if isinstance(a, np.ndarray) else a for a in kwargs.values()]
    try:
        result = func(*args, **kwargs)
    except Exception as e:  # noqa
        N_EXC += 1
        feed(tag, "EXC:" + type(e).__name__)
        result = None
    else:
        if isinstance(result, tuple):
            for i, r in enumerate(result):
                feed((tag, i), np.asarray(r))
        else:
            feed(tag, type(result).__name__)
            feed(tag, np.asarray(result))
    for b, a in zip(before, kwargs.values()):
        if isinstance(a, np.ndarray):
            feed((tag, "input"), a)
            assert a.dtype == b.dtype and a.shape == b.shape
            assert a.tobytes() == b.tobytes(), "input modified in place"
    return result


def util(tag, mask_2d, pixel_scales, sub_size, origin):
    global N_FAST
    try:
        if np.shape(sub_size) == (int(np.sum(np.logical_not(mask_2d))),) and np.all(
            np.asarray(sub_size) == 1
        ):
            N_FAST += 1
    except Exception:  # noqa
        pass
    return call(
        tag,
        osu.grid_2d_slim_over_sampled_via_mask_from,
        mask_2d=mask_2d,
        pixel_scales=pixel_scales,
        sub_size=sub_size,
        origin=origin,
    )


rng = np.random.default_rng(20241003)

shapes = [(1, 1), (1, 2), (2, 1), (1, 7), (6, 1), (2, 2), (3, 3), (4, 4), (3, 5), (5, 3), (4, 7), (7, 4), (6, 6), (9, 8)]
pixel_scales_list = [
    (1.0, 1.0),
    (0.5, 0.25),
    (0.1, 0.3),
    (2.0, 0.7),
    (0.05, 0.05),
    (1.0 / 3.0, 1.0 / 7.0),
    (-0.5, 0.3),
    (0.3, -1.1),
    (1e-8, 1e8),
    (np.float64(0.1), np.float64(0.7)),
    (np.float32(0.1), np.float32(0.3)),
    (1, 2),
]
origins = [
    (0.0, 0.0),
    (1.5, -0.75),
    (-0.3, 0.1),
    (1.0 / 3.0, 2.0 / 7.0),
    (1e6, -1e6),
    (1e-9, 3e-9),
    (0.1, 0.0),
    (0.0, -0.7),
    (np.float64(0.3), np.float64(-0.9)),
    (2, -3),
    (-0.0, 0.0),
]


def masks_for(shape):
    out = []
    out.append(np.full(shape, False))  # nothing masked
    out.append(np.full(shape, True))  # everything masked
    for p in (0.2, 0.5, 0.8):
        out.append(rng.random(shape) < p)
    # unmasked pixels touching every edge, masked interior
    m = np.full(shape, True)
    m[0, :] = False
    m[-1, :] = False
    m[:, 0] = False
    m[:, -1] = False
    out.append(m)
    # single unmasked pixel in a corner / at the end
    m = np.full(shape, True)
    m[-1, -1] = False
    out.append(m)
    m = np.full(shape, True)
    m[0, 0] = False
    out.append(m)
    return out


# ---------------------------------------------------------------------------------------------------------------
# 1) the util function itself: systematic sweep
# ---------------------------------------------------------------------------------------------------------------

case = 0
for shape in shapes:
    for mask in masks_for(shape):
        n = int(np.sum(~mask))
        sub_sizes = [
            np.ones(n, dtype=int),  # trigger of the seed
            np.full(n, 2, dtype=int),
            np.full(n, 3, dtype=int),
            rng.integers(1, 4, size=n),
            np.ones(n, dtype=np.int32),
            np.ones(n, dtype=np.uint8),
        ]
        if n > 0:
            s = np.ones(n, dtype=int)
            s[rng.integers(0, n)] = 2  # all ones except one pixel
            sub_sizes.append(s)
        for sub_size in sub_sizes:
            # two random (pixel_scales, origin) pairs plus the notes' trigger
            picks = [
                (pixel_scales_list[rng.integers(len(pixel_scales_list))], origins[rng.integers(len(origins))])
                for _ in range(3)
            ]
            picks.append(((0.5, 0.25), (1.5, -0.75)))
            for pixel_scales, origin in picks:
                case += 1
                util(("sweep", case), mask, pixel_scales, sub_size, origin)

# full cross product of pixel scales and origins on a few masks with sub_size == 1 (the fast path) and a mixed one
for shape in [(3, 5), (4, 4), (7, 4), (1, 1)]:
    for mask in masks_for(shape)[:4]:
        n = int(np.sum(~mask))
        for pixel_scales in pixel_scales_list:
            for origin in origins:
                case += 1
                util(("cross1", case), mask, pixel_scales, np.ones(n, dtype=int), origin)
                util(("crossm", case), mask, pixel_scales, 1 + (np.arange(n) % 3), origin)

# random float origins / pixel scales (rounding behaviour of the (a - h) + h chain)
for i in range(400):
    shape = (int(rng.integers(1, 9)), int(rng.integers(1, 9)))
    mask = rng.random(shape) < rng.random()
    n = int(np.sum(~mask))
    pixel_scales = (float(rng.uniform(0.01, 3.0)), float(rng.uniform(0.01, 3.0)))
    origin = (float(rng.normal(0, 10.0)), float(rng.normal(0, 10.0)))
    util(("rand1", i), mask, pixel_scales, np.ones(n, dtype=int), origin)
    util(("randa", i), mask, pixel_scales, rng.integers(1, 3, size=n), origin)

# ---------------------------------------------------------------------------------------------------------------
# 2) odd inputs: anything where sum(sub_size**2) == len(sub_size) without every entry being 1, wrong lengths,
#    non-bool masks, degenerate pixel scales, scalar sub_size, default origin
# ---------------------------------------------------------------------------------------------------------------

mask = np.array([[True, False, False], [False, True, False], [True, True, True]])  # 4 unmasked
odd_sub_sizes = [
    np.array([2, 0, 0, 0]),
    np.array([0, 0, 0, 2]),
    np.array([-1, 1, 1, 1]),
    np.array([1, -1, -1, 1]),
    np.array([0, 0, 0, 0]),
    np.array([1, 1, 1]),  # too short
    np.array([1, 1, 1, 1, 1]),  # too long
    np.array([2, 2, 2, 2, 2]),
    np.array([1]),
    np.array([], dtype=int),
    np.array([[1], [1], [1], [1]]),
    np.array([[1, 1, 1, 1]]),
    np.array([[1, 1], [1, 1]]),
    np.array(1),
    np.array([1.0, 1.0, 1.0, 1.0]),
    np.array([True, True, True, True]),
    [1, 1, 1, 1],
    (1, 1, 1, 1),
    1,
    2,
]
for i, sub_size in enumerate(odd_sub_sizes):
    for pixel_scales, origin in [((0.5, 0.25), (1.5, -0.75)), ((1.0, 1.0), (0.0, 0.0))]:
        util(("odd", i, origin), mask, pixel_scales, sub_size, origin)
        util(("odd-allmasked", i, origin), np.full((2, 3), True), pixel_scales, sub_size, origin)
        util(("odd-empty", i, origin), np.zeros((0, 0), dtype=bool), pixel_scales, sub_size, origin)

ones4 = np.ones(4, dtype=int)
odd_masks = [
    mask.astype(int),
    mask.astype(float),
    mask.astype(np.uint8),
    np.where(mask, 2, 0),
    np.where(mask, -1, 0),
    np.where(mask, np.nan, 0.0),
    np.asfortranarray(mask),
    mask[:, ::-1],
    mask.T,
    np.array(aa.Mask2D(mask=mask, pixel_scales=1.0)),
    mask.tolist(),
    mask[None, :, :],
    mask[:, :, None],
    mask.ravel(),
]
for i, m in enumerate(odd_masks):
    for sub_size in (ones4, np.array([1, 2, 1, 3])):
        util(("oddmask", i, int(sub_size.sum())), m, (0.5, 0.25), sub_size, (1.5, -0.75))

odd_scales = [
    (0.0, 1.0),
    (1.0, 0.0),
    (np.float64(0.0), np.float64(1.0)),
    (np.float64(1.0), np.float64(0.0)),
    (np.inf, 1.0),
    (1.0, np.nan),
    (-1.0, -1.0),
    (1.0,),
    1.0,
    [0.5, 0.25],
    np.array([0.5, 0.25]),
    (0.5, 0.25, 9.0),
]
odd_origins = [(0.0, 0.0), (1.5, -0.75), (np.inf, 0.0), (np.nan, 1.0), (1.0,), [1.5, -0.75], np.array([1.5, -0.75]), 0.0]
for i, pixel_scales in enumerate(odd_scales):
    for j, origin in enumerate(odd_origins):
        for sub_size in (ones4, np.array([1, 2, 1, 3])):
            util(("oddscale", i, j, int(sub_size.sum())), mask, pixel_scales, sub_size, origin)
            util(
                ("oddscale-allmasked", i, j, int(sub_size.sum())),
                np.full((2, 2), True),
                pixel_scales,
                np.array([], dtype=int),
                origin,
            )

# scalar dtype promotion: numpy scalar pixel scales / origins of several precisions x integer dtypes of sub_size
dt_scales = [
    (0.1, 0.3),
    (np.float32(0.1), np.float32(0.3)),
    (np.float16(0.1), np.float16(0.3)),
    (np.longdouble(0.1), np.longdouble(0.3)),
    (np.float32(0.1), 0.3),
    (0.1, np.float32(0.3)),
    (np.int64(2), np.int32(3)),
]
dt_origins = [
    (0.0, 0.0),
    (1.5, -0.7),
    (np.float32(1.5), np.float32(-0.7)),
    (np.float64(1.5), np.float64(-0.7)),
    (np.float16(1.5), -0.7),
    (np.int64(1), np.int64(-2)),
]
dt_sub = [np.int8, np.int16, np.int32, np.int64, np.uint8, np.uint16, np.uint32, np.uint64, bool]
dt_mask = rng.random((4, 5)) < 0.4
dt_n = int(np.sum(~dt_mask))
for i, pixel_scales in enumerate(dt_scales):
    for j, origin in enumerate(dt_origins):
        for dt in dt_sub:
            util(("dtype1", i, j, dt.__name__), dt_mask, pixel_scales, np.ones(dt_n, dtype=dt), origin)
            if dt is not bool:
                util(("dtypem", i, j, dt.__name__), dt_mask, pixel_scales, (1 + np.arange(dt_n) % 2).astype(dt), origin)

# default origin argument / positional call
call("default-origin", osu.grid_2d_slim_over_sampled_via_mask_from, mask_2d=mask, pixel_scales=(0.5, 0.25), sub_size=ones4)
call("positional", osu.grid_2d_slim_over_sampled_via_mask_from, mask, (0.5, 0.25), ones4, (1.5, -0.75))

# results are fresh arrays on every call (no caching / aliasing between calls)
r1 = osu.grid_2d_slim_over_sampled_via_mask_from(mask, (0.5, 0.25), ones4, (1.5, -0.75))
r1[:] = 7.0
r2 = osu.grid_2d_slim_over_sampled_via_mask_from(mask, (0.5, 0.25), ones4, (1.5, -0.75))
feed("fresh", r2)
feed("fresh-shares", bool(np.shares_memory(r1, r2)))

# ---------------------------------------------------------------------------------------------------------------
# 3) through the public objects (OverSamplerUniform, BorderRelocator, Grid2D over sampling, border helpers)
# ---------------------------------------------------------------------------------------------------------------


def objects(tag, mask_bool, pixel_scales, origin, sub_size):
    def build():
        m = aa.Mask2D(mask=mask_bool.copy(), pixel_scales=pixel_scales, origin=origin)
        if isinstance(sub_size, int):
            ss = sub_size
        else:
            ss = aa.Array2D(values=np.array(sub_size), mask=m)
        return m, ss

    def over():
        m, ss = build()
        o = aa.OverSamplerUniform(mask=m, sub_size=ss)
        g1 = o.over_sampled_grid
        g2 = o.over_sampled_grid  # cached property: same object twice
        return np.array(g1), np.array([g1 is g2]), np.array(o.sub_pixel_areas)

    def border():
        m, ss = build()
        b = BorderRelocator(mask=m, sub_size=ss)
        g1 = b.sub_grid
        g2 = b.sub_grid  # plain property: fresh array each time
        return (
            np.array(g1),
            np.array([g1 is g2, bool(np.shares_memory(g1, g2))]),
            np.array(b.sub_border_slim),
            np.array(b.sub_border_grid),
            np.array(b.border_grid),
        )

    def relocated():
        m, ss = build()
        b = BorderRelocator(mask=m, sub_size=ss)
        g = aa.OverSamplerUniform(mask=m, sub_size=ss).over_sampled_grid
        c = np.mean(np.array(g), axis=0)
        # stretch alternate points away from the centre so some of them are relocated to the border
        stretch = np.where(np.arange(len(g)) % 2 == 0, 1.7, 0.6)[:, None]
        stretched = aa.Grid2DIrregular(values=c + (np.array(g) - c) * stretch)
        return np.array(b.relocated_grid_from(grid=stretched))

    def sub_border():
        return br.sub_border_pixel_slim_indexes_from(
            mask_2d=mask_bool.copy(),
            sub_size=np.full(int(np.sum(~mask_bool)), sub_size) if isinstance(sub_size, int) else np.array(sub_size),
        )

    call((tag, "over"), over)
    call((tag, "border"), border)
    call((tag, "relocated"), relocated)
    call((tag, "sub_border"), sub_border)


demo_mask = np.array(
    [
        [True, True, True, True, True, True],
        [True, False, False, False, True, True],
        [True, False, True, False, False, True],
        [True, False, False, False, False, False],
        [True, True, True, False, True, True],
    ]
)
obj_masks = [
    demo_mask,
    np.full((3, 4), False),
    np.array(aa.Mask2D.circular(shape_native=(9, 7), pixel_scales=1.0, radius=3.0)),
    np.array(aa.Mask2D.circular_annular(shape_native=(10, 10), pixel_scales=1.0, inner_radius=1.5, outer_radius=4.0)),
    np.array([[False]]),
    np.array([[True, False], [True, True]]),
]
k = 0
for mask_bool in obj_masks:
    n = int(np.sum(~mask_bool))
    for pixel_scales in [(0.5, 0.25), (1.0, 1.0), 0.3]:
        for origin in [(0.0, 0.0), (1.5, -0.75), (-0.3, 0.1)]:
            for sub_size in (1, 2, [1] * n, [1 + (i % 3) for i in range(n)], [1] * (n - 1) + [2]):
                k += 1
                objects(("obj", k), mask_bool, pixel_scales, origin, sub_size)

# Grid2D.uniform with an over sampler attached (end-to-end use of the over sampled grid)
for sub_size in (1, 2):
    for origin in [(0.0, 0.0), (0.7, -0.2)]:

        def end_to_end():
            g = aa.Grid2D.uniform(
                shape_native=(4, 5),
                pixel_scales=(0.5, 0.25),
                origin=origin,
                over_sampling=aa.OverSamplingUniform(sub_size=sub_size),
            )
            o = g.over_sampler if hasattr(g, "over_sampler") else g.over_sampling.over_sampler_from(mask=g.mask)
            return np.array(o.over_sampled_grid)

        call(("e2e", sub_size, origin), end_to_end)

print(f"cases {N_CASES}  exceptions {N_EXC}  fast-path-eligible util cases {N_FAST}")
print("DIGEST", H.hexdigest())
