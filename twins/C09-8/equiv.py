"""
Differential test for the C09-8 twin (uniform.py, `OverSamplerUniform.sub_pixel_areas`).

Prints a sha256 digest over the exact bytes / dtypes / shapes of everything `sub_pixel_areas` (and its sibling
properties) return, the types + messages of the exceptions raised, the log records emitted on the `autoarray`
loggers while the property is evaluated, and the state of the inputs after the call (no in-place effects).

Run on the clean tree and on the twin tree: the two digests must be identical.

    cd /tmp/wt10/C09-8 && PYTHONPATH=/tmp/wt10/C09-8 /venv/bin/python equiv.py
"""
import hashlib
import logging
import re
import warnings

import numpy as np

warnings.filterwarnings("ignore")

import autoarray as aa

H = hashlib.sha256()
N_CASES = 0
N_EXC = 0


class _Capture(logging.Handler):
    def __init__(self):
        super().__init__(level=logging.DEBUG)
        self.records = []

    def emit(self, record):
        self.records.append((record.name, record.levelname))


CAPTURE = _Capture()
logging.getLogger().addHandler(CAPTURE)
logging.getLogger("autoarray").addHandler(CAPTURE)


def feed(*items):
    for item in items:
        # object addresses are the only run-to-run noise: strip them
        H.update(re.sub(r"0x[0-9a-fA-F]+", "0xADDR", repr(item)).encode())
        H.update(b"|")


def feed_value(tag, value):
    feed(tag, type(value).__name__)
    if isinstance(value, (np.ndarray, np.generic)) or hasattr(value, "_array"):
        arr = np.asarray(value)
        feed(str(arr.dtype), arr.shape)
        H.update(np.ascontiguousarray(arr).tobytes())
    else:
        feed(value)


def attempt(tag, func):
    """Evaluate func, digest its value or its exception, plus log records emitted meanwhile."""
    global N_EXC
    CAPTURE.records = []
    try:
        value = func()
    except Exception as e:  # noqa
        N_EXC += 1
        feed(tag, "EXC", type(e).__name__, str(e))
        value = None
    else:
        feed_value(tag, value)
    feed("LOG", sorted(set(CAPTURE.records)), len(CAPTURE.records))
    return value


def state_of(obj):
    if isinstance(obj, (np.ndarray, np.generic)) or hasattr(obj, "_array"):
        arr = np.asarray(obj)
        return (type(obj).__name__, str(arr.dtype), arr.shape, arr.tobytes())
    return (type(obj).__name__, repr(obj))


def run_case(tag, mask, sub_size, extras=True):
    global N_CASES
    N_CASES += 1
    feed("CASE", tag)

    over_sampler = attempt("ctor", lambda: aa.OverSamplerUniform(mask=mask, sub_size=sub_size))
    if over_sampler is None:
        return

    sub_size_before = state_of(over_sampler.sub_size)
    mask_before = state_of(mask) + (repr(getattr(mask, "pixel_scales", None)), repr(getattr(mask, "origin", None)))

    first = attempt("sub_pixel_areas", lambda: over_sampler.sub_pixel_areas)
    second = attempt("sub_pixel_areas again", lambda: over_sampler.sub_pixel_areas)

    # property is not cached: every access gives a fresh, independent array
    if first is not None and second is not None:
        feed("fresh", first is second, np.shares_memory(first, second))
        if first.size:
            first[0] = -123.0
            third = attempt("sub_pixel_areas after caller mutation", lambda: over_sampler.sub_pixel_areas)
            feed("independent", bool(third[0] != -123.0))

    # inputs untouched
    feed("sub_size unchanged", state_of(over_sampler.sub_size) == sub_size_before)
    mask_after = state_of(mask) + (repr(getattr(mask, "pixel_scales", None)), repr(getattr(mask, "origin", None)))
    feed("mask unchanged", mask_after == mask_before)

    if extras:
        attempt("sub_total", lambda: over_sampler.sub_total)
        attempt("sub_length", lambda: over_sampler.sub_length)
        attempt("sub_fraction", lambda: over_sampler.sub_fraction)
        attempt("over_sampled_grid", lambda: over_sampler.over_sampled_grid)
        # the areas are again the same after the other properties have been used
        attempt("sub_pixel_areas after extras", lambda: over_sampler.sub_pixel_areas)


def rand_mask(rng, shape, frac):
    m = rng.uniform(size=shape) < frac
    return m


rng = np.random.default_rng(20261003)

# ---------------------------------------------------------------------------------------------------------------
# 1) the trigger of the notes: 3x4 mask touching the edges, origin (0.3, -0.7), isotropic and anisotropic pixels
# ---------------------------------------------------------------------------------------------------------------
mask_2d = [
    [False, False, True, False],
    [True, False, False, False],
    [False, True, True, False],
]
for ps in [(0.5, 0.5), (0.5, 2.0), (2.0, 0.5), 0.05, (0.1, 0.3)]:
    mask = aa.Mask2D(mask=mask_2d, pixel_scales=ps, origin=(0.3, -0.7))
    for s in [1, 2, 3, 5, 7]:
        run_case(f"notes ps={ps} s={s}", mask, s)
    run_case(
        f"notes ps={ps} map",
        mask,
        aa.Array2D(values=[2, 1, 4, 3, 8, 2, 1, 5], mask=mask),
    )

# ---------------------------------------------------------------------------------------------------------------
# 2) random masks: square / non-square shapes, (an)isotropic scales, origins, uniform and per-pixel sub sizes
# ---------------------------------------------------------------------------------------------------------------
shapes = [(1, 1), (1, 5), (6, 1), (2, 2), (3, 4), (5, 3), (7, 7), (4, 9)]
scales = [1.0, 0.05, (0.5, 2.0), (2.0, 0.5), (0.3, 0.1), (1.0e-3, 7.0), (0.7, 0.7000000001), (3.3, 0.9)]
origins = [(0.0, 0.0), (0.3, -0.7), (-5.0, 12.5)]

i = 0
for shape in shapes:
    for ps in scales:
        i += 1
        origin = origins[i % len(origins)]
        frac = [0.0, 0.3, 0.6][i % 3]
        m = rand_mask(rng, shape, frac)
        if m.all():
            m[0, 0] = False
        mask = aa.Mask2D(mask=m, pixel_scales=ps, origin=origin)
        n = mask.pixels_in_mask

        run_case(f"rand {shape} {ps} {origin} uniform", mask, int(rng.integers(1, 9)), extras=(i % 4 == 0))

        values = rng.integers(1, 10, size=n)
        run_case(
            f"rand {shape} {ps} {origin} Array2D map",
            mask,
            aa.Array2D(values=values, mask=mask),
            extras=(i % 4 == 1),
        )
        # plain ndarray sub_size (int64 / int32 / uint8 / int16)
        dtype = ["int64", "int32", "uint8", "int16"][i % 4]
        run_case(
            f"rand {shape} {ps} {origin} ndarray {dtype}",
            mask,
            values.astype(dtype),
            extras=False,
        )

# ---------------------------------------------------------------------------------------------------------------
# 3) masks touching every edge, fully unmasked, single unmasked pixel, fully masked (empty)
# ---------------------------------------------------------------------------------------------------------------
for ps in [(0.5, 2.0), 1.0]:
    full = aa.Mask2D.all_false(shape_native=(4, 3), pixel_scales=ps, origin=(1.0, -2.0))
    run_case(f"all_false {ps} s=4", full, 4)
    run_case(
        f"all_false {ps} map",
        full,
        aa.Array2D(values=np.arange(1, 13), mask=full),
    )

    single = np.full((3, 5), True)
    single[2, 4] = False
    single = aa.Mask2D(mask=single, pixel_scales=ps)
    run_case(f"single corner {ps} s=1", single, 1)
    run_case(f"single corner {ps} s=6", single, 6)
    run_case(f"single corner {ps} map", single, aa.Array2D(values=[3], mask=single))

    empty = aa.Mask2D(mask=np.full((3, 3), True), pixel_scales=ps)
    run_case(f"empty {ps} s=2", empty, 2)
    run_case(f"empty {ps} ndarray int", empty, np.zeros(0, dtype="int"))
    run_case(f"empty {ps} ndarray float", empty, np.zeros(0))

    circ = aa.Mask2D.circular(shape_native=(9, 7), radius=2.0, pixel_scales=ps, centre=(0.2, -0.4))
    run_case(f"circular {ps} s=3", circ, 3)

# ---------------------------------------------------------------------------------------------------------------
# 4) odd sub_size inputs: zeros, negatives, floats (range() rejects them on HEAD), scalars, wrong lengths, 2D arrays
# ---------------------------------------------------------------------------------------------------------------
mask = aa.Mask2D(mask=mask_2d, pixel_scales=(0.5, 2.0), origin=(0.3, -0.7))
mask_iso = aa.Mask2D(mask=mask_2d, pixel_scales=(0.25, 0.25))

for tag, m in [("aniso", mask), ("iso", mask_iso)]:
    odd = {
        "zeros in map": aa.Array2D(values=[2, 0, 4, 0, 8, 2, 1, 0], mask=m),
        "all zeros": aa.Array2D(values=[0] * 8, mask=m),
        "negative in map": aa.Array2D(values=[2, -1, 4, 3, -2, 2, 1, 5], mask=m),
        "float Array2D": aa.Array2D(values=[2.0, 1.0, 4.0, 3.0, 8.0, 2.0, 1.0, 5.0], mask=m),
        "float Array2D non integral": aa.Array2D(values=[2.5, 1.0, 4.0, 3.0, 8.0, 2.0, 1.0, 5.0], mask=m),
        "float ndarray": np.array([2.0, 1.0, 4.0, 3.0, 8.0, 2.0, 1.0, 5.0]),
        "float32 ndarray": np.array([2, 1, 4, 3, 8, 2, 1, 5], dtype="float32"),
        "bool ndarray": np.array([True, False, True, True, False, True, True, True]),
        "object ndarray": np.array([2, 1, 4, 3, 8, 2, 1, 5], dtype=object),
        "python float": 2.0,
        "python bool": True,
        "numpy int scalar": np.int64(3),
        "numpy float scalar": np.float64(3.0),
        "0-d ndarray": np.array(3),
        "list": [2, 1, 4, 3, 8, 2, 1, 5],
        "tuple": (2, 1, 4, 3, 8, 2, 1, 5),
        "None": None,
        "string": "2",
        "too short ndarray": np.array([2, 3]),
        "too long ndarray": np.array([2, 1, 4, 3, 8, 2, 1, 5, 2, 2]),
        "2D ndarray (n,1)": np.array([[2], [1], [4], [3], [8], [2], [1], [5]]),
        "2D ndarray native": np.array([[2, 1, 1, 4], [1, 3, 8, 2], [1, 1, 1, 5]]),
        "Array2D of other mask": aa.Array2D(
            values=[1, 2, 3], mask=aa.Mask2D(mask=[[False, False, False]], pixel_scales=1.0)
        ),
        "from_radial_bins float map": None,  # replaced below
    }
    grid = aa.Grid2D.from_mask(mask=m)
    over_sampling = aa.OverSamplingUniform.from_radial_bins(
        grid=grid, sub_size_list=[8, 4, 2], radial_list=[0.6, 1.5, 100.0]
    )
    odd["from_radial_bins float map"] = over_sampling.sub_size

    for name, sub_size in odd.items():
        run_case(f"odd {tag} {name}", m, sub_size, extras=False)

    # the same through the public OverSampling -> OverSampler route
    N_CASES += 1
    feed("CASE", f"over_sampler_from {tag}")
    attempt(
        "radial bins areas",
        lambda: over_sampling.over_sampler_from(mask=m).sub_pixel_areas,
    )
    attempt(
        "int over sampling areas",
        lambda: aa.OverSamplingUniform(sub_size=3).over_sampler_from(mask=m).sub_pixel_areas,
    )
    attempt(
        "from_adapt areas",
        lambda: aa.OverSamplingUniform.from_adapt(
            data=aa.Array2D(values=[1.0, 9.0, 3.0, 20.0, 5.0, 0.5, 30.0, 2.0], mask=m),
            noise_map=aa.Array2D(values=[1.0] * 8, mask=m),
        )
        .over_sampler_from(mask=m)
        .sub_pixel_areas,
    )

# ---------------------------------------------------------------------------------------------------------------
# 5) masks which are not Mask2D (the over sampler does not check)
# ---------------------------------------------------------------------------------------------------------------
mask_1d = aa.Mask1D(mask=[False, True, False, False], pixel_scales=0.5)
run_case("Mask1D int", mask_1d, 2, extras=False)
run_case("Mask1D ndarray", mask_1d, np.array([2, 3, 1]), extras=False)
run_case("mask None", None, np.array([2, 3, 1]), extras=False)
run_case("mask ndarray", np.array(mask_2d), np.array([2, 1, 4, 3, 8, 2, 1, 5]), extras=False)

# ---------------------------------------------------------------------------------------------------------------
# 6) shared objects: one sub_size map / one mask shared by several over samplers, interleaved calls
# ---------------------------------------------------------------------------------------------------------------
N_CASES += 1
feed("CASE", "shared objects")
shared_map = aa.Array2D(values=[2, 1, 4, 3, 8, 2, 1, 5], mask=mask)
over_a = aa.OverSamplerUniform(mask=mask, sub_size=shared_map)
over_b = aa.OverSamplerUniform(mask=mask, sub_size=shared_map)
over_c = aa.OverSamplerUniform(mask=mask_iso, sub_size=shared_map)
a1 = attempt("a1", lambda: over_a.sub_pixel_areas)
b1 = attempt("b1", lambda: over_b.sub_pixel_areas)
c1 = attempt("c1", lambda: over_c.sub_pixel_areas)
a1[:] = 0.0
attempt("b2", lambda: over_b.sub_pixel_areas)
attempt("a2", lambda: over_a.sub_pixel_areas)
feed("shared map untouched", state_of(shared_map))
# re-pointing the attribute is picked up (nothing cached on the instance)
over_a.sub_size = aa.Array2D(values=[1, 1, 1, 1, 2, 2, 2, 2], mask=mask)
attempt("a3 after re-pointing sub_size", lambda: over_a.sub_pixel_areas)
feed("instance dict keys", sorted(over_a.__dict__.keys()))

print(f"cases={N_CASES} exceptions_digested={N_EXC}")
print("DIGEST", H.hexdigest())
