"""
Differential test for the C11-6 twin (w-tilde inversion: copy of `preloads.curvature_matrix_mapper_diag` moved from
`_curvature_matrix_mapper_diag` to `_curvature_matrix_multi_mapper`).

Prints a sha256 digest over every observation. Run on the clean HEAD tree and on the twin tree: digests must agree.

    cd /tmp/wt8/C11-6 && PYTHONPATH=/tmp/wt8/C11-6 /venv/bin/python equiv.py

What is recorded (values as raw bytes, exception type names, aliasing flags):
  * public quantities of the inversion (curvature_matrix, curvature_reg_matrix, data_vector, reconstruction,
    mapped_reconstructed_image, regularization / evidence terms), in several access orders;
  * the private builders `_curvature_matrix_multi_mapper`, `_curvature_matrix_func_list_and_mapper` (values,
    whether they share memory with the caller's preloaded array, whether two reads return distinct arrays, and the
    effect of the caller writing into the returned array);
  * VALUES (not identity) of `_curvature_matrix_mapper_diag` / `_curvature_matrix_x1_mapper` -- their identity
    w.r.t. the preload is the one thing the seed's restructuring changes by design (see TWIN_NOTES.md);
  * byte fingerprint / flags / identity of the caller-owned preloaded array after every step, also when one `Preloads`
    object is shared by several inversions and when the array is read-only, F-ordered, an ndarray subclass, the wrong
    shape or not an array at all;
  * `Preloads.set_curvature_matrix` results (values).
"""
import copy
import hashlib
import logging
import warnings

warnings.filterwarnings("ignore")
logging.disable(logging.CRITICAL)

import numpy as np

import autoarray as aa
from autoarray import fixtures

H = hashlib.sha256()
N_OBS = [0]


def rec(tag, value):
    N_OBS[0] += 1
    H.update(repr(tag).encode())
    if isinstance(value, np.ndarray):
        arr = np.asarray(value)
        H.update(str(arr.dtype).encode())
        H.update(repr(arr.shape).encode())
        H.update(np.ascontiguousarray(arr).tobytes())
    elif isinstance(value, (list, tuple)):
        for i, v in enumerate(value):
            rec((tag, i), v)
    elif isinstance(value, dict):
        for i, (k, v) in enumerate(value.items()):
            rec((tag, "dictval", i), v)
    else:
        H.update(repr(value).encode())


def attempt(tag, func):
    try:
        value = func()
    except Exception as e:  # noqa
        rec(tag, ("EXC", type(e).__name__))
        return None
    rec(tag, value)
    return value


class MyMatrix(np.ndarray):
    pass


# ---------------------------------------------------------------------------------------------------------------
# datasets / linear objects
# ---------------------------------------------------------------------------------------------------------------


def dataset_7x7(no_blur=False):
    if no_blur:
        dataset = copy.copy(fixtures.make_masked_imaging_7x7_no_blur())
    else:
        dataset = copy.copy(fixtures.make_masked_imaging_7x7())
    dataset.data[4] = 2.0
    dataset.noise_map[3] = 4.0
    return dataset


def objs_7x7(no_blur=False):
    dataset = dataset_7x7(no_blur=no_blur)
    grid = aa.Grid2D.from_mask(mask=dataset.mask)

    def func(parameters, scale):
        rng = np.random.RandomState(int(10 * scale) + parameters)
        mapping_matrix = 0.5 * scale + rng.uniform(size=(9, parameters))
        return aa.m.MockLinearObjFuncList(
            parameters=parameters, grid=grid, mapping_matrix=mapping_matrix
        )

    return dict(
        dataset=dataset,
        rect=fixtures.make_rectangular_mapper_7x7_3x3(),
        dela=fixtures.make_delaunay_mapper_9_3x3(),
        voro=None,
        f2=func(2, 1.0),
        f1=func(1, 2.0),
        f3=func(3, 0.5),
    )


def objs_custom(shape_native, pixel_scales, origin, mask_bool, sub_size, mesh_shape, seed):
    """
    Non-square image, anisotropic pixel scales, non-zero origin, irregular mask.
    """
    rng = np.random.RandomState(seed)

    mask = aa.Mask2D(mask=mask_bool, pixel_scales=pixel_scales, origin=origin)

    data = aa.Array2D.no_mask(
        values=1.0 + rng.uniform(size=shape_native), pixel_scales=pixel_scales, origin=origin
    )
    noise_map = aa.Array2D.no_mask(
        values=1.0 + rng.uniform(size=shape_native), pixel_scales=pixel_scales, origin=origin
    )
    psf = aa.Kernel2D.no_mask(
        values=[[0.5, 1.0, 0.25], [1.0, 3.0, 2.0], [0.0, 1.5, 0.5]],
        pixel_scales=pixel_scales,
        normalize=True,
    )

    dataset = aa.Imaging(
        data=data,
        psf=psf,
        noise_map=noise_map,
        over_sampling=aa.OverSamplingDataset(uniform=aa.OverSamplingUniform(sub_size=1)),
    ).apply_mask(mask=mask)

    over_sampler = aa.OverSamplerUniform(mask=mask, sub_size=sub_size)

    def rect_mapper(mesh_shape, coefficient):
        mesh_grid = aa.Mesh2DRectangular.overlay_grid(
            grid=over_sampler.over_sampled_grid, shape_native=mesh_shape
        )
        mapper_grids = aa.MapperGrids(
            mask=mask,
            source_plane_data_grid=over_sampler.over_sampled_grid,
            source_plane_mesh_grid=mesh_grid,
            image_plane_mesh_grid=None,
            adapt_data=None,
        )
        return aa.MapperRectangular(
            mapper_grids=mapper_grids,
            over_sampler=over_sampler,
            border_relocator=None,
            regularization=aa.reg.Constant(coefficient=coefficient),
        )

    grid = aa.Grid2D.from_mask(mask=mask)
    n = int(np.sum(~mask_bool))

    def func(parameters, scale):
        rng_f = np.random.RandomState(seed + int(10 * scale) + parameters)
        mapping_matrix = 0.5 * scale + rng_f.uniform(size=(n, parameters))
        return aa.m.MockLinearObjFuncList(
            parameters=parameters, grid=grid, mapping_matrix=mapping_matrix
        )

    return dict(
        dataset=dataset,
        rect=rect_mapper(mesh_shape, 1.0),
        dela=rect_mapper((mesh_shape[1], mesh_shape[0]), 2.0),
        f2=func(2, 1.0),
        f1=func(1, 2.0),
        f3=func(3, 0.5),
    )


# ---------------------------------------------------------------------------------------------------------------
# observations
# ---------------------------------------------------------------------------------------------------------------

PUBLIC = [
    "curvature_matrix",
    "data_vector",
    "regularization_matrix",
    "curvature_reg_matrix",
    "reconstruction",
    "mapped_reconstructed_image",
    "regularization_term",
    "log_det_curvature_reg_matrix_term",
    "log_det_regularization_matrix_term",
]

PRIVATE_FRESH = ["_curvature_matrix_multi_mapper", "_curvature_matrix_func_list_and_mapper"]
PRIVATE_VALUE_ONLY = ["_curvature_matrix_mapper_diag", "_curvature_matrix_x1_mapper"]


def preload_state(tag, preloads, arr):
    rec((tag, "is"), preloads.curvature_matrix_mapper_diag is arr)
    if isinstance(arr, np.ndarray):
        rec((tag, "type"), type(arr).__name__)
        rec((tag, "bytes"), np.array(arr))
        rec((tag, "flags"), (arr.flags.writeable, arr.flags.c_contiguous, arr.flags.f_contiguous))
    else:
        rec((tag, "value"), repr(arr))


def shares(a, b):
    if isinstance(a, np.ndarray) and isinstance(b, np.ndarray):
        return bool(np.shares_memory(a, b))
    return a is b


def observe(tag, make_inversion, preloads, arr, order):
    """
    `order` is a permutation label deciding which quantities are read first.
    """
    inversion = make_inversion()
    rec((tag, "cls"), type(inversion).__name__)

    def read_public():
        for name in PUBLIC:
            attempt((tag, order, name), lambda: getattr(inversion, name))
            if preloads is not None:
                preload_state((tag, order, "after", name), preloads, arr)

    def read_private():
        for name in PRIVATE_FRESH:
            first = attempt((tag, order, name, 1), lambda: getattr(inversion, name))
            second = attempt((tag, order, name, 2), lambda: getattr(inversion, name))
            rec((tag, order, name, "type"), type(first).__name__)
            if isinstance(first, np.ndarray):
                rec((tag, order, name, "distinct"), first is not second and not shares(first, second))
                rec((tag, order, name, "writeable"), first.flags.writeable)
                if preloads is not None:
                    rec((tag, order, name, "shares_preload"), shares(first, arr))
                # the caller scribbles on what it was given: nothing else may notice
                try:
                    first[...] = -7.0
                    rec((tag, order, name, "scribble"), "ok")
                except Exception as e:  # noqa
                    rec((tag, order, name, "scribble"), ("EXC", type(e).__name__))
                attempt((tag, order, name, 3), lambda: getattr(inversion, name))
            if preloads is not None:
                preload_state((tag, order, "after", name), preloads, arr)
        for name in PRIVATE_VALUE_ONLY:
            value = attempt((tag, order, name), lambda: getattr(inversion, name))
            rec((tag, order, name, "type"), type(value).__name__)
            if preloads is not None:
                preload_state((tag, order, "after", name), preloads, arr)

    if order == "public_first":
        read_public()
        read_private()
    elif order == "private_first":
        read_private()
        read_public()
    elif order == "reconstruction_only":
        attempt((tag, order, "reconstruction"), lambda: inversion.reconstruction)
        attempt((tag, order, "curvature_matrix"), lambda: inversion.curvature_matrix)
        if preloads is not None:
            preload_state((tag, order, "after"), preloads, arr)
    return inversion


def preload_variants(make_inversion, total_params):
    """
    The array a model-fit would preload (mapper blocks of the curvature matrix, zeros elsewhere) in several guises.
    """
    try:
        base = np.array(make_inversion()._curvature_matrix_mapper_diag)
    except Exception:  # noqa
        base = None
    if base is None or base.ndim != 2:
        base = np.zeros((total_params, total_params))

    rng = np.random.RandomState(total_params)
    noisy = base + np.triu(rng.uniform(size=base.shape))  # non-zero where the blocks get written

    read_only = noisy.copy()
    read_only.flags.writeable = False

    return {
        "exact": base.copy(),
        "noisy": noisy.copy(),
        "fortran": np.asfortranarray(noisy),
        "subclass": noisy.copy().view(MyMatrix),
        "view_of_bigger": np.zeros((total_params + 2, total_params + 3))[1:-1, 2:-1] + noisy,
        "read_only": read_only,
        "float32": noisy.astype("float32"),
        "wrong_shape": np.ones((max(total_params - 1, 1), max(total_params - 1, 1))),
        "int_scalar": 1,
        "list": noisy.tolist(),
    }


def run_family(family, objs, settings_list, combos, direct=False):
    dataset = objs["dataset"]

    for s_index, settings in enumerate(settings_list):
        for combo in combos:
            linear_obj_list = [objs[k] for k in combo]
            tag0 = (family, s_index, combo)

            def make(preloads=None, linear_obj_list=linear_obj_list, settings=settings):
                if direct:
                    # bypass the factory (which falls back to the mapping formalism when there is no mapper)
                    return aa.InversionImagingWTilde(
                        dataset=dataset,
                        w_tilde=dataset.w_tilde,
                        linear_obj_list=linear_obj_list,
                        settings=settings,
                        preloads=preloads if preloads is not None else aa.Preloads(),
                    )
                if preloads is None:
                    return aa.Inversion(
                        dataset=dataset, linear_obj_list=linear_obj_list, settings=settings
                    )
                return aa.Inversion(
                    dataset=dataset,
                    linear_obj_list=linear_obj_list,
                    settings=settings,
                    preloads=preloads,
                )

            # no preload
            reference = None
            for order in ("public_first", "private_first"):
                try:
                    reference = observe((tag0, "nopreload"), make, None, None, order)
                except Exception as e:  # noqa
                    rec((tag0, "nopreload", order), ("EXC", type(e).__name__))

            if reference is None:
                continue

            total_params = sum(obj.params for obj in linear_obj_list)
            variants = preload_variants(make, total_params)

            for v_name, arr in variants.items():
                heavy = v_name in ("noisy", "read_only")
                orders = (
                    ("public_first", "private_first", "reconstruction_only")
                    if heavy
                    else ("public_first",)
                )
                for order in orders:
                    arr_i = copy.deepcopy(arr)
                    if v_name == "read_only":
                        arr_i.flags.writeable = False
                    preloads = aa.Preloads(curvature_matrix_mapper_diag=arr_i)
                    tag = (tag0, v_name)
                    try:
                        observe(tag, lambda: make(preloads), preloads, arr_i, order)
                    except Exception as e:  # noqa
                        rec((tag, order), ("EXC", type(e).__name__))
                    preload_state((tag, order, "end"), preloads, arr_i)

            # one Preloads object shared by several inversions, reads interleaved
            arr_s = variants["noisy"].copy()
            preloads = aa.Preloads(curvature_matrix_mapper_diag=arr_s)
            inv_a, inv_b, inv_c = make(preloads), make(preloads), make(preloads)
            tag = (tag0, "shared")
            attempt((tag, "a.cm"), lambda: inv_a.curvature_matrix)
            attempt((tag, "b.fl"), lambda: inv_b._curvature_matrix_func_list_and_mapper)
            attempt((tag, "b.diag"), lambda: inv_b._curvature_matrix_mapper_diag)
            preload_state((tag, 1), preloads, arr_s)
            attempt((tag, "a.crm"), lambda: inv_a.curvature_reg_matrix)
            attempt((tag, "b.rec"), lambda: inv_b.reconstruction)
            attempt((tag, "a.diag"), lambda: inv_a._curvature_matrix_mapper_diag)
            attempt((tag, "c.mm"), lambda: inv_c._curvature_matrix_multi_mapper)
            attempt((tag, "c.rec"), lambda: inv_c.reconstruction)
            attempt((tag, "a.cm2"), lambda: inv_a.curvature_matrix)
            preload_state((tag, 2), preloads, arr_s)

            # other preloads used inside `_curvature_matrix_func_list_and_mapper`
            for extra in ("mapper_operated_mapping_matrix_dict", "data_linear_func_matrix_dict", "both"):
                tag = (tag0, "extra", extra)
                try:
                    ref = make()
                    kwargs = {}
                    if extra in ("mapper_operated_mapping_matrix_dict", "both"):
                        kwargs["mapper_operated_mapping_matrix_dict"] = ref.mapper_operated_mapping_matrix_dict
                    if extra in ("data_linear_func_matrix_dict", "both"):
                        kwargs["data_linear_func_matrix_dict"] = ref.data_linear_func_matrix_dict
                        kwargs["linear_func_operated_mapping_matrix_dict"] = (
                            ref.linear_func_operated_mapping_matrix_dict
                        )
                    arr_e = variants["noisy"].copy()
                    preloads = aa.Preloads(curvature_matrix_mapper_diag=arr_e, **kwargs)
                    inv = make(preloads)
                    attempt((tag, "cm"), lambda: inv.curvature_matrix)
                    attempt((tag, "rec"), lambda: inv.reconstruction)
                    attempt((tag, "fl"), lambda: inv._curvature_matrix_func_list_and_mapper)
                    preload_state((tag, "end"), preloads, arr_e)
                except Exception as e:  # noqa
                    rec(tag, ("EXC", type(e).__name__))

            # Preloads.set_curvature_matrix fed by inversions which themselves use a preloaded diag (values only)
            tag = (tag0, "set_curvature_matrix")
            try:
                arr_0 = variants["exact"].copy()
                arr_1 = variants["exact"].copy()
                p0 = aa.Preloads(curvature_matrix_mapper_diag=arr_0)
                p1 = aa.Preloads(curvature_matrix_mapper_diag=arr_1)
                inv_0 = make(p0)

                # second fit: same mappers, linear functions rescaled -> only the mapper diag can be preloaded
                other_list = []
                for obj in linear_obj_list:
                    if isinstance(obj, aa.m.MockLinearObjFuncList):
                        other_list.append(
                            aa.m.MockLinearObjFuncList(
                                parameters=obj.params,
                                grid=obj.grid,
                                mapping_matrix=1.5 * obj.mapping_matrix + 0.1,
                            )
                        )
                    else:
                        other_list.append(obj)
                inv_1 = make(p1, linear_obj_list=other_list)

                fit_0 = aa.m.MockFitImaging(inversion=inv_0)
                fit_1 = aa.m.MockFitImaging(inversion=inv_1)

                new = aa.Preloads()
                new.set_curvature_matrix(fit_0=fit_0, fit_1=fit_1)
                rec((tag, "cm"), None if new.curvature_matrix is None else np.array(new.curvature_matrix))
                rec(
                    (tag, "diag"),
                    None
                    if new.curvature_matrix_mapper_diag is None
                    else np.array(new.curvature_matrix_mapper_diag),
                )
                rec(
                    (tag, "dvm"),
                    None if new.data_vector_mapper is None else np.array(new.data_vector_mapper),
                )
                rec((tag, "momd"), new.mapper_operated_mapping_matrix_dict is None)
                preload_state((tag, "p0"), p0, arr_0)
                preload_state((tag, "p1"), p1, arr_1)

                # an inversion built from the new preloads
                inv_2 = make(new)
                attempt((tag, "inv2.cm"), lambda: inv_2.curvature_matrix)
                attempt((tag, "inv2.rec"), lambda: inv_2.reconstruction)
                preload_state((tag, "p0b"), p0, arr_0)
                rec(
                    (tag, "diag2"),
                    None
                    if new.curvature_matrix_mapper_diag is None
                    else np.array(new.curvature_matrix_mapper_diag),
                )
            except Exception as e:  # noqa
                rec(tag, ("EXC", type(e).__name__))


COMBOS = [
    ("rect",),  # single mapper (x1 path: the retained optimisation)
    ("f2", "rect"),  # THE trigger of the seed: one mapper + linear function list
    ("rect", "f2"),
    ("f1", "rect", "f3"),
    ("f2", "f1", "dela"),
    ("rect", "dela"),  # two mappers
    ("dela", "rect", "rect"),  # three mappers (one repeated object)
    ("f2", "rect", "dela"),  # function list + two mappers
    ("rect", "f1", "dela", "f3"),
    ("f2",),  # no mapper at all
    ("f1", "f3"),
]

SETTINGS = [
    aa.SettingsInversion(use_w_tilde=True),
    aa.SettingsInversion(use_w_tilde=True, no_regularization_add_to_curvature_diag_value=0.5),
    aa.SettingsInversion(use_w_tilde=True, use_positive_only_solver=True),
]


def main():
    run_family("7x7", objs_7x7(no_blur=False), SETTINGS, COMBOS)
    run_family("7x7_direct", objs_7x7(no_blur=False), SETTINGS[:2], COMBOS[-2:] + COMBOS[:2], direct=True)
    run_family("7x7_no_blur", objs_7x7(no_blur=True), SETTINGS[:1], COMBOS[:6])

    # non-square, anisotropic pixel scales, non-zero origin, irregular mask
    mask_bool = np.full((8, 10), True)
    mask_bool[2:6, 2:8] = False
    mask_bool[3, 4] = True
    mask_bool[5, 2] = True
    mask_bool[1, 5] = False
    run_family(
        "8x10",
        objs_custom(
            shape_native=(8, 10),
            pixel_scales=(0.2, 0.1),
            origin=(0.3, -0.7),
            mask_bool=mask_bool,
            sub_size=2,
            mesh_shape=(3, 4),
            seed=1,
        ),
        SETTINGS[:2],
        COMBOS[:8],
    )

    # mask touching the image edges, tall image
    mask_bool = np.full((9, 5), True)
    mask_bool[0:4, 0:3] = False
    mask_bool[6:9, 3:5] = False
    try:
        run_family(
            "9x5_edges",
            objs_custom(
                shape_native=(9, 5),
                pixel_scales=(0.05, 0.3),
                origin=(-1.0, 2.0),
                mask_bool=mask_bool,
                sub_size=1,
                mesh_shape=(4, 3),
                seed=2,
            ),
            SETTINGS[:1],
            COMBOS[:6],
        )
    except Exception as e:  # noqa
        rec("9x5_edges", ("EXC", type(e).__name__))

    # single unmasked pixel
    mask_bool = np.full((5, 5), True)
    mask_bool[2, 2] = False
    try:
        run_family(
            "5x5_single",
            objs_custom(
                shape_native=(5, 5),
                pixel_scales=(1.0, 1.0),
                origin=(0.0, 0.0),
                mask_bool=mask_bool,
                sub_size=1,
                mesh_shape=(3, 3),
                seed=3,
            ),
            SETTINGS[:1],
            COMBOS[:4],
        )
    except Exception as e:  # noqa
        rec("5x5_single", ("EXC", type(e).__name__))

    print("observations", N_OBS[0])
    print("digest", H.hexdigest())


if __name__ == "__main__":
    main()
