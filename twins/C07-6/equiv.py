"""
Differential test for the C07-6 twin: `AbstractInversion.regularization_matrix` (block-diagonal assembly over the
linear objects) and everything derived from it.

Prints a sha256 digest over all results (array shapes / dtypes / bytes, exception types, call logs). The digest must be
identical on the clean HEAD tree and on the tree with twin.patch applied.
"""
import hashlib
import os
import warnings

warnings.filterwarnings("ignore")

import numpy as np
import autoarray as aa

from autoarray.inversion.inversion.abstract import AbstractInversion
from autoarray.preloads import Preloads

H = hashlib.sha256()
N_RECORDS = [0]
EXC_COUNT = {}


def rec(tag, value):
    N_RECORDS[0] += 1
    if os.environ.get("EQUIV_DUMP"):
        with open(os.environ["EQUIV_DUMP"], "a") as f:
            f.write(H.hexdigest()[:12] + " before " + repr(tag) + "\n")
    H.update(repr(tag).encode())
    if isinstance(value, BaseException):
        EXC_COUNT[type(value).__name__] = EXC_COUNT.get(type(value).__name__, 0) + 1
        if os.environ.get("EQUIV_VERBOSE"):
            print("EXC", tag, type(value).__name__, str(value)[:100])
        H.update(b"EXC:" + type(value).__name__.encode())
    elif isinstance(value, np.ndarray) or hasattr(value, "__array__"):
        a = np.ascontiguousarray(np.asarray(value))
        H.update(repr((a.shape, str(a.dtype))).encode())
        H.update(a.tobytes())
    else:
        H.update(repr(value).encode())


def attempt(tag, func):
    try:
        value = func()
    except Exception as e:  # noqa
        value = e
    rec(tag, value)
    return value


# ----------------------------------------------------------------------------------------------------------------
# Part A : real inversions (rectangular / Delaunay / Voronoi mappers, func lists, many regularization schemes)
# ----------------------------------------------------------------------------------------------------------------


def make_setup(shape_native, pixel_scales, origin, masked, seed, border):
    rng = np.random.default_rng(seed)
    mask_2d = np.full(shape_native, False)
    for y, x in masked:
        mask_2d[y, x] = True
    if border:
        # a masked 1-pixel frame, so that the 3x3 PSF's blurring mask fits and the full solve can run
        mask_2d[0, :] = mask_2d[-1, :] = mask_2d[:, 0] = mask_2d[:, -1] = True
    mask = aa.Mask2D(mask=mask_2d, pixel_scales=pixel_scales, origin=origin)
    over_sampler = aa.OverSamplerUniform(mask=mask, sub_size=1)
    grid = over_sampler.over_sampled_grid
    dataset = aa.Imaging(
        data=aa.Array2D(values=rng.uniform(1.0, 2.0, size=mask.pixels_in_mask), mask=mask),
        noise_map=aa.Array2D(values=rng.uniform(0.5, 1.0, size=mask.pixels_in_mask), mask=mask),
        psf=aa.Kernel2D.no_mask(
            values=[[0.0, 0.1, 0.0], [0.1, 0.6, 0.1], [0.0, 0.1, 0.0]], pixel_scales=pixel_scales
        ),
    )
    return dict(mask=mask, over_sampler=over_sampler, grid=grid, dataset=dataset, rng=rng, origin=origin)


def make_mapper(setup, kind, regularization, mesh_shape=None, points=None):
    mask, grid, rng = setup["mask"], setup["grid"], setup["rng"]
    adapt_data = aa.Array2D(values=rng.uniform(0.1, 2.0, size=mask.pixels_in_mask), mask=mask)
    if kind == "rectangular":
        mesh_grid = aa.Mesh2DRectangular.overlay_grid(shape_native=mesh_shape, grid=grid)
        cls = aa.MapperRectangular
    elif kind == "delaunay":
        mesh_grid = aa.Mesh2DDelaunay(values=points)
        cls = aa.MapperDelaunay
    else:
        mesh_grid = aa.Mesh2DVoronoi(values=points)
        cls = aa.MapperVoronoi
    mapper_grids = aa.MapperGrids(
        mask=mask,
        source_plane_data_grid=grid,
        source_plane_mesh_grid=mesh_grid,
        image_plane_mesh_grid=None,
        adapt_data=adapt_data,
    )
    return cls(
        mapper_grids=mapper_grids,
        over_sampler=setup["over_sampler"],
        border_relocator=None,
        regularization=regularization,
    )


class FuncList(aa.AbstractLinearObjFuncList):
    def __init__(self, setup, total, regularization=None):
        super().__init__(grid=setup["grid"], regularization=regularization)
        self.total = total
        self._x = np.array(setup["grid"])[:, 1]

    @property
    def params(self):
        return self.total

    @property
    def mapping_matrix(self):
        return np.stack([self._x**k for k in range(self.total)], axis=1)


DERIVED = [
    "regularization_matrix",
    "regularization_matrix_reduced",
    "total_params",
    "no_regularization_index_list",
    "curvature_reg_matrix",
    "curvature_reg_matrix_reduced",
    "reconstruction",
    "regularization_term",
    "log_det_curvature_reg_matrix_term",
    "log_det_regularization_matrix_term",
]


def run_inversion(setup, label, linear_obj_list, use_w_tilde=False, preloads=None):
    def build():
        return aa.Inversion(
            dataset=setup["dataset"],
            linear_obj_list=linear_obj_list,
            settings=aa.SettingsInversion(use_w_tilde=use_w_tilde),
            preloads=preloads or Preloads(),
        )

    try:
        inversion = build()
    except Exception as e:  # noqa
        rec((label, "build"), e)
        return
    rec((label, "build"), type(inversion).__name__)
    for name in DERIVED:
        value = attempt((label, name), lambda: getattr(inversion, name))
        if name == "regularization_matrix" and isinstance(value, np.ndarray):
            # repeated access: cached_property must hand back the very same object
            rec((label, "cached_same_object"), getattr(inversion, name) is value)
            # no aliasing with the per-object matrices: writing to the result must not leak anywhere
            before = [np.array(obj.regularization_matrix) for obj in linear_obj_list]
            saved = value.copy()
            value += 1.0
            after = [np.array(obj.regularization_matrix) for obj in linear_obj_list]
            rec((label, "no_alias"), all(np.array_equal(b, a) for b, a in zip(before, after)))
            value[...] = saved


def regs(i):
    """A fresh list of regularization schemes."""
    return [
        aa.reg.Constant(coefficient=0.7 + 0.1 * i),
        aa.reg.ConstantZeroth(coefficient_neighbor=0.8, coefficient_zeroth=0.3 + 0.1 * i),
        aa.reg.ConstantSplit(coefficient=1.1 + 0.1 * i),
        aa.reg.AdaptiveBrightness(inner_coefficient=0.4, outer_coefficient=2.0 + i, signal_scale=0.7),
        aa.reg.AdaptiveBrightness(inner_coefficient=1.0, outer_coefficient=1.0, signal_scale=1.0),
        aa.reg.AdaptiveBrightnessSplit(inner_coefficient=0.3, outer_coefficient=1.5, signal_scale=0.9),
        aa.reg.GaussianKernel(coefficient=0.9, scale=0.4 + 0.1 * i),
        aa.reg.ExponentialKernel(coefficient=1.2, scale=0.5),
        aa.reg.Zeroth(coefficient=0.6),
    ]


SETUPS = [
    # (shape, pixel scales, origin, masked pixels, masked frame)
    # unmasked up to the edges (the demo's geometry): the blurring mask does not fit -> the solve raises MaskException
    ((6, 5), (0.3, 0.2), (0.4, -0.3), [], False),
    ((7, 9), (0.25, 0.25), (0.0, 0.0), [(1, 1), (1, 2), (5, 7), (3, 4)], True),
    ((9, 6), (0.1, 0.4), (-1.0, 2.0), [(1, 1), (7, 4), (4, 1)], True),
]

for s_index, (shape, pixel_scales, origin, masked, border) in enumerate(SETUPS):
    setup = make_setup(shape, pixel_scales, origin, masked, seed=100 + s_index, border=border)
    rng = setup["rng"]
    centre = np.array(origin)
    extent = 0.5 * min(shape[0] * pixel_scales[0], shape[1] * pixel_scales[1])
    points_a = rng.uniform(-extent, extent, size=(15, 2)) + centre
    points_b = rng.uniform(-extent, extent, size=(15, 2)) + centre
    points_c = rng.uniform(-extent, extent, size=(11, 2)) + centre

    tag = f"setup{s_index}"

    # single objects, every scheme, three mesh kinds
    for r_index, reg in enumerate(regs(0)):
        is_split = "Split" in type(reg).__name__
        run_inversion(setup, (tag, "single rect", r_index), [make_mapper(setup, "rectangular", reg, mesh_shape=(3, 4))])
        run_inversion(setup, (tag, "single delaunay", r_index), [make_mapper(setup, "delaunay", reg, points=points_a)])
        if not is_split:
            run_inversion(setup, (tag, "single voronoi", r_index), [make_mapper(setup, "voronoi", reg, points=points_c)])

    # one unregularized object only / two / three of different sizes (key None shared in the seed)
    run_inversion(setup, (tag, "func only"), [FuncList(setup, 3)])
    run_inversion(setup, (tag, "func 2+3"), [FuncList(setup, 2), FuncList(setup, 3)])
    run_inversion(setup, (tag, "func 1+3+2"), [FuncList(setup, 1), FuncList(setup, 3), FuncList(setup, 2)])
    run_inversion(
        setup,
        (tag, "func2, rect, func3"),
        [
            FuncList(setup, 2),
            make_mapper(setup, "rectangular", aa.reg.ConstantZeroth(0.8, 0.3), mesh_shape=(4, 3)),
            FuncList(setup, 3),
        ],
    )
    run_inversion(
        setup,
        (tag, "rect, func1, delaunay, func2 w_tilde"),
        [
            make_mapper(setup, "rectangular", aa.reg.Constant(1.0), mesh_shape=(3, 3)),
            FuncList(setup, 1),
            make_mapper(setup, "delaunay", aa.reg.Constant(2.0), points=points_a),
            FuncList(setup, 2),
        ],
    )

    # own instances, equal values (regularization __eq__ compares __dict__, __hash__ is id)
    run_inversion(
        setup,
        (tag, "equal-but-distinct Constant"),
        [
            make_mapper(setup, "rectangular", aa.reg.Constant(1.3), mesh_shape=(3, 5)),
            make_mapper(setup, "rectangular", aa.reg.Constant(1.3), mesh_shape=(5, 3)),
            make_mapper(setup, "delaunay", aa.reg.Constant(1.3), points=points_a),
        ],
    )

    # one instance shared by objects with different geometry / size / adapt data, every scheme
    for r_index, shared in enumerate(regs(1)):
        run_inversion(
            setup,
            (tag, "shared rect 3x5 / 5x3", r_index),
            [
                make_mapper(setup, "rectangular", shared, mesh_shape=(3, 5)),
                make_mapper(setup, "rectangular", shared, mesh_shape=(5, 3)),
            ],
        )
        run_inversion(
            setup,
            (tag, "shared rect 2x3 / func / rect 4x4", r_index),
            [
                make_mapper(setup, "rectangular", shared, mesh_shape=(2, 3)),
                FuncList(setup, 2),
                make_mapper(setup, "rectangular", shared, mesh_shape=(4, 4)),
            ],
        )
        run_inversion(
            setup,
            (tag, "shared delaunay A / func / delaunay B", r_index),
            [
                make_mapper(setup, "delaunay", shared, points=points_a),
                FuncList(setup, 1),
                make_mapper(setup, "delaunay", shared, points=points_b),
            ],
        )
        if "Split" not in type(shared).__name__:
            run_inversion(
                setup,
                (tag, "shared voronoi / rect / delaunay", r_index),
                [
                    make_mapper(setup, "voronoi", shared, points=points_c),
                    make_mapper(setup, "rectangular", shared, mesh_shape=(3, 3)),
                    make_mapper(setup, "delaunay", shared, points=points_a),
                ],
            )

    # regularized func lists sharing the instance with a mapper
    shared = aa.reg.Zeroth(coefficient=0.45)
    run_inversion(
        setup,
        (tag, "shared Zeroth func2 / rect / func4"),
        [
            FuncList(setup, 2, regularization=shared),
            make_mapper(setup, "rectangular", shared, mesh_shape=(3, 3)),
            FuncList(setup, 4, regularization=shared),
            FuncList(setup, 1),
        ],
    )

    # the very same linear object listed twice (the only situation in which the twin's cache is hit)
    mapper = make_mapper(setup, "rectangular", aa.reg.Constant(0.8), mesh_shape=(3, 4))
    func = FuncList(setup, 2)
    run_inversion(setup, (tag, "same mapper twice"), [mapper, mapper])
    run_inversion(setup, (tag, "same mapper / func interleaved"), [func, mapper, func, mapper])

    # preloaded regularization matrix bypasses the assembly
    mapper = make_mapper(setup, "rectangular", aa.reg.Constant(0.8), mesh_shape=(3, 4))
    preload = np.asarray(mapper.regularization_matrix) * 2.0
    run_inversion(
        setup, (tag, "preload"), [mapper], preloads=Preloads(regularization_matrix=preload)
    )

# ----------------------------------------------------------------------------------------------------------------
# Part B : duck-typed linear objects fed to AbstractInversion directly (order of evaluation, exceptions, hashing)
# ----------------------------------------------------------------------------------------------------------------

LOG = []


class Obj:
    """Minimal linear object whose `regularization_matrix` logs each evaluation."""

    def __init__(self, name, params, regularization=None, value=1.0, fail=None):
        self.name = name
        self.params = params
        self.regularization = regularization
        self.value = value
        self.fail = fail

    @property
    def regularization_matrix(self):
        LOG.append(self.name)
        if self.fail is not None:
            raise self.fail
        if self.regularization is None:
            return np.zeros((self.params, self.params))
        return self.value * (np.eye(self.params) + 0.1)


class ObjEqAll(Obj):
    """All instances compare equal and hash alike: must still be treated as separate linear objects."""

    def __eq__(self, other):
        return True

    def __hash__(self):
        return 1


class ObjUnhashable(Obj):
    """Defines __eq__ only, therefore is unhashable."""

    def __eq__(self, other):
        return self is other


class ObjNoRegAttr:
    """Has no `regularization` attribute at all (the HEAD assembly never reads it)."""

    def __init__(self, name, params):
        self.name = name
        self.params = params

    @property
    def regularization_matrix(self):
        LOG.append(self.name)
        return 2.0 * np.eye(self.params)


class UnhashableReg:
    __hash__ = None

    def __eq__(self, other):
        return True


class Ragged(Obj):
    @property
    def regularization_matrix(self):
        LOG.append(self.name)
        return np.ones((self.params, self.params + 1))


class Fixed:
    """`regularization_matrix` is a plain attribute: 1D, 0D, list and empty blocks accepted by `block_diag`."""

    def __init__(self, value, regularization=None):
        self.regularization_matrix = value
        self.regularization = regularization


def run_abstract(label, linear_obj_list, preloads=None):
    del LOG[:]
    inversion = AbstractInversion(dataset=None, linear_obj_list=linear_obj_list, preloads=preloads)
    value = attempt((label, "regularization_matrix"), lambda: inversion.regularization_matrix)
    rec((label, "log"), list(LOG))
    if isinstance(value, np.ndarray):
        rec((label, "cached"), inversion.regularization_matrix is value)
        rec((label, "log after 2nd access"), list(LOG))
        rec((label, "writeable"), value.flags.writeable)


reg_1 = aa.reg.Constant(coefficient=1.0)
reg_2 = aa.reg.Constant(coefficient=1.0)

run_abstract("empty", [])
run_abstract("one none", [Obj("a", 3)])
run_abstract("one none zero params", [Obj("a", 0)])
run_abstract("none 0 + none 2", [Obj("a", 0), Obj("b", 2)])
run_abstract("none 2 + none 0", [Obj("a", 2), Obj("b", 0)])
run_abstract("none 2 + none 3", [Obj("a", 2), Obj("b", 3)])
run_abstract("shared reg diff size", [Obj("a", 2, reg_1, 1.0), Obj("b", 3, reg_1, 2.0)])
run_abstract("shared reg same size diff value", [Obj("a", 3, reg_1, 1.0), Obj("b", 3, reg_1, 2.0)])
run_abstract("equal regs", [Obj("a", 3, reg_1, 1.0), Obj("b", 3, reg_2, 2.0), Obj("c", 1)])
run_abstract("string regs", [Obj("a", 1, "r", 1.0), Obj("b", 2, "r", 2.0), Obj("c", 3, "s", 3.0)])
run_abstract("unhashable regularization", [Obj("a", 2, UnhashableReg(), 1.0), Obj("b", 1, UnhashableReg(), 3.0)])
run_abstract("list regularization", [Obj("a", 2, [1, 2], 1.0), Obj("b", 1, [1, 2], 3.0)])
run_abstract("nan regularization", [Obj("a", 2, float("nan"), 1.0), Obj("b", 1, float("nan"), 3.0)])
run_abstract("eq-all objects", [ObjEqAll("a", 2, reg_1, 1.0), ObjEqAll("b", 3, reg_1, 5.0), ObjEqAll("c", 1)])
run_abstract("unhashable objects", [ObjUnhashable("a", 2, reg_1, 1.0), ObjUnhashable("b", 3, None)])
run_abstract("no regularization attribute", [ObjNoRegAttr("a", 2), Obj("b", 1), ObjNoRegAttr("c", 3)])
run_abstract("ragged block", [Obj("a", 2), Ragged("b", 2, reg_1), Obj("c", 1)])
run_abstract("fixed 1d / 0d / list", [Fixed(np.arange(3.0)), Fixed(4.0, reg_1), Fixed([[1, 2], [3, 4]], reg_1)])
run_abstract("fixed empty blocks", [Fixed(np.zeros((0, 0))), Fixed([]), Fixed(np.zeros((2, 2)), reg_1)])
run_abstract("fixed int / bool / complex dtypes", [Fixed(np.eye(2, dtype=int)), Fixed(np.eye(1, dtype=bool))])
run_abstract("fixed complex", [Fixed(np.eye(2) * 1j, reg_1), Fixed(np.eye(1), reg_1)])
run_abstract("fixed 3d (block_diag raises)", [Fixed(np.zeros((2, 2, 2))), Fixed(np.eye(1))])

# exceptions: the first failing object, in list order, decides; later objects are not evaluated
run_abstract("fail first", [Obj("a", 2, fail=ValueError("a")), Obj("b", 2, fail=KeyError("b"))])
run_abstract("fail second", [Obj("a", 2), Obj("b", 2, fail=KeyError("b")), Obj("c", 2, fail=ValueError("c"))])
run_abstract("fail shared reg", [Obj("a", 2, reg_1), Obj("b", 2, reg_1, fail=TypeError("b"))])
run_abstract("fail none second", [Obj("a", 2), Obj("b", 3, fail=AttributeError("b"))])
run_abstract("fail last", [Obj("a", 2, reg_1), Obj("b", 3, reg_2), Obj("c", 1, fail=ZeroDivisionError("c"))])

# tuple instead of list, preloads
run_abstract("tuple list", (Obj("a", 2, reg_1), Obj("b", 1)))
preload = np.arange(9.0).reshape(3, 3)
del LOG[:]
inversion = AbstractInversion(
    dataset=None,
    linear_obj_list=[Obj("a", 2, reg_1), Obj("b", 1)],
    preloads=Preloads(regularization_matrix=preload),
)
rec("preload identical object", inversion.regularization_matrix is preload)
rec("preload log", list(LOG))

# the block diagonal never aliases the blocks it was built from
blocks = [np.eye(2), np.full((3, 3), 2.0)]
inversion = AbstractInversion(dataset=None, linear_obj_list=[Fixed(blocks[0], reg_1), Fixed(blocks[1], reg_1)])
matrix = inversion.regularization_matrix
matrix += 5.0
rec("blocks untouched", [b.copy() for b in blocks][0])
rec("blocks untouched 2", blocks[1])
rec("shares memory", [bool(np.shares_memory(matrix, b)) for b in blocks])

# random stress: random sizes, random sharing pattern of regularizations across DISTINCT objects
rng = np.random.default_rng(7)
pool = [None, None, reg_1, reg_2, aa.reg.Constant(2.0), "r", "s"]
for trial in range(300):
    n = int(rng.integers(0, 7))
    objs = []
    for k in range(n):
        reg = pool[int(rng.integers(0, len(pool)))]
        objs.append(Obj(f"o{k}", int(rng.integers(0, 5)), reg, float(rng.uniform(0.5, 3.0))))
    run_abstract(("random", trial), objs)

# the very same duck-typed object listed more than once: the RESULT goes into the digest; the number of evaluations of
# the object's `regularization_matrix` property is only printed (HEAD evaluates it once per occurrence, the twin once
# per distinct object; see TWIN_NOTES.md -- this is the one observable the cache, by design, does change).
twice = Obj("t", 2, reg_1, 1.5)
other = Obj("u", 3)
del LOG[:]
inversion = AbstractInversion(dataset=None, linear_obj_list=[twice, other, twice, other, twice])
rec("same object listed repeatedly", inversion.regularization_matrix)
print("info (not in digest): evaluations for [t, u, t, u, t] =", list(LOG))

print("records", N_RECORDS[0], "of which exceptions", sorted(EXC_COUNT.items()))
print("digest", H.hexdigest())
