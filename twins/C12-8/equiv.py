"""
Differential test for the C12-8 twin (SimulatorImaging.via_image_from, `constant_map_from` helper).

Prints a sha256 digest over every observable of the simulated datasets (values, dtypes, masks, origins,
pixel scales, grids, extents, exception types) for a large set of inputs. The digest must be identical on the
clean HEAD tree and on the twin tree.
"""
import hashlib
import itertools
import warnings

import numpy as np

warnings.filterwarnings("ignore")

import autoarray as aa

h = hashlib.sha256()
n_cases = 0
n_exc = 0


def feed(*items):
    for item in items:
        if isinstance(item, np.ndarray):
            h.update(str(item.dtype).encode())
            h.update(repr(item.shape).encode())
            h.update(np.ascontiguousarray(item).tobytes())
        else:
            h.update(repr(item).encode())
        h.update(b"|")


def feed_array(name, array):
    feed(
        name,
        type(array).__name__,
        np.array(array),
        np.array(array.native),
        np.array(array.mask),
        tuple(array.mask.origin),
        tuple(array.origin),
        tuple(array.pixel_scales),
        tuple(array.mask.pixel_scales),
        tuple(array.shape_native),
        tuple(array.geometry.extent),
        tuple(array.geometry.central_scaled_coordinates),
        np.array(array.mask.derive_grid.unmasked),
        np.array(array.mask.derive_grid.all_false),
    )


def feed_dataset(dataset):
    feed_array("data", dataset.data)
    feed_array("noise_map", dataset.noise_map)
    feed("mask", np.array(dataset.mask), tuple(dataset.mask.origin), tuple(dataset.mask.pixel_scales))
    feed("grid", np.array(dataset.grids.uniform))
    feed("psf", np.array(dataset.psf.native), tuple(dataset.psf.pixel_scales))
    feed("same_mask", dataset.noise_map.mask is dataset.data.mask)
    # arithmetic between data and noise-map (uses the geometry of the left operand)
    snr = dataset.signal_to_noise_map
    feed_array("snr", snr)
    left = dataset.noise_map * 2.0
    feed_array("nm_times_2", left)
    both = dataset.noise_map + dataset.data
    feed_array("nm_plus_data", both)


def run(label, func):
    global n_cases, n_exc
    n_cases += 1
    feed("CASE", label)
    try:
        result = func()
    except Exception as e:  # noqa
        n_exc += 1
        feed("EXC", type(e).__name__, str(e))
        return None
    if isinstance(result, (list, tuple)):
        for r in result:
            feed_dataset(r)
    else:
        feed_dataset(result)
    return result


def psf_from(kind, pixel_scales):
    if kind == "none":
        return None
    if kind == "cross":
        return aa.Kernel2D.no_mask(
            values=[[0.0, 1.0, 0.0], [1.0, 2.0, 1.0], [0.0, 1.0, 0.0]],
            pixel_scales=pixel_scales,
        )
    if kind == "asym":
        return aa.Kernel2D.no_mask(
            values=[[0.0, 3.0, 0.5], [1.0, 2.0, 0.0], [0.25, 1.0, 0.0]],
            pixel_scales=pixel_scales,
        )
    if kind == "1x1":
        return aa.Kernel2D.no_mask(values=[[1.0]], pixel_scales=pixel_scales)
    raise ValueError(kind)


def image_from(shape_native, pixel_scales, origin, kind="ramp"):
    n = shape_native[0] * shape_native[1]
    if kind == "ramp":
        values = np.arange(1.0, n + 1.0).reshape(shape_native)
    elif kind == "zeros":
        values = np.zeros(shape_native)
    elif kind == "negative":
        values = -np.arange(1.0, n + 1.0).reshape(shape_native)
    elif kind == "random":
        values = np.random.default_rng(n).uniform(0.1, 5.0, size=shape_native)
    return aa.Array2D.no_mask(values=values, pixel_scales=pixel_scales, origin=origin)


shapes = [(5, 7), (7, 5), (4, 4), (3, 3), (1, 1), (1, 6), (6, 1), (2, 9)]
scales = [(0.4, 0.7), (1.0, 1.0), 0.1, (2.0, 0.5)]
origins = [(0.0, 0.0), (1.5, -0.6), (-3.0, 2.25), (0.0, 4.0), (1e3, -1e3)]
flags = list(itertools.product((True, False), repeat=3))

# 1. full sweep over geometry x flags with the cross psf (unmasked images)
for shape, scale, origin in itertools.product(shapes, scales, origins):
    for add_p, incl_p, sub_sky in flags:

        def f(shape=shape, scale=scale, origin=origin, add_p=add_p, incl_p=incl_p, sub_sky=sub_sky):
            image = image_from(shape, scale, origin)
            simulator = aa.SimulatorImaging(
                exposure_time=300.0,
                background_sky_level=1.0,
                subtract_background_sky=sub_sky,
                psf=psf_from("cross", image.pixel_scales),
                add_poisson_noise_to_data=add_p,
                include_poisson_noise_in_noise_map=incl_p,
                noise_if_add_noise_false=0.25,
                noise_seed=1,
            )
            return simulator.via_image_from(image=image)

        run(("sweep", shape, scale, origin, add_p, incl_p, sub_sky), f)

# 2. psf variants, normalisation, fill values, seeds
for psf_kind, normalize, incl_p, origin in itertools.product(
    ("none", "cross", "asym", "1x1"), (True, False), (True, False), origins[:3]
):

    def f(psf_kind=psf_kind, normalize=normalize, incl_p=incl_p, origin=origin):
        image = image_from((5, 6), (0.3, 0.9), origin, kind="random")
        simulator = aa.SimulatorImaging(
            exposure_time=1234.5,
            background_sky_level=0.37,
            psf=psf_from(psf_kind, image.pixel_scales),
            normalize_psf=normalize,
            add_poisson_noise_to_data=True,
            include_poisson_noise_in_noise_map=incl_p,
            noise_if_add_noise_false=7.0,
            noise_seed=42,
        )
        return simulator.via_image_from(image=image)

    run(("psf", psf_kind, normalize, incl_p, origin), f)

# 3. exceptional / degenerate parameter values (NaN noise-map -> DatasetException, zero / negative levels,
#    integer-like and non-float fill values)
for kind, exposure_time, sky, noise_fill, incl_p, add_p, origin in itertools.product(
    ("ramp", "zeros", "negative"),
    (300.0, 0.0, -5.0, 1),
    (0.0, 1.0, -2.0),
    (0.25, 0.0, float("nan"), 3),
    (True, False),
    (True, False),
    origins[:2],
):

    def f(kind=kind, exposure_time=exposure_time, sky=sky, noise_fill=noise_fill, incl_p=incl_p, add_p=add_p,
          origin=origin):
        image = image_from((3, 4), (0.5, 0.25), origin, kind=kind)
        simulator = aa.SimulatorImaging(
            exposure_time=exposure_time,
            background_sky_level=sky,
            psf=psf_from("cross", image.pixel_scales),
            add_poisson_noise_to_data=add_p,
            include_poisson_noise_in_noise_map=incl_p,
            noise_if_add_noise_false=noise_fill,
            noise_seed=3,
        )
        return simulator.via_image_from(image=image)

    run(("degenerate", kind, exposure_time, sky, noise_fill, incl_p, add_p, origin), f)

# 4. masked input images (masks touching edges, fully masked, single unmasked pixel), non-zero mask origin
mask_patterns = {}
m = np.full((5, 7), True)
m[1:4, 2:6] = False
mask_patterns["interior"] = m
m = np.full((5, 7), True)
m[0, :] = False
m[:, 0] = False
m[4, 6] = False
mask_patterns["edges"] = m
m = np.full((5, 7), True)
m[2, 3] = False
mask_patterns["single"] = m
mask_patterns["all_true"] = np.full((5, 7), True)
mask_patterns["all_false"] = np.full((5, 7), False)

for (mname, mvals), origin, incl_p, add_p in itertools.product(
    mask_patterns.items(), origins[:3], (True, False), (True, False)
):

    def f(mvals=mvals, origin=origin, incl_p=incl_p, add_p=add_p):
        mask = aa.Mask2D(mask=mvals, pixel_scales=(0.4, 0.7), origin=origin)
        values = np.arange(1.0, 36.0).reshape((5, 7))
        image = aa.Array2D(values=values, mask=mask)
        simulator = aa.SimulatorImaging(
            exposure_time=300.0,
            background_sky_level=1.0,
            psf=psf_from("asym", (0.4, 0.7)),
            add_poisson_noise_to_data=add_p,
            include_poisson_noise_in_noise_map=incl_p,
            noise_if_add_noise_false=0.25,
            noise_seed=1,
        )
        return simulator.via_image_from(image=image)

    run(("masked", mname, origin, incl_p, add_p), f)

# 5. repeated calls on a shared simulator / shared image: no state carried between calls, input image untouched
for incl_p in (True, False):

    def f(incl_p=incl_p):
        simulator = aa.SimulatorImaging(
            exposure_time=300.0,
            background_sky_level=1.0,
            psf=psf_from("cross", (0.4, 0.7)),
            add_poisson_noise_to_data=False,
            include_poisson_noise_in_noise_map=incl_p,
            noise_if_add_noise_false=0.25,
            noise_seed=1,
        )
        image_a = image_from((5, 7), (0.4, 0.7), (1.5, -0.6))
        image_b = image_from((4, 3), (0.4, 0.7), (-2.0, 0.5))
        before = np.array(image_a.native).copy()
        out = [
            simulator.via_image_from(image=image_a),
            simulator.via_image_from(image=image_b),
            simulator.via_image_from(image=image_a),
        ]
        feed("input_untouched", bool((np.array(image_a.native) == before).all()), tuple(image_a.origin))
        feed("distinct_noise_maps", out[0].noise_map is out[2].noise_map,
             np.shares_memory(np.array(out[0].noise_map), np.array(out[2].noise_map)))
        # in-place edit of one returned noise-map must not leak into a later simulation
        out[0].noise_map._array[0] = 99.0
        out.append(simulator.via_image_from(image=image_a))
        return out

    run(("repeat", incl_p), f)

# 6. invalid inputs: exception types must be unchanged
for bad in ("ndarray", "none", "list", "grid"):

    def f(bad=bad):
        simulator = aa.SimulatorImaging(
            exposure_time=300.0,
            background_sky_level=1.0,
            psf=psf_from("cross", 1.0),
            include_poisson_noise_in_noise_map=False,
            noise_seed=1,
        )
        if bad == "ndarray":
            image = np.ones((3, 3))
        elif bad == "none":
            image = None
        elif bad == "list":
            image = [[1.0, 2.0], [3.0, 4.0]]
        else:
            image = aa.Grid2D.uniform(shape_native=(3, 3), pixel_scales=1.0)
        return simulator.via_image_from(image=image)

    run(("bad", bad), f)

print("cases", n_cases, "exceptions", n_exc)
print(h.hexdigest())
