"""
Differential test for the C10-6 twin (vectorised `mask_2d_util.border_slim_indexes_from`).

Computes a deterministic sha256 digest over the results (values, dtype, shape, exception types, input-unchanged flags)
of the border functionality for a large set of masks. Run it on the clean HEAD tree and on the twin tree: the two
digests must be identical.

    cd /tmp/wt8/C10-6 && PYTHONPATH=/tmp/wt8/C10-6 /venv/bin/python equiv.py
"""
import hashlib
import warnings

import numpy as np

warnings.filterwarnings("ignore")

import autoarray as aa
from autoarray.mask import mask_2d_util
from autoarray.inversion.pixelization.border_relocator import BorderRelocator

h = hashlib.sha256()
n_records = 0
n_exceptions = 0


def record(tag, value):
    global n_records
    n_records += 1
    h.update(tag.encode())
    if isinstance(value, np.ndarray):
        h.update(str(value.dtype).encode())
        h.update(repr(value.shape).encode())
        h.update(np.ascontiguousarray(value).tobytes())
    else:
        h.update(repr(value).encode())


def call(tag, func):
    """Record the result, or the exception type, of func()."""
    global n_exceptions
    try:
        result = func()
    except Exception as e:  # noqa
        n_exceptions += 1
        record(tag, "EXC:" + type(e).__name__)
        return None
    if isinstance(result, np.ndarray):
        record(tag + ":type", type(result).__name__)
        record(tag, np.array(result))
        record(tag + ":writeable", bool(result.flags.writeable))
    else:
        record(tag + ":type", type(result).__name__)
        record(tag, np.array(result))
    return result


def util_level(tag, mask):
    """`border_slim_indexes_from` on a raw array; the input must be left untouched; repeated calls must agree."""
    before = np.array(mask, copy=True)
    r1 = call(tag + ":util", lambda: mask_2d_util.border_slim_indexes_from(mask_2d=mask))
    r2 = call(tag + ":util-again", lambda: mask_2d_util.border_slim_indexes_from(mask_2d=mask))
    record(tag + ":input-unchanged", bool(np.array_equal(before, np.array(mask))))
    if r1 is not None and r2 is not None:
        record(tag + ":fresh-object", r1 is not r2 and not np.shares_memory(r1, r2))
        # the result must be writeable and independent of the input
        r1[...] = -1.0
        record(tag + ":input-unchanged-after-write", bool(np.array_equal(before, np.array(mask))))
    # positional call
    call(tag + ":util-positional", lambda: mask_2d_util.border_slim_indexes_from(mask))


def object_level(tag, mask, pixel_scales, origin, relocator=False):
    def build():
        return aa.Mask2D(mask=mask, pixel_scales=pixel_scales, origin=origin)

    try:
        m = build()
    except Exception as e:  # noqa
        record(tag + ":Mask2D", "EXC:" + type(e).__name__)
        return
    call(tag + ":border_slim", lambda: m.derive_indexes.border_slim)
    call(tag + ":border_native", lambda: m.derive_indexes.border_native)
    call(tag + ":edge_slim", lambda: m.derive_indexes.edge_slim)
    call(tag + ":mask.border", lambda: np.array(m.derive_mask.border))
    call(tag + ":grid.border", lambda: np.array(m.derive_grid.border))
    call(tag + ":border_slim-again", lambda: m.derive_indexes.border_slim)
    # Mask2D object handed directly to the util function
    call(tag + ":util(Mask2D)", lambda: np.array(mask_2d_util.border_slim_indexes_from(mask_2d=m)))
    record(tag + ":mask-unchanged", bool(np.array_equal(np.array(m), np.array(mask, dtype=bool))))
    if relocator:
        for sub_size in (1, 2):
            def reloc():
                br = BorderRelocator(mask=m, sub_size=sub_size)
                return np.array(br.sub_border_slim)
            call(tag + f":sub_border_slim{sub_size}", reloc)

            def reloc_grid():
                br = BorderRelocator(mask=m, sub_size=sub_size)
                return np.array(br.sub_border_grid)
            call(tag + f":sub_border_grid{sub_size}", reloc_grid)


rng = np.random.RandomState(20240610)

# --------------------------------------------------------------------------------------------------------------
# 1) hand made masks: triggers from the notes + classics
# --------------------------------------------------------------------------------------------------------------
hand = {}

m = np.full((9, 10), True); m[1:8, 1:9] = False; m[2:7, 2:8] = True; m[3:6, 3:7] = False; m[4, 4] = True
hand["padded annulus island hole"] = m
m = np.full((7, 12), True); m[1:4, 1:4] = False; m[3:6, 7:11] = False
hand["two padded components"] = m
m = np.full((5, 6), True); m[0:2, 2:4] = False; m[2:5, 5] = False
hand["thin touching boundary"] = m
m = np.full((6, 7), True); m[0:3, 1:4] = False
hand["3x3 flush top"] = m
m = np.full((6, 7), True); m[3:6, 2:6] = False
hand["block flush bottom"] = m
m = np.full((7, 6), True); m[1:6, 0:3] = False
hand["block flush left"] = m
m = np.full((7, 6), True); m[1:6, 3:6] = False
hand["block flush right"] = m
m = np.full((6, 6), False); m[2:4, 2:4] = True
hand["frame with hole"] = m
m = np.full((7, 7), False); m[3, 3] = True
hand["single masked centre"] = m
m = np.full((7, 7), False); m[0, 0] = True
hand["single masked corner"] = m
m = np.full((7, 7), False); m[0, 3] = True
hand["single masked on top row"] = m
m = np.full((5, 8), False); m[:, 0] = True
hand["first column masked"] = m
m = np.full((5, 8), False); m[-1, :] = True
hand["last row masked"] = m
for shape in [(4, 5), (1, 1), (1, 5), (5, 1), (2, 2), (2, 7), (7, 2), (3, 3), (1, 2), (2, 1)]:
    hand[f"all False {shape}"] = np.full(shape, False)
    hand[f"all True {shape}"] = np.full(shape, True)
m = np.full((5, 5), True); m[2, 2] = False
hand["single unmasked centre"] = m
m = np.full((5, 5), True); m[0, 0] = False
hand["single unmasked corner"] = m
m = np.full((5, 5), True); m[4, 2] = False
hand["single unmasked bottom row"] = m
m = np.full((4, 9), True); m[:, 3:6] = False
hand["vertical band through array"] = m
m = np.full((9, 4), True); m[3:6, :] = False
hand["horizontal band through array"] = m
m = np.full((8, 8), True); m[0:4, 0:4] = False
hand["block in corner"] = m
m = np.full((8, 8), True); m[4:8, 4:8] = False; m[0:3, 0:3] = False
hand["two corner blocks"] = m
m = np.full((9, 9), True)
for i in range(9):
    m[i, i] = False
hand["diagonal"] = m
m = np.indices((8, 8)).sum(axis=0) % 2 == 0
hand["checkerboard"] = m

for name, m in hand.items():
    util_level("hand:" + name, m)
    if m.size:
        object_level("hand:" + name, m, (1.0, 1.0), (0.0, 0.0), relocator=True)
        object_level("hand-aniso:" + name, m, (2.0, 0.5), (1.0, -3.0), relocator=False)

# --------------------------------------------------------------------------------------------------------------
# 2) degenerate shapes, dtypes, memory layouts
# --------------------------------------------------------------------------------------------------------------
for shape in [(0, 0), (0, 4), (4, 0), (0, 1), (1, 0)]:
    util_level(f"empty {shape}", np.full(shape, True))
    util_level(f"empty-false {shape}", np.full(shape, False))

for k in range(60):
    ny, nx = rng.randint(1, 9), rng.randint(1, 9)
    b = rng.rand(ny, nx) < rng.choice([0.2, 0.5, 0.8])
    util_level(f"dtype-int {k}", b.astype(int))
    util_level(f"dtype-int8 {k}", b.astype(np.int8))
    util_level(f"dtype-uint8 {k}", b.astype(np.uint8))
    util_level(f"dtype-float {k}", b.astype(float))
    util_level(f"fortran {k}", np.asfortranarray(b))
    big = rng.rand(2 * ny, 2 * nx) < 0.5
    util_level(f"strided {k}", big[::2, ::2])
    util_level(f"reversed {k}", b[::-1, ::-1])
    util_level(f"transposed {k}", b.T)
    ro = b.copy()
    ro.setflags(write=False)
    util_level(f"readonly {k}", ro)
    util_level(f"list {k}", b.tolist()) if k < 5 else None

# malformed inputs (wrong rank, not an array): only the exception type is compared
for name, bad in {
    "1d": np.array([True, False, True]),
    "1d-empty": np.zeros(0, dtype=bool),
    "0d": np.array(True),
    "3d": np.full((3, 4, 2), False),
    "3d-true": np.full((3, 4, 2), True),
    "list-all-true": [[True, True], [True, True]],
    "list-all-false": [[False, False], [False, False]],
    "list-empty": [],
    "none": None,
    "scalar": True,
}.items():
    call(f"malformed {name}", lambda: mask_2d_util.border_slim_indexes_from(mask_2d=bad))

# --------------------------------------------------------------------------------------------------------------
# 3) random masks at util level: unpadded (touching the boundary) and padded, many densities and shapes
# --------------------------------------------------------------------------------------------------------------
for k in range(3000):
    ny, nx = rng.randint(1, 13), rng.randint(1, 13)
    p = rng.choice([0.02, 0.1, 0.3, 0.5, 0.7, 0.9, 0.98])
    b = rng.rand(ny, nx) < p
    util_level(f"rand {k}", b)
    if k % 3 == 0:
        util_level(f"rand-padded {k}", np.pad(b, rng.randint(1, 3), constant_values=True))

# blob-like masks (thick unmasked regions meeting the boundary: the trigger of the seed)
for k in range(1500):
    ny, nx = rng.randint(3, 16), rng.randint(3, 16)
    b = np.full((ny, nx), True)
    for _ in range(rng.randint(1, 4)):
        y0, x0 = rng.randint(-2, ny), rng.randint(-2, nx)
        hy, hx = rng.randint(1, 8), rng.randint(1, 8)
        b[max(y0, 0) : max(y0 + hy, 0), max(x0, 0) : max(x0 + hx, 0)] = False
    for _ in range(rng.randint(0, 3)):
        y0, x0 = rng.randint(0, ny), rng.randint(0, nx)
        hy, hx = rng.randint(1, 4), rng.randint(1, 4)
        b[y0 : y0 + hy, x0 : x0 + hx] = True
    util_level(f"blob {k}", b)
    if k % 10 == 0:
        object_level(
            f"blob-obj {k}",
            b,
            (float(rng.choice([0.5, 1.0, 2.0])), float(rng.choice([0.25, 1.0, 3.0]))),
            (float(rng.uniform(-2, 2)), float(rng.uniform(-2, 2))),
            relocator=(k % 50 == 0),
        )

# --------------------------------------------------------------------------------------------------------------
# 4) library-made masks through the object API (circular / annular / elliptical, non-square, shifted, anisotropic)
# --------------------------------------------------------------------------------------------------------------
for k, (shape, scales, radius, centre) in enumerate(
    [
        ((11, 11), (1.0, 1.0), 3.0, (0.0, 0.0)),
        ((11, 15), (1.0, 0.5), 3.0, (0.5, -0.5)),
        ((9, 7), (0.5, 1.0), 8.0, (0.0, 0.0)),  # circle larger than the array: unmasked up to the boundary
        ((12, 12), (1.0, 1.0), 5.0, (3.0, 3.0)),  # circle cut by the array boundary
        ((8, 13), (2.0, 1.0), 4.5, (-3.0, 2.0)),
    ]
):
    def circ():
        return aa.Mask2D.circular(shape_native=shape, pixel_scales=scales, radius=radius, centre=centre)

    try:
        mm = circ()
    except Exception as e:  # noqa
        record(f"circ {k}", "EXC:" + type(e).__name__)
        continue
    object_level(f"circ {k}", np.array(mm), scales, (0.0, 0.0), relocator=True)
    object_level(f"circ-origin {k}", np.array(mm), scales, (0.7, -1.3), relocator=False)

for k, (shape, scales, r0, r1, centre) in enumerate(
    [
        ((13, 13), (1.0, 1.0), 2.0, 5.0, (0.0, 0.0)),
        ((13, 10), (1.0, 1.0), 2.0, 9.0, (0.0, 0.0)),
        ((10, 14), (1.0, 0.7), 1.5, 4.0, (2.0, -2.0)),
    ]
):
    try:
        mm = aa.Mask2D.circular_annular(
            shape_native=shape, pixel_scales=scales, inner_radius=r0, outer_radius=r1, centre=centre
        )
    except Exception as e:  # noqa
        record(f"annular {k}", "EXC:" + type(e).__name__)
        continue
    object_level(f"annular {k}", np.array(mm), scales, (0.0, 0.0), relocator=True)

print(f"records {n_records} exceptions {n_exceptions}")
print("digest", h.hexdigest())
