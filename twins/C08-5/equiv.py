"""
Differential test for the C08-5 twin (merged `_regularized_only_from` helper in
autoarray/inversion/inversion/abstract.py).

Prints a sha256 digest over every result (values, dtypes, shapes, aliasing / caching flags and the types of raised
exceptions). Run on the clean tree and on the twin tree: the two digests must be identical.

    cd /tmp/wt8/C08-5 && PYTHONPATH=/tmp/wt8/C08-5 /venv/bin/python equiv.py
"""
import hashlib
import itertools
import logging
import os
import warnings

warnings.filterwarnings("ignore")
logging.disable(logging.CRITICAL)

import numpy as np

import autoarray as aa
from autoarray import fixtures

H = hashlib.sha256()
N_RECORDS = 0
DUMP = open(os.environ["EQUIV_DUMP"], "w") if os.environ.get("EQUIV_DUMP") else None  # optional per-record log


def enc(value):
    if isinstance(value, np.ndarray):
        arr = np.ascontiguousarray(value)
        return b"ND|%s|%s|%s|" % (
            type(value).__name__.encode(),
            str(arr.dtype).encode(),
            str(arr.shape).encode(),
        ) + (arr.tobytes() if arr.dtype != object else repr(arr.tolist()).encode())
    if isinstance(value, (list, tuple)):
        return (
            b"SEQ|" + type(value).__name__.encode() + b"|" + b";".join(enc(v) for v in value)
        )
    if isinstance(value, (float, np.floating)):
        return b"F|" + type(value).__name__.encode() + b"|" + np.float64(value).tobytes()
    return b"R|" + type(value).__name__.encode() + b"|" + repr(value).encode()


def record(tag, value):
    global N_RECORDS
    N_RECORDS += 1
    line = tag.encode() + b"=" + enc(value) + b"\n"
    H.update(line)
    if DUMP is not None:
        short = repr(value) if isinstance(value, (str, bool, int)) else hashlib.sha256(line).hexdigest()[:16]
        DUMP.write(f"{tag} {short}\n")


def attempt(tag, func):
    """Evaluate func, record its result or the type of the raised exception, return (ok, value)."""
    try:
        value = func()
    except Exception as e:  # noqa
        record(tag, "EXC:" + type(e).__name__)
        return False, None
    record(tag, value)
    return True, value


REDUCED = (
    ("regularization_matrix_reduced", "regularization_matrix"),
    ("curvature_reg_matrix_reduced", "curvature_reg_matrix"),
    ("reconstruction_reduced", "reconstruction"),
)

TERMS = (
    "regularization_term",
    "log_det_curvature_reg_matrix_term",
    "log_det_regularization_matrix_term",
)


def probe(tag, inversion, terms=True):
    """Read every reduced quantity (twice), check aliasing / caching / in-place effects, then the evidence terms."""
    for reduced_name, full_name in REDUCED:
        ok_full, full = attempt(f"{tag}.{full_name}.before", lambda: getattr(inversion, full_name))
        full_copy = np.array(full, copy=True) if isinstance(full, np.ndarray) else None

        ok, reduced = attempt(f"{tag}.{reduced_name}", lambda: getattr(inversion, reduced_name))
        ok2, reduced_again = attempt(
            f"{tag}.{reduced_name}.again", lambda: getattr(inversion, reduced_name)
        )
        if ok and ok2:
            record(f"{tag}.{reduced_name}.cached_same_object", reduced is reduced_again)
        if ok and ok_full:
            ok3, full_after = attempt(
                f"{tag}.{full_name}.after", lambda: getattr(inversion, full_name)
            )
            record(f"{tag}.{reduced_name}.is_full", reduced is full)
            if ok3:
                record(f"{tag}.{full_name}.same_object_after", full_after is full)
            if isinstance(reduced, np.ndarray) and isinstance(full, np.ndarray):
                record(f"{tag}.{reduced_name}.shares_memory", bool(np.shares_memory(reduced, full)))
                record(f"{tag}.{reduced_name}.owndata", bool(reduced.flags["OWNDATA"]))
                record(f"{tag}.{reduced_name}.writeable", bool(reduced.flags["WRITEABLE"]))
                record(f"{tag}.{reduced_name}.c_contig", bool(reduced.flags["C_CONTIGUOUS"]))
                record(f"{tag}.{reduced_name}.f_contig", bool(reduced.flags["F_CONTIGUOUS"]))
            if full_copy is not None:
                record(
                    f"{tag}.{full_name}.unchanged",
                    bool(
                        full.shape == full_copy.shape
                        and np.array_equal(full, full_copy, equal_nan=False)
                    ),
                )
    attempt(f"{tag}.no_regularization_index_list", lambda: inversion.no_regularization_index_list)
    attempt(
        f"{tag}.all_linear_obj_have_regularization",
        lambda: inversion.all_linear_obj_have_regularization,
    )
    if terms:
        for term in TERMS:
            attempt(f"{tag}.{term}", lambda: getattr(inversion, term))
            attempt(f"{tag}.{term}.again", lambda: getattr(inversion, term))


# ----------------------------------------------------------------------------------------------------------------
# 1) MockInversion: every ordering of regularized / unregularized objects (incl. zero-parameter objects)
# ----------------------------------------------------------------------------------------------------------------


def mock_obj(regularized, params, mapper):
    regularization = aa.m.MockRegularization() if regularized else None
    if mapper:
        return aa.m.MockMapper(parameters=params, regularization=regularization)
    return aa.m.MockLinearObj(parameters=params, regularization=regularization)


def spd(rng, n):
    a = rng.random((n, n))
    return a @ a.T + n * np.eye(n)


def mock_inversion(rng, spec, order="C", dtype=np.float64):
    linear_obj_list = [mock_obj(*s) for s in spec]
    total = sum(s[1] for s in spec)
    reg = np.asarray(spd(rng, total), dtype=dtype, order=order)
    cur = np.asarray(spd(rng, total) + reg, dtype=dtype, order=order)
    rec = np.asarray(rng.normal(size=total), dtype=dtype)
    return aa.m.MockInversion(
        linear_obj_list=linear_obj_list,
        regularization_matrix=reg,
        curvature_reg_matrix=cur,
        reconstruction=rec,
    )


def section_mock_orderings():
    rng = np.random.default_rng(805)

    # all patterns of regularized flags up to 5 objects, with varying parameter counts
    for n_obj in range(0, 6):
        for flags in itertools.product([False, True], repeat=n_obj):
            for variant in range(2):
                params = [int(rng.integers(0 if variant else 1, 4)) for _ in flags]
                spec = [(f, p, bool((i + variant) % 2)) for i, (f, p) in enumerate(zip(flags, params))]
                tag = f"mock[{''.join('RU'[not f] for f in flags)}|{params}|{variant}]"
                try:
                    inversion = mock_inversion(rng, spec)
                except Exception as e:  # noqa
                    record(tag, "BUILD-EXC:" + type(e).__name__)
                    continue
                probe(tag, inversion)

    # the trigger of the notes and the interleaved list of the existing unit test, bigger sizes / other layouts
    for spec_name, spec in (
        ("notes_URU", [(False, 2, False), (True, 9, True), (False, 1, False)]),
        ("notes_RURU", [(True, 10, True), (False, 3, False), (True, 20, True), (False, 4, False)]),
        ("URRU", [(False, 1, False), (True, 3, True), (True, 2, True), (False, 2, False)]),
        ("UURUURU", [(False, 1, False), (False, 2, False), (True, 4, True), (False, 1, False),
                     (False, 1, False), (True, 3, True), (False, 2, False)]),
        ("single_U", [(False, 3, False)]),
        ("single_R", [(True, 3, True)]),
        ("single_U0", [(False, 0, False)]),
        ("U0_R", [(False, 0, False), (True, 3, True)]),
        ("R_U0", [(True, 3, True), (False, 0, False)]),
        ("U0_R_U0", [(False, 0, False), (True, 3, True), (False, 0, False)]),
        ("R0_U", [(True, 0, True), (False, 2, False)]),
    ):
        for order in ("C", "F"):
            for dtype in (np.float64, np.float32, np.complex128, np.int64):
                tag = f"mock[{spec_name}|{order}|{np.dtype(dtype).name}]"
                try:
                    inversion = mock_inversion(rng, spec, order=order, dtype=dtype)
                except Exception as e:  # noqa
                    record(tag, "BUILD-EXC:" + type(e).__name__)
                    continue
                probe(tag, inversion)


# ----------------------------------------------------------------------------------------------------------------
# 2) MockInversion: degenerate / off-domain values (None, lists, wrong ndim, wrong size, views, subclasses)
# ----------------------------------------------------------------------------------------------------------------


class Weird:
    """Not a linear object: has no `regularization` / `params`."""


def section_mock_degenerate():
    rng = np.random.default_rng(8055)

    def objs(pattern, params=None):
        params = params or [2] * len(pattern)
        return [mock_obj(c == "R", p, c == "R") for c, p in zip(pattern, params)]

    full_reg = spd(rng, 6)
    full_cur = spd(rng, 6)
    full_rec = rng.normal(size=6)

    big = rng.random((8, 8))

    value_cases = {
        "none": (None, None, None),
        "lists": (full_reg.tolist(), full_cur.tolist(), full_rec.tolist()),
        "tuples": (
            tuple(map(tuple, full_reg.tolist())),
            tuple(map(tuple, full_cur.tolist())),
            tuple(full_rec.tolist()),
        ),
        "matrix_1d": (full_rec.copy(), full_rec.copy(), full_rec.copy()),
        "matrix_3d": (rng.random((6, 6, 6)), rng.random((6, 6, 6)), rng.random((6, 6))),
        "rec_2d_col": (full_reg.copy(), full_cur.copy(), rng.random((6, 1))),
        "rec_2d_square": (full_reg.copy(), full_cur.copy(), rng.random((6, 6))),
        "too_small": (spd(rng, 3), spd(rng, 3), rng.normal(size=3)),
        "too_big": (spd(rng, 9), spd(rng, 9), rng.normal(size=9)),
        "non_square": (rng.random((6, 4)), rng.random((4, 6)), rng.normal(size=6)),
        "empty": (np.zeros((0, 0)), np.zeros((0, 0)), np.zeros((0,))),
        "scalar": (np.float64(3.0), 2.0, 1),
        "views": (big[1:7, 2:8], big[::-1][1:7, 0:6], rng.normal(size=12)[::2]),
        "transposed": (rng.random((6, 6)).T, np.asfortranarray(rng.random((6, 6))), full_rec.copy()),
        "readonly": (full_reg.copy(), full_cur.copy(), full_rec.copy()),
        "aa_arrays": (
            full_reg.copy(),
            full_cur.copy(),
            aa.ArrayIrregular(values=full_rec.tolist()),
        ),
        "np_matrix": (np.matrix(full_reg), np.matrix(full_cur), np.matrix(full_rec)),
        "masked": (
            np.ma.masked_greater(full_reg.copy(), 6.5),
            np.ma.masked_greater(full_cur.copy(), 6.5),
            np.ma.masked_less(full_rec.copy(), 0.0),
        ),
        "object_dtype": (
            full_reg.astype(object),
            full_cur.astype(object),
            full_rec.astype(object),
        ),
        "bool_dtype": (full_reg > 6.5, full_cur > 6.5, full_rec > 0.0),
        "nan_inf": (
            np.where(full_reg > 6.5, np.nan, full_reg),
            np.where(full_cur > 6.5, np.inf, full_cur),
            np.where(full_rec > 0.0, -np.inf, np.nan),
        ),
    }
    for arr in value_cases["readonly"]:
        arr.setflags(write=False)

    patterns = ["URU", "RUR", "UUU", "RRR", "UR", "RU", ""]

    for case, (reg, cur, rec) in value_cases.items():
        for pattern in patterns:
            tag = f"degenerate[{case}|{pattern}]"
            try:
                inversion = aa.m.MockInversion(
                    linear_obj_list=objs(pattern),
                    regularization_matrix=reg,
                    curvature_reg_matrix=cur,
                    reconstruction=rec,
                )
            except Exception as e:  # noqa
                record(tag, "BUILD-EXC:" + type(e).__name__)
                continue
            probe(tag, inversion, terms=case not in ("object_dtype",))

    # nothing supplied at all: the mock falls through to the abstract implementations
    for pattern in patterns:
        tag = f"degenerate[unset|{pattern}]"
        inversion = aa.m.MockInversion(linear_obj_list=objs(pattern))
        probe(tag, inversion)

    # only some of the quantities are supplied
    for pattern in ("URU", "RU", "RRR"):
        for missing in range(3):
            values = [full_reg.copy(), full_cur.copy(), full_rec.copy()]
            values[missing] = None
            inversion = aa.m.MockInversion(
                linear_obj_list=objs(pattern),
                regularization_matrix=values[0],
                curvature_reg_matrix=values[1],
                reconstruction=values[2],
            )
            probe(f"degenerate[missing{missing}|{pattern}]", inversion)

    # invalid members of the linear object list
    for name, linear_obj_list in (
        ("weird_only", [Weird()]),
        ("weird_first", [Weird()] + objs("RU")),
        ("weird_last", objs("UR") + [Weird()]),
        ("none_member", [None] + objs("RU")),
        ("params_none", [aa.m.MockLinearObj(parameters=None, regularization=None)] + objs("R")),
        ("params_float", [aa.m.MockLinearObj(parameters=2.0, regularization=None)] + objs("R")),
        ("params_negative", [aa.m.MockLinearObj(parameters=-1, regularization=None)] + objs("R", [5])),
        ("reg_falsy_zero", [aa.m.MockLinearObj(parameters=2, regularization=0)] + objs("RU")),
        ("reg_falsy_str", [aa.m.MockLinearObj(parameters=2, regularization="")] + objs("RU")),
        ("reg_truthy_int", [aa.m.MockLinearObj(parameters=2, regularization=1)] + objs("UR")),
    ):
        for supplied in (True, False):
            tag = f"degenerate[{name}|{supplied}]"
            try:
                inversion = aa.m.MockInversion(
                    linear_obj_list=linear_obj_list,
                    regularization_matrix=full_reg.copy() if supplied else None,
                    curvature_reg_matrix=full_cur.copy() if supplied else None,
                    reconstruction=full_rec.copy() if supplied else None,
                )
            except Exception as e:  # noqa
                record(tag, "BUILD-EXC:" + type(e).__name__)
                continue
            probe(tag, inversion)

    # a tuple as the linear object list
    inversion = aa.m.MockInversion(
        linear_obj_list=tuple(objs("URU")),
        regularization_matrix=full_reg.copy(),
        curvature_reg_matrix=full_cur.copy(),
        reconstruction=full_rec.copy(),
    )
    probe("degenerate[tuple_list]", inversion)


# ----------------------------------------------------------------------------------------------------------------
# 3) Shared objects: one set of matrices / linear objects used by several inversions; mutation after caching
# ----------------------------------------------------------------------------------------------------------------


def section_shared():
    rng = np.random.default_rng(80555)

    spec = [(False, 2, False), (True, 3, True), (False, 1, False)]
    linear_obj_list = [mock_obj(*s) for s in spec]
    reg, cur, rec = spd(rng, 6), spd(rng, 6), rng.normal(size=6)

    inversions = [
        aa.m.MockInversion(
            linear_obj_list=linear_obj_list,
            regularization_matrix=reg,
            curvature_reg_matrix=cur,
            reconstruction=rec,
        )
        for _ in range(2)
    ]
    for i, inversion in enumerate(inversions):
        probe(f"shared[{i}]", inversion)

    record(
        "shared.distinct_results",
        [
            getattr(inversions[0], name) is getattr(inversions[1], name)
            for name, _ in REDUCED
        ],
    )

    # writing into a reduced result must not leak into the full arrays (copies) ...
    for name, _ in REDUCED:
        getattr(inversions[0], name)[...] = -7.0
    record("shared.full_after_write", [reg, cur, rec])
    probe("shared[1].after_write_to_0", inversions[1])

    # ... and the cached reduced values do not follow later changes of the full arrays / of the object list
    reg[...] = 1.0
    linear_obj_list.append(mock_obj(False, 1, False))
    probe("shared[1].after_full_changed", inversions[1], terms=False)

    # all-regularized: the reduced quantities ARE the full arrays (aliasing is visible to callers)
    linear_obj_list = [mock_obj(True, 2, True), mock_obj(True, 4, True)]
    reg, cur, rec = spd(rng, 6), spd(rng, 6), rng.normal(size=6)
    inversion = aa.m.MockInversion(
        linear_obj_list=linear_obj_list,
        regularization_matrix=reg,
        curvature_reg_matrix=cur,
        reconstruction=rec,
    )
    probe("alias_all_regularized", inversion)
    inversion.reconstruction_reduced[0] = 123.0
    inversion.regularization_matrix_reduced[0, 0] = 321.0
    inversion.curvature_reg_matrix_reduced[1, 1] = 231.0
    record("alias_all_regularized.full_after_write", [reg, cur, rec])


# ----------------------------------------------------------------------------------------------------------------
# 4) Real inversions (imaging, mapping / w-tilde formalisms, several solvers) and fits
# ----------------------------------------------------------------------------------------------------------------


class FuncList(aa.AbstractLinearObjFuncList):
    def __init__(self, grid, mapping_matrix):
        super().__init__(grid=grid, regularization=None)
        self._mapping_matrix = mapping_matrix

    @property
    def params(self):
        return self._mapping_matrix.shape[1]

    @property
    def mapping_matrix(self):
        return self._mapping_matrix


INVERSION_ATTRS = (
    "total_params",
    "regularization_matrix",
    "curvature_reg_matrix",
    "reconstruction",
    "regularization_matrix_reduced",
    "curvature_reg_matrix_reduced",
    "reconstruction_reduced",
    "regularization_term",
    "log_det_curvature_reg_matrix_term",
    "log_det_regularization_matrix_term",
    "mapped_reconstructed_data",
    "reconstruction_noise_map",
)

FIT_ATTRS = (
    "chi_squared",
    "noise_normalization",
    "log_likelihood",
    "log_likelihood_with_regularization",
    "log_evidence",
    "figure_of_merit",
)


def section_real_imaging():
    rng = np.random.default_rng(8)

    base = fixtures.make_masked_imaging_7x7_no_blur()
    mask = base.mask

    def dataset_from(psf):
        return aa.Imaging(
            data=aa.Array2D(values=1.0 + rng.random(9), mask=mask),
            noise_map=aa.Array2D(values=0.5 + rng.random(9), mask=mask),
            psf=psf,
            over_sampling=aa.OverSamplingDataset(uniform=aa.OverSamplingUniform(sub_size=1)),
        )

    datasets = {
        "no_blur": dataset_from(fixtures.make_psf_3x3_no_blur()),
        "blur": dataset_from(fixtures.make_psf_3x3()),
    }

    grid = aa.Grid2D.from_mask(mask=mask)

    def func(n):
        return FuncList(grid=grid, mapping_matrix=0.2 + rng.random((9, n)))

    def mapper(kind):
        if kind == "M":
            return fixtures.make_rectangular_mapper_7x7_3x3()
        if kind == "D":
            return fixtures.make_delaunay_mapper_9_3x3()
        return fixtures.make_voronoi_mapper_9_3x3()

    layouts = (
        "F2 M F1",  # the trigger of the notes
        "M F1 M F2",
        "F1 M M F1",
        "F1 F2 M",
        "M F2 F1",
        "M F1",
        "F1 M",
        "M",
        "M M",
        "F2",
        "F1 F1",
        "F1 D F1",
        "M F1 D",
        "F1 M F1 D F2",
    )

    for ds_name, dataset in datasets.items():
        for layout in layouts:
            for settings_name, settings in (
                ("mapping", aa.SettingsInversion(use_w_tilde=False)),
                ("w_tilde", aa.SettingsInversion(use_w_tilde=True)),
                (
                    "mapping_posneg",
                    aa.SettingsInversion(use_w_tilde=False, use_positive_only_solver=False),
                ),
            ):
                tag = f"real[{ds_name}|{layout}|{settings_name}]"
                try:
                    linear_obj_list = [
                        func(int(tok[1:])) if tok[0] == "F" else mapper(tok[0])
                        for tok in layout.split()
                    ]
                    inversion = aa.Inversion(
                        dataset=dataset, linear_obj_list=linear_obj_list, settings=settings
                    )
                except Exception as e:  # noqa
                    record(tag, "BUILD-EXC:" + type(e).__name__)
                    continue

                record(tag + ".type", type(inversion).__name__)
                for attr in INVERSION_ATTRS:
                    attempt(f"{tag}.{attr}", lambda: getattr(inversion, attr))
                probe(tag, inversion)

                class Fit(aa.FitImaging):
                    @property
                    def inversion(self):
                        return inversion

                    @property
                    def model_data(self):
                        return inversion.mapped_reconstructed_data

                try:
                    fit = Fit(dataset=dataset, use_mask_in_fit=False)
                except Exception as e:  # noqa
                    record(tag + ".fit", "BUILD-EXC:" + type(e).__name__)
                    continue
                for attr in FIT_ATTRS:
                    attempt(f"{tag}.fit.{attr}", lambda: getattr(fit, attr))


# NOTE: interferometer inversions cannot be built in this environment (every transformer needs the optional
# `pylops` package, which is not installed); they share the `AbstractInversion` properties exercised above.


def main():
    section_mock_orderings()
    n1 = N_RECORDS
    section_mock_degenerate()
    n2 = N_RECORDS
    section_shared()
    n3 = N_RECORDS
    section_real_imaging()
    n4 = N_RECORDS
    print("records per section:", n1, n2 - n1, n3 - n2, n4 - n3)
    print("DIGEST", H.hexdigest())


if __name__ == "__main__":
    main()
