"""
Differential test for the C20-6 twin: prints a sha256 digest over the observable behaviour of
CoordinateArrayTriangles (values, dtypes, exception types, cache state, aliasing) for many
lattices and many orders of cache reads.  Must print the same digest on the clean tree and
on the twin tree.
"""
import hashlib
import itertools
from copy import copy, deepcopy

import numpy as np

from autoarray.structures.triangles.coordinate_array import CoordinateArrayTriangles
from autoarray.structures.triangles.shape import Point, Circle, Triangle, Square, Polygon

H = hashlib.sha256()
N = [0]


def put(*items):
    for item in items:
        N[0] += 1
        if isinstance(item, np.ndarray):
            H.update(str(item.dtype).encode())
            H.update(repr(item.shape).encode())
            H.update(np.ascontiguousarray(item).tobytes())
        else:
            H.update(repr(item).encode())
        H.update(b"|")


def attempt(label, fn):
    """run fn, record its result or the exception type"""
    try:
        result = fn()
    except Exception as e:  # noqa
        put(label, "EXC", type(e).__name__)
        return None
    record(label, result)
    return result


def state(t):
    """everything in the instance dict: which attributes / caches exist, and their values"""
    out = []
    for key in sorted(t.__dict__):
        value = t.__dict__[key]
        out.append(key)
        if isinstance(value, tuple):
            out.extend(value)
        else:
            out.append(value)
    return out


def record(label, result):
    put(label)
    if isinstance(result, CoordinateArrayTriangles):
        put(type(result).__name__, type(result).__module__)
        put(*state(result))  # BEFORE any property is read: cache behaviour visible to callers
        full(result)
    elif isinstance(result, (tuple, list)):
        put(type(result).__name__, len(result))
        for r in result:
            record(label, r)
    elif hasattr(result, "vertices") and hasattr(result, "indices"):
        put(type(result).__name__, np.asarray(result.vertices), np.asarray(result.indices))
        put(np.asarray(result.triangles))
    else:
        put(result)


def full(t):
    """all public observables of a coordinate array"""
    put(t.coordinates, t.side_length, t.x_offset, t.y_offset, t.flipped, t.scaling_factors)
    for name in (
        "flip_mask",
        "flip_array",
        "centres",
        "triangles",
        "vertices",
        "indices",
        "means",
        "area",
    ):
        attempt(name, lambda: getattr(t, name))
    attempt("len", lambda: len(t))
    attempt("iter", lambda: np.array(list(t)))
    attempt("with_vertices", lambda: t.with_vertices(t.vertices))
    attempt("with_vertices2", lambda: t.with_vertices(2.0 * t.vertices + 1.0))
    put(*state(t))


SHAPES = [
    Point(0.13, 0.21),
    Point(0.0, 0.0),
    Point(-0.7, 0.9),
    Point(50.0, 50.0),
    Circle(0.0, 0.0, radius=0.1),
    Circle(0.3, -0.2, radius=0.75),
    Triangle((0.0, 0.0), (1.0, 0.0), (0.0, 1.0)),
    Square(top=0.5, bottom=-0.5, left=-0.25, right=0.75),
    Polygon([(0.0, 0.0), (1.0, 0.2), (0.8, 1.0), (-0.3, 0.6)]),
]

# cache warmers: what has been read on the parent BEFORE the operation
WARMERS = {
    "none": lambda t: None,
    "flip_mask": lambda t: t.flip_mask,
    "flip_array": lambda t: t.flip_array,
    "triangles": lambda t: t.triangles,
    "vertices": lambda t: t.vertices,
    "indices": lambda t: t.indices,
    "with_vertices": lambda t: t.with_vertices(t.vertices),
    "containing": lambda t: t.containing_indices(SHAPES[0]),
    "containing_circle": lambda t: t.containing_indices(SHAPES[4]),
    "area_len": lambda t: (t.area, len(t)),
    "means": lambda t: t.means,
    "all": lambda t: (t.flip_mask, t.flip_array, t.triangles, t.vertices, t.indices),
}


def lattices():
    rng = np.random.RandomState(20)
    out = []
    out.append(("limits_default", lambda: CoordinateArrayTriangles.for_limits_and_scale(-1.0, 1.0, -1.0, 1.0, scale=0.5)))
    out.append(("limits_nonsquare", lambda: CoordinateArrayTriangles.for_limits_and_scale(-0.3, 1.7, 0.2, 0.9, scale=0.37)))
    out.append(("limits_shifted", lambda: CoordinateArrayTriangles.for_limits_and_scale(2.0, 2.6, -3.0, -2.1, scale=0.3)))
    out.append(("single", lambda: CoordinateArrayTriangles(coordinates=np.array([[0, 0]]))))
    out.append(("single_odd", lambda: CoordinateArrayTriangles(coordinates=np.array([[1, 0]]), side_length=2.0, flipped=True)))
    out.append(("empty", lambda: CoordinateArrayTriangles(coordinates=np.zeros((0, 2), dtype=int), side_length=0.7, x_offset=0.1)))
    out.append(("empty_float", lambda: CoordinateArrayTriangles(coordinates=np.zeros((0, 2)), flipped=True)))
    out.append(("small_offset", lambda: CoordinateArrayTriangles(coordinates=np.array([[0, 0], [3, -2]]), side_length=0.8, x_offset=0.4, y_offset=-0.2)))
    out.append(("small_flipped", lambda: CoordinateArrayTriangles(coordinates=np.array([[0, 0], [1, 0], [0, 1], [-2, 3]]), side_length=1.3, x_offset=-0.4, y_offset=0.9, flipped=True)))
    out.append(("duplicates", lambda: CoordinateArrayTriangles(coordinates=np.array([[0, 0], [0, 0], [1, 1], [1, 1], [2, -1]]), side_length=0.5)))
    out.append(("float_coords", lambda: CoordinateArrayTriangles(coordinates=np.array([[0.0, 0.0], [1.0, 0.0], [2.0, 1.0]]), side_length=0.25, y_offset=0.05)))
    out.append(("nan_coords", lambda: CoordinateArrayTriangles(coordinates=np.array([[0.0, 0.0], [np.nan, np.nan], [2.0, 1.0]]), side_length=0.25)))
    out.append(("int32", lambda: CoordinateArrayTriangles(coordinates=np.array([[5, 5], [4, 5], [-6, 2]], dtype=np.int32), side_length=3.0, x_offset=1.5)))
    out.append(("flipped_int_1", lambda: CoordinateArrayTriangles(coordinates=np.array([[0, 0], [1, 0], [1, 1]]), flipped=1)))
    out.append(("np_side", lambda: CoordinateArrayTriangles(coordinates=np.array([[0, 0], [1, 0], [1, 1]]), side_length=np.float32(0.5), x_offset=np.float64(0.25), y_offset=np.float32(1.0), flipped=np.bool_(True))))
    for k in range(4):
        coords = rng.randint(-6, 7, size=(rng.randint(2, 12), 2))
        side, xo, yo = rng.uniform(0.1, 2.0), rng.uniform(-1, 1), rng.uniform(-1, 1)
        fl = bool(k % 2)
        out.append((f"random{k}", lambda c=coords, s=side, a=xo, b=yo, f=fl: CoordinateArrayTriangles(coordinates=c.copy(), side_length=s, x_offset=a, y_offset=b, flipped=f)))
    out.append(("upsampled", lambda: CoordinateArrayTriangles(coordinates=np.array([[0, 0], [1, 0]]), side_length=1.0).up_sample()))
    out.append(("upsampled_twice", lambda: CoordinateArrayTriangles(coordinates=np.array([[0, 0], [3, 1]]), side_length=1.0, y_offset=0.1).up_sample().up_sample()))
    return out


def indexers(n):
    out = [
        ("all", np.arange(n)),
        ("empty", np.array([], dtype=int)),
        ("mask_alt", np.arange(n) % 2 == 0),
        ("slice", slice(0, max(n - 1, 0))),
        ("slice_step", slice(None, None, 2)),
        ("list_rev", list(range(n))[::-1]),
        ("scalar", 0),
        ("neg", np.array([-1])),
        ("repeat", np.array([0, 0, n - 1] if n else [], dtype=int)),
        ("out_of_range", np.array([n + 3])),
        ("float_idx", np.array([0.0])),
        ("two_d", np.array([[0, 0]] if n else np.zeros((0, 2)), dtype=int)),
        ("none", None),
        ("ellipsis", Ellipsis),
        ("bad_mask", np.ones(n + 1, dtype=bool)),
        ("string", "abc"),
    ]
    return out


def run_operations(name, make):
    for wname, warm in WARMERS.items():
        # --- for_indexes with every kind of indexer
        n = len(make().coordinates)
        for iname, idx in indexers(n):
            parent = make()
            attempt(f"{name}/{wname}/warm", lambda: warm(parent)) if wname != "none" else None
            before = deepcopy(parent.__dict__)
            child = attempt(f"{name}/{wname}/for_indexes/{iname}", lambda: parent.for_indexes(idx))
            after_checks(f"{name}/{wname}/for_indexes/{iname}", parent, before, child)
        # --- neighborhood
        parent = make()
        attempt(f"{name}/{wname}/warm", lambda: warm(parent)) if wname != "none" else None
        before = deepcopy(parent.__dict__)
        child = attempt(f"{name}/{wname}/neighborhood", lambda: parent.neighborhood())
        after_checks(f"{name}/{wname}/neighborhood", parent, before, child)
        # --- up_sample (untouched by the change, but part of the chains)
        parent = make()
        attempt(f"{name}/{wname}/warm", lambda: warm(parent)) if wname != "none" else None
        child = attempt(f"{name}/{wname}/up_sample", lambda: parent.up_sample())


def dict_equal(a, b):
    if sorted(a) != sorted(b):
        return False
    for k in a:
        x, y = a[k], b[k]
        if isinstance(x, tuple):
            if not all(np.array_equal(p, q, equal_nan=True) for p, q in zip(x, y)):
                return False
        elif isinstance(x, np.ndarray):
            try:
                if not np.array_equal(x, y, equal_nan=True):
                    return False
            except TypeError:
                if not np.array_equal(x, y):
                    return False
        elif x != y:
            return False
    return True


def after_checks(label, parent, before, child):
    # full() on the child touched child caches only: has the parent been altered?  (note the
    # parent caches that record() reads on the child must not leak back to the parent)
    put(label, "parent_unchanged", dict_equal(before, parent.__dict__))
    put(*state(parent))
    if child is None:
        return
    # aliasing between parent and child visible to callers
    put(
        "alias",
        child is parent,
        child.scaling_factors is parent.scaling_factors,
        np.shares_memory(child.scaling_factors, parent.scaling_factors),
        np.shares_memory(child.coordinates, parent.coordinates),
        child.side_length is parent.side_length,
    )
    for cache in ("flip_mask", "flip_array", "triangles"):
        if cache in parent.__dict__ and cache in child.__dict__:
            put(cache, "shared", child.__dict__[cache] is parent.__dict__[cache])
    if "_vertices_and_indices" in parent.__dict__ and "_vertices_and_indices" in child.__dict__:
        put("vi shared", child.__dict__["_vertices_and_indices"] is parent.__dict__["_vertices_and_indices"])
    # in-place modification of the child's arrays must affect the parent in the same way
    snapshot = deepcopy(parent.__dict__)
    try:
        child.scaling_factors *= 3.0
    except Exception as e:  # noqa
        put("EXC", type(e).__name__)
    put("scaling inplace leaves parent", dict_equal(snapshot, parent.__dict__), parent.scaling_factors)
    attempt("parent centres after", lambda: parent.centres)
    # the representation property, for every shape
    for shape in SHAPES:
        attempt(f"{label}/containing/{type(shape).__name__}", lambda: child.containing_indices(shape))
    # chains from the (now fully warmed) child
    attempt(f"{label}/chain/neighborhood", lambda: child.neighborhood())
    attempt(f"{label}/chain/for_indexes", lambda: child.for_indexes(np.arange(len(child.coordinates))[::2]))
    attempt(f"{label}/chain/up_sample", lambda: child.up_sample())


def mutated_parents():
    """parents whose public attributes were re-assigned / modified after construction"""

    def base():
        return CoordinateArrayTriangles(
            coordinates=np.array([[0, 0], [1, 0], [1, 1], [4, -3]]),
            side_length=0.8,
            x_offset=0.4,
            y_offset=-0.2,
        )

    def set_side(t):
        t.side_length = 1.6

    def set_flipped(t):
        t.flipped = True

    def set_offsets(t):
        t.x_offset, t.y_offset = -1.0, 2.5

    def set_coordinates(t):
        t.coordinates = np.array([[2, 2], [3, 2]])

    def scale_inplace(t):
        t.scaling_factors *= 2.0

    def set_scaling(t):
        t.scaling_factors = np.array([1.0, 1.0])

    def coords_inplace(t):
        t.coordinates += 1

    def bad_side(t):
        t.side_length = None

    def del_cache(t):
        t.__dict__.pop("triangles", None)

    return base, [set_side, set_flipped, set_offsets, set_coordinates, scale_inplace, set_scaling, coords_inplace, bad_side, del_cache]


def run_mutated():
    base, mutators = mutated_parents()
    for mutate in mutators:
        for wname in ("none", "all", "containing"):
            for when in ("warm_then_mutate", "mutate_then_warm"):
                for op in ("for_indexes", "neighborhood"):
                    parent = base()
                    label = f"mut/{mutate.__name__}/{wname}/{when}/{op}"
                    if when == "warm_then_mutate":
                        attempt(label + "/w", lambda: WARMERS[wname](parent))
                        attempt(label + "/m", lambda: mutate(parent))
                    else:
                        attempt(label + "/m", lambda: mutate(parent))
                        attempt(label + "/w", lambda: WARMERS[wname](parent))
                    if op == "for_indexes":
                        child = attempt(label, lambda: parent.for_indexes(np.array([1, 0])))
                    else:
                        child = attempt(label, lambda: parent.neighborhood())
                    put(*state(parent))
                    if child is not None:
                        put(child.scaling_factors is parent.scaling_factors)
                        for shape in SHAPES[:5]:
                            attempt(label + "/containing", lambda: child.containing_indices(shape))


def run_demo_sequences():
    """the trigger of the notes, repeated calls, shared objects"""
    parent = CoordinateArrayTriangles.for_limits_and_scale(-1.0, 1.0, -1.0, 1.0, scale=0.5)
    for shape in SHAPES:
        idx = attempt("seq/containing", lambda: parent.containing_indices(shape))
        if idx is None:
            continue
        sel = attempt("seq/select", lambda: parent.for_indexes(idx))
        again = attempt("seq/again", lambda: sel.containing_indices(shape))
        attempt("seq/both", lambda: sel.with_vertices(sel.vertices))
        nb = attempt("seq/nb", lambda: sel.neighborhood())
        attempt("seq/nb containing", lambda: nb.containing_indices(shape))
        nb2 = attempt("seq/nb2", lambda: nb.neighborhood().for_indexes(nb.neighborhood().containing_indices(shape)))
        # repeated calls give distinct, equal objects
        a = parent.for_indexes(idx)
        b = parent.for_indexes(idx)
        put(a is b, a.coordinates is b.coordinates, np.array_equal(a.triangles, b.triangles))
        put(a.triangles is b.triangles, a.vertices is b.vertices)
    # iterative refinement loop, as used by a triangle solver
    t = CoordinateArrayTriangles.for_limits_and_scale(-1.0, 1.0, -1.0, 1.0, scale=1.0)
    shape = Circle(0.21, -0.13, radius=0.3)
    for level in range(4):
        idx = t.containing_indices(shape)
        kept = t.for_indexes(idx)
        record(f"refine/{level}/kept", kept)
        put(kept.containing_indices(shape))
        t = kept.neighborhood()
        put(t.containing_indices(shape))
        t = t.up_sample()
        record(f"refine/{level}/up", t)
    # copies of instances (copy protocol is used by the change)
    p = CoordinateArrayTriangles(coordinates=np.array([[0, 0], [1, 0]]), side_length=0.5)
    p.vertices
    c = copy(p)
    record("copy", c)
    record("copy/for_indexes", c.for_indexes([1]))
    d = deepcopy(p)
    record("deepcopy/neighborhood", d.neighborhood())
    # instance with a foreign attribute
    q = CoordinateArrayTriangles(coordinates=np.array([[0, 0], [1, 0]]), side_length=0.5)
    q.triangles
    q.vertices
    record("plain/for_indexes", q.for_indexes([0]))


def main():
    for name, make in lattices():
        run_operations(name, make)
    run_mutated()
    run_demo_sequences()
    print("items", N[0])
    print("digest", H.hexdigest())


if __name__ == "__main__":
    import warnings

    warnings.simplefilter("ignore")
    main()
