"""
Differential test for the C08-6 twin (`FitDataset.chi_squared` routed through
`fit_util.chi_squared_with_mask_fast_from` in the `use_mask_in_fit` branch).

Prints a sha256 digest over every observable result (values bit-for-bit via float.hex / tobytes, result types,
raised exception types, input arrays after the calls). Run it on the clean HEAD tree and on the twin tree: the two
digests must be identical.

    cd /tmp/wt8/C08-6 && PYTHONPATH=/tmp/wt8/C08-6 /venv/bin/python equiv.py

Options (none of them is needed for the deliverable digest):

    -v            print every record (label = value | warnings) so that two runs can be diffed
    --domain      only the inputs the masked-native mode is meant for (float64 native-stored library arrays of the
                  mask's shape); also the one-line repair `data=self.data` (twin_minimal.patch) is digest-identical here
    --warnings    also digest the categories / messages of the warnings emitted by each read
    --overrides   also digest user subclasses which redefine `chi_squared_map` / `residual_map` themselves
"""
import hashlib
import itertools
import sys
import types
import warnings

import numpy as np

import autoarray as aa

VERBOSE = "-v" in sys.argv
DOMAIN_ONLY = "--domain" in sys.argv
WITH_WARNINGS = "--warnings" in sys.argv
WITH_OVERRIDES = "--overrides" in sys.argv

H = hashlib.sha256()
N_RECORDS = 0
N_EXC = 0
N_WARN = 0


def enc(value):
    """Deterministic, bit-exact text encoding of a result."""
    if isinstance(value, BaseException):
        return f"EXC<{type(value).__name__}>"
    if value is None:
        return "None"
    if isinstance(value, (bool, np.bool_)):
        return f"{type(value).__name__}:{bool(value)}"
    if isinstance(value, float):
        return f"{type(value).__name__}:{value.hex() if np.isfinite(value) else repr(value)}"
    if isinstance(value, (list, tuple)):
        return f"{type(value).__name__}:[{','.join(enc(v) for v in value)}]"
    if isinstance(value, (int, str)):
        return f"{type(value).__name__}:{value!r}"
    if isinstance(value, np.generic):
        return f"{type(value).__name__}:{value.dtype}:{value.tobytes().hex()}"
    if isinstance(value, np.ndarray) and value.dtype == object:
        return f"ndarray:object:{value.shape}:{[enc(v) for v in value.ravel().tolist()]}"
    if isinstance(value, np.ndarray):
        return f"ndarray:{value.dtype}:{value.shape}:{np.ascontiguousarray(value).tobytes().hex()}"
    if hasattr(value, "array"):
        arr = np.asarray(value.array)
        return (
            f"{type(value).__name__}:{arr.dtype}:{arr.shape}:"
            f"{np.ascontiguousarray(arr).tobytes().hex()}"
        )
    return f"{type(value).__name__}"


def record(label, thunk):
    """Evaluate `thunk`, record its value or exception type and the categories of the warnings it emitted."""
    global N_RECORDS, N_EXC, N_WARN
    with warnings.catch_warnings(record=True) as caught:
        warnings.simplefilter("always")
        try:
            out = thunk()
        except Exception as e:  # noqa
            out = e
            N_EXC += 1
    warn = sorted({w.category.__name__ + ":" + str(w.message) for w in caught})
    N_WARN += len(warn)
    line = f"{label} = {enc(out)}"
    if WITH_WARNINGS:
        line += f" | warnings={warn}"
    if VERBOSE:
        print(f"{label} = {enc(out)[:100]} | warnings={warn}")
    H.update(line.encode())
    H.update(b"\n")
    N_RECORDS += 1
    return out


SCALARS = [
    "chi_squared",
    "reduced_chi_squared",
    "noise_normalization",
    "log_likelihood",
    "log_likelihood_with_regularization",
    "log_evidence",
    "figure_of_merit",
]
MAPS = [
    "data",
    "noise_map",
    "model_data",
    "residual_map",
    "normalized_residual_map",
    "chi_squared_map",
    "residual_flux_fraction_map",
    "signal_to_noise_map",
]


def probe(label, fit, inputs=()):
    """Read everything twice (scalars first, then maps, then scalars again) and digest the inputs afterwards."""
    for rep in range(2):
        for name in SCALARS:
            record(f"{label}.{name}#{rep}", lambda: getattr(fit, name))
        for name in MAPS:
            record(f"{label}.{name}#{rep}", lambda: getattr(fit, name))
    # chi-squared must not depend on what was read before it; read it last once more.
    record(f"{label}.chi_squared#last", lambda: fit.chi_squared)
    for i, obj in enumerate(inputs):
        record(f"{label}.input{i}", lambda: obj)


class FitIm(aa.FitImaging):
    def __init__(self, dataset, model_data, inversion=None, **kwargs):
        super().__init__(dataset=dataset, **kwargs)
        self._model_data = model_data
        self._inversion = inversion

    @property
    def model_data(self):
        return self._model_data

    @property
    def inversion(self):
        return self._inversion


class FitDs(aa.FitDataset):
    def __init__(self, dataset, model_data, **kwargs):
        super().__init__(dataset=dataset, **kwargs)
        self._model_data = model_data

    @property
    def model_data(self):
        return self._model_data


class FitImOwnMaps(FitIm):
    """A user subclass which redefines the chi-squared-map (chi_squared was defined as the sum of *this* map)."""

    @property
    def chi_squared_map(self):
        return super().chi_squared_map * 2.0


class FitImOwnResiduals(FitIm):
    @property
    def residual_map(self):
        return super().residual_map + 1.0


class FitImOwnData(FitIm):
    @property
    def data(self):
        return self.dataset.data * 0.5


class FitImOwnNoise(FitIm):
    @property
    def noise_map(self):
        return self.dataset.noise_map * 3.0


class Inv:
    regularization_term = 0.75
    log_det_curvature_reg_matrix_term = 3.5
    log_det_regularization_matrix_term = -1.25


def masks():
    rng = np.random.default_rng(11)
    out = []
    out.append(("1x1open", np.array([[False]])))
    out.append(("1x1shut", np.array([[True]])))
    out.append(("1x4", np.array([[False, True, False, False]])))
    out.append(("4x1", np.array([[True], [False], [False], [True]])))
    out.append(
        (
            "3x5edge",
            np.array(
                [
                    [False, True, False, False, True],
                    [True, False, False, True, False],
                    [False, False, True, False, False],
                ]
            ),
        )
    )
    out.append(("5x3open", np.full((5, 3), False)))
    out.append(("4x4shut", np.full((4, 4), True)))
    m = np.full((7, 7), True)
    m[2:5, 2:5] = False
    out.append(("7x7centre", m))
    out.append(("6x9rand", rng.random((6, 9)) < 0.4))
    out.append(("9x6rand", rng.random((9, 6)) < 0.7))
    return out


GEOMS = [
    ((1.0, 1.0), (0.0, 0.0)),
    ((1.0, 2.0), (0.0, 0.0)),
    ((0.3, 0.05), (1.5, -2.25)),
]

SKIES = [0.0, 1.75, -0.5, 1.0e3]


def arrays_for(shape, seed, poison=None, mask_2d=None):
    rng = np.random.default_rng(seed)
    data = rng.normal(loc=3.0, scale=2.0, size=shape)
    noise = 0.5 + rng.random(shape)
    model = rng.normal(loc=1.0, scale=2.0, size=shape)
    if poison is not None and mask_2d is not None and mask_2d.any():
        # Values carried by MASKED pixels only.
        if poison == "nan":
            data[mask_2d] = np.nan
            model[mask_2d] = np.nan
        elif poison == "inf":
            data[mask_2d] = np.inf
            model[mask_2d] = np.inf
        elif poison == "zero_noise":
            noise[mask_2d] = 0.0
        elif poison == "huge":
            data[mask_2d] = 1.7e308
            model[mask_2d] = -1.7e308
        elif poison == "neg_noise":
            noise[mask_2d] = -1.0
    return data, noise, model


def imaging_cases():
    seed = 0
    for (mname, mask_2d), (pixel_scales, origin) in itertools.product(masks(), GEOMS):
        seed += 1
        try:
            mask = aa.Mask2D(mask=mask_2d, pixel_scales=pixel_scales, origin=origin)
        except Exception as e:  # noqa
            record(f"mask[{mname}]", lambda: (_ for _ in ()).throw(e))
            continue
        for store_native, use_mask, sky in itertools.product(
            [True, False], [True, False], SKIES
        ):
            if DOMAIN_ONLY and use_mask and not store_native:
                continue
            label = f"im[{mname},{pixel_scales},{origin},native={store_native},use_mask={use_mask},sky={sky}]"
            data_2d, noise_2d, model_2d = arrays_for(mask_2d.shape, seed)

            def build():
                data = aa.Array2D(values=data_2d, mask=mask, store_native=store_native)
                noise_map = aa.Array2D(
                    values=noise_2d, mask=mask, store_native=store_native
                )
                model_data = aa.Array2D(
                    values=model_2d, mask=mask, store_native=store_native
                )
                dataset = aa.Imaging(data=data, noise_map=noise_map)
                return dataset, model_data

            built = record(label + ".build", lambda: type(build()).__name__)
            if isinstance(built, Exception):
                continue
            dataset, model_data = build()
            for with_inv in (False, True):
                fit = FitIm(
                    dataset=dataset,
                    model_data=model_data,
                    inversion=Inv() if with_inv else None,
                    use_mask_in_fit=use_mask,
                    dataset_model=aa.DatasetModel(background_sky_level=sky),
                )
                probe(
                    label + f".inv={with_inv}",
                    fit,
                    inputs=(dataset.data, dataset.noise_map, model_data),
                )


def poisoned_cases():
    """Masked pixels carrying nan / inf / zero noise: they must not matter (and must matter identically)."""
    seed = 100
    for (mname, mask_2d), poison, sky, use_mask in itertools.product(
        masks(),
        ["nan", "inf", "zero_noise", "huge", "neg_noise"],
        [0.0, 1.75],
        [True, False],
    ):
        seed += 1
        mask = aa.Mask2D(mask=mask_2d, pixel_scales=(1.0, 2.0), origin=(0.5, 0.25))
        data_2d, noise_2d, model_2d = arrays_for(
            mask_2d.shape, seed, poison=poison, mask_2d=mask_2d
        )
        # Build native-stored arrays directly so that masked values survive (Array2D zeroes masked values on
        # construction; writing into `_array` afterwards puts the poison back).
        data = aa.Array2D(values=data_2d, mask=mask, store_native=True)
        noise_map = aa.Array2D(values=noise_2d, mask=mask, store_native=True)
        model_data = aa.Array2D(values=model_2d, mask=mask, store_native=True)
        dataset = aa.Imaging(data=data, noise_map=noise_map)
        for keep_poison in (False, True):
            if keep_poison:
                dataset.data._array = np.array(data_2d)
                dataset.noise_map._array = np.array(noise_2d)
                model_data._array = np.array(model_2d)
            fit = FitIm(
                dataset=dataset,
                model_data=model_data,
                use_mask_in_fit=use_mask,
                dataset_model=aa.DatasetModel(background_sky_level=sky),
            )
            probe(
                f"poison[{mname},{poison},sky={sky},use_mask={use_mask},keep={keep_poison}]",
                fit,
                inputs=(dataset.data, dataset.noise_map, model_data),
            )


def covariance_cases():
    seed = 300
    for (mname, mask_2d), sky, use_mask, store_native in itertools.product(
        masks()[2:8], [0.0, 1.75], [True, False], [True, False]
    ):
        seed += 1
        if DOMAIN_ONLY and use_mask and not store_native:
            continue
        rng = np.random.default_rng(seed)
        mask = aa.Mask2D(mask=mask_2d, pixel_scales=(1.0, 2.0))
        data_2d, noise_2d, model_2d = arrays_for(mask_2d.shape, seed)
        n = int(np.sum(~mask_2d)) if not store_native else mask_2d.size
        a = rng.normal(size=(n, n))
        cov = a @ a.T + n * np.eye(n)
        label = f"cov[{mname},sky={sky},use_mask={use_mask},native={store_native}]"

        def build():
            data = aa.Array2D(values=data_2d, mask=mask, store_native=store_native)
            noise_map = aa.Array2D(values=noise_2d, mask=mask, store_native=store_native)
            model_data = aa.Array2D(values=model_2d, mask=mask, store_native=store_native)
            dataset = aa.Imaging(
                data=data, noise_map=noise_map, noise_covariance_matrix=cov
            )
            return FitIm(
                dataset=dataset,
                model_data=model_data,
                use_mask_in_fit=use_mask,
                dataset_model=aa.DatasetModel(background_sky_level=sky),
            )

        built = record(label + ".build", lambda: type(build()).__name__)
        if isinstance(built, Exception):
            continue
        probe(label, build())


def plain_dataset_cases():
    """`FitDataset` used directly with duck-typed datasets made of plain ndarrays / lists of various dtypes."""
    seed = 500
    dtypes = [
        ("f8", "f8", "f8"),
        ("f4", "f4", "f4"),
        ("f4", "f8", "f8"),
        ("f8", "f4", "f4"),
        ("i8", "f8", "f8"),
        ("i8", "i8", "i8"),
        ("f8", "i8", "i8"),
        ("f2", "f2", "f2"),
        ("c16", "f8", "c16"),
        ("O", "f8", "f8"),
    ]
    for (mname, mask_2d), (dt_data, dt_noise, dt_model), use_mask, cls in itertools.product(
        masks(), dtypes, [True, False], [FitDs, FitIm]
    ):
        seed += 1
        data_2d, noise_2d, model_2d = arrays_for(mask_2d.shape, seed)
        noise_2d = noise_2d * 3.0 + 1.0

        def conv(a, dt):
            return (a * 4.0).astype(dt) if dt.startswith("i") else a.astype(dt)

        for mask_kind in ("ndarray", "Mask2D", "int", "list"):
            if mask_kind == "ndarray":
                mask = np.array(mask_2d)
            elif mask_kind == "Mask2D":
                mask = aa.Mask2D(mask=mask_2d, pixel_scales=1.0)
            elif mask_kind == "int":
                mask = mask_2d.astype("int")
            else:
                mask = mask_2d.tolist()
            for sky in ([0.0] if cls is FitDs else [0.0, 2.0]):
                dataset = types.SimpleNamespace(
                    data=conv(data_2d, dt_data),
                    noise_map=conv(noise_2d, dt_noise),
                    mask=mask,
                    noise_covariance_matrix=None,
                )
                model = conv(model_2d, dt_model)
                fit = cls(
                    dataset=dataset,
                    model_data=model,
                    use_mask_in_fit=use_mask,
                    dataset_model=aa.DatasetModel(background_sky_level=sky),
                )
                probe(
                    f"plain[{cls.__name__},{mname},{dt_data},{dt_noise},{dt_model},"
                    f"use_mask={use_mask},mask={mask_kind},sky={sky}]",
                    fit,
                    inputs=(dataset.data, dataset.noise_map, model),
                )


def mismatched_cases():
    """Misuse: shapes / objects which do not fit together; the exception TYPES must be the same."""
    mask_2d = masks()[4][1]
    mask = aa.Mask2D(mask=mask_2d, pixel_scales=1.0)
    data_2d, noise_2d, model_2d = arrays_for(mask_2d.shape, 900)
    n = int(np.sum(~mask_2d))

    combos = {
        "slim_data_native_mask": dict(
            data=data_2d[~mask_2d], noise_map=noise_2d[~mask_2d], model=model_2d[~mask_2d], mask=mask_2d
        ),
        "slim_data_slim_mask": dict(
            data=data_2d[~mask_2d], noise_map=noise_2d[~mask_2d], model=model_2d[~mask_2d],
            mask=np.full(n, False),
        ),
        "native_data_slim_model": dict(
            data=data_2d, noise_map=noise_2d, model=model_2d[~mask_2d], mask=mask_2d
        ),
        "native_data_slim_noise": dict(
            data=data_2d, noise_map=noise_2d[~mask_2d], model=model_2d, mask=mask_2d
        ),
        "scalar_model": dict(data=data_2d, noise_map=noise_2d, model=1.5, mask=mask_2d),
        "scalar_noise": dict(data=data_2d, noise_map=2.0, model=model_2d, mask=mask_2d),
        "row_model": dict(data=data_2d, noise_map=noise_2d, model=model_2d[0], mask=mask_2d),
        "col_model": dict(data=data_2d, noise_map=noise_2d, model=model_2d[:, :1], mask=mask_2d),
        "row_noise": dict(data=data_2d, noise_map=noise_2d[0], model=model_2d, mask=mask_2d),
        "row_data": dict(data=data_2d[0], noise_map=noise_2d, model=model_2d, mask=mask_2d),
        "row_mask": dict(data=data_2d, noise_map=noise_2d, model=model_2d, mask=mask_2d[0]),
        "col_mask": dict(data=data_2d, noise_map=noise_2d, model=model_2d, mask=mask_2d[:, :1]),
        "scalar_mask": dict(data=data_2d, noise_map=noise_2d, model=model_2d, mask=False),
        "none_mask": dict(data=data_2d, noise_map=noise_2d, model=model_2d, mask=None),
        "none_model": dict(data=data_2d, noise_map=noise_2d, model=None, mask=mask_2d),
        "none_data": dict(data=None, noise_map=noise_2d, model=model_2d, mask=mask_2d),
        "none_noise": dict(data=data_2d, noise_map=None, model=model_2d, mask=mask_2d),
        "list_all": dict(
            data=data_2d.tolist(), noise_map=noise_2d.tolist(), model=model_2d.tolist(), mask=mask_2d.tolist()
        ),
        "wrong_shape_mask": dict(data=data_2d, noise_map=noise_2d, model=model_2d, mask=mask_2d.T),
        "3d": dict(
            data=np.stack([data_2d] * 2), noise_map=np.stack([noise_2d] * 2), model=np.stack([model_2d] * 2),
            mask=mask_2d,
        ),
        "3d_all": dict(
            data=np.stack([data_2d] * 2), noise_map=np.stack([noise_2d] * 2), model=np.stack([model_2d] * 2),
            mask=np.stack([mask_2d] * 2),
        ),
        "empty": dict(
            data=np.zeros((0, 3)), noise_map=np.zeros((0, 3)), model=np.zeros((0, 3)), mask=np.zeros((0, 3), bool)
        ),
        "Array2D_data_ndarray_rest": dict(
            data=aa.Array2D(values=data_2d, mask=mask, store_native=True), noise_map=noise_2d, model=model_2d,
            mask=mask_2d,
        ),
        "Array2D_slim_with_Mask2D": dict(
            data=aa.Array2D(values=data_2d, mask=mask),
            noise_map=aa.Array2D(values=noise_2d, mask=mask),
            model=aa.Array2D(values=model_2d, mask=mask),
            mask=mask,
        ),
        "ndarray_data_Array2D_rest": dict(
            data=data_2d,
            noise_map=aa.Array2D(values=noise_2d, mask=mask, store_native=True),
            model=aa.Array2D(values=model_2d, mask=mask, store_native=True),
            mask=mask,
        ),
    }
    for name, c in combos.items():
        for cls, sky, use_mask in itertools.product([FitDs, FitIm], [0.0, 2.0], [True, False]):
            if cls is FitDs and sky != 0.0:
                continue
            dataset = types.SimpleNamespace(
                data=c["data"], noise_map=c["noise_map"], mask=c["mask"], noise_covariance_matrix=None
            )
            fit = cls(
                dataset=dataset,
                model_data=c["model"],
                use_mask_in_fit=use_mask,
                dataset_model=aa.DatasetModel(background_sky_level=sky),
            )
            probe(f"mismatch[{name},{cls.__name__},sky={sky},use_mask={use_mask}]", fit)

    # Datasets missing attributes.
    for missing in ("data", "noise_map", "mask", "noise_covariance_matrix"):
        kwargs = dict(data=data_2d, noise_map=noise_2d, mask=mask_2d, noise_covariance_matrix=None)
        kwargs.pop(missing)
        fit = FitIm(
            dataset=types.SimpleNamespace(**kwargs),
            model_data=model_2d,
            use_mask_in_fit=True,
            dataset_model=aa.DatasetModel(background_sky_level=1.0),
        )
        probe(f"missing[{missing}]", fit)


def subclass_cases():
    """User subclasses / library mocks which override one of the ingredients."""
    seed = 1200
    for (mname, mask_2d), sky, use_mask, cls in itertools.product(
        masks()[2:9],
        [0.0, 1.75],
        [True, False],
        [FitImOwnData, FitImOwnNoise],
    ):
        seed += 1
        mask = aa.Mask2D(mask=mask_2d, pixel_scales=(1.0, 2.0))
        data_2d, noise_2d, model_2d = arrays_for(mask_2d.shape, seed)
        data = aa.Array2D(values=data_2d, mask=mask, store_native=True)
        noise_map = aa.Array2D(values=noise_2d, mask=mask, store_native=True)
        model_data = aa.Array2D(values=model_2d, mask=mask, store_native=True)
        dataset = aa.Imaging(data=data, noise_map=noise_map)
        fit = cls(
            dataset=dataset,
            model_data=model_data,
            use_mask_in_fit=use_mask,
            dataset_model=aa.DatasetModel(background_sky_level=sky),
        )
        probe(f"sub[{cls.__name__},{mname},sky={sky},use_mask={use_mask}]", fit)

        mock = aa.m.MockFitImaging(
            dataset=dataset,
            dataset_model=aa.DatasetModel(background_sky_level=sky),
            use_mask_in_fit=use_mask,
            noise_map=noise_map * 2.0,
            model_data=model_data,
            inversion=Inv(),
        )
        probe(f"mock[{mname},sky={sky},use_mask={use_mask}]", mock)

        mock = aa.m.MockFitImaging(
            dataset=dataset,
            dataset_model=aa.DatasetModel(background_sky_level=sky),
            use_mask_in_fit=use_mask,
            model_data=model_data,
        )
        probe(f"mock_plain[{mname},sky={sky},use_mask={use_mask}]", mock)


def shared_object_cases():
    """Several fits sharing one dataset / one model, interleaved reads, aliasing of the inputs."""
    mask_2d = masks()[8][1]
    mask = aa.Mask2D(mask=mask_2d, pixel_scales=(0.3, 0.05), origin=(1.5, -2.25))
    data_2d, noise_2d, model_2d = arrays_for(mask_2d.shape, 1500)
    data = aa.Array2D(values=data_2d, mask=mask, store_native=True)
    noise_map = aa.Array2D(values=noise_2d, mask=mask, store_native=True)
    model_data = aa.Array2D(values=model_2d, mask=mask, store_native=True)
    dataset = aa.Imaging(data=data, noise_map=noise_map)

    fits = [
        FitIm(
            dataset=dataset,
            model_data=model_data,
            use_mask_in_fit=use_mask,
            dataset_model=aa.DatasetModel(background_sky_level=sky),
        )
        for use_mask, sky in itertools.product([True, False], [0.0, 1.75, -3.0])
    ]
    for rep in range(3):
        for i, fit in enumerate(fits):
            record(f"shared.chi#{rep}.{i}", lambda: fit.chi_squared)
            record(f"shared.fom#{rep}.{i}", lambda: fit.figure_of_merit)
            record(f"shared.map#{rep}.{i}", lambda: fit.chi_squared_map)
    record("shared.data_after", lambda: dataset.data)
    record("shared.noise_after", lambda: dataset.noise_map)
    record("shared.model_after", lambda: model_data)

    # model == data object (aliasing), and noise == data object.
    fit = FitIm(dataset=dataset, model_data=dataset.data, use_mask_in_fit=True,
                dataset_model=aa.DatasetModel(background_sky_level=1.75))
    probe("alias[model_is_data]", fit, inputs=(dataset.data,))
    dataset2 = types.SimpleNamespace(data=data, noise_map=data, mask=mask, noise_covariance_matrix=None)
    fit = FitIm(dataset=dataset2, model_data=model_data, use_mask_in_fit=True,
                dataset_model=aa.DatasetModel(background_sky_level=1.75))
    probe("alias[noise_is_data]", fit, inputs=(data,))

    # Mutating the dataset between two reads must be picked up identically (nothing may be cached).
    dataset3 = types.SimpleNamespace(
        data=np.array(data_2d), noise_map=np.array(noise_2d), mask=np.array(mask_2d), noise_covariance_matrix=None
    )
    model3 = np.array(model_2d)
    fit = FitIm(dataset=dataset3, model_data=model3, use_mask_in_fit=True,
                dataset_model=aa.DatasetModel(background_sky_level=0.25))
    record("mutate.before", lambda: fit.chi_squared)
    dataset3.data[0, 0] += 10.0
    dataset3.data[~dataset3.mask] += 0.125
    record("mutate.after_data", lambda: fit.chi_squared)
    model3 *= 0.5
    record("mutate.after_model", lambda: fit.chi_squared)
    dataset3.mask[:] = ~dataset3.mask
    record("mutate.after_mask", lambda: fit.chi_squared)
    fit.dataset_model = aa.DatasetModel(background_sky_level=-4.0)
    record("mutate.after_sky", lambda: fit.chi_squared)
    fit.use_mask_in_fit = False
    record("mutate.after_mode", lambda: fit.chi_squared)


def interferometer_cases():
    rng = np.random.default_rng(5)
    for n, use_mask in itertools.product([1, 4, 7], [True, False]):
        vis = aa.Visibilities(visibilities=rng.normal(size=n) + 1j * rng.normal(size=n))
        noise = aa.VisibilitiesNoiseMap(
            visibilities=(0.5 + rng.random(n)) + 1j * (0.5 + rng.random(n))
        )
        model = aa.Visibilities(visibilities=rng.normal(size=n) + 1j * rng.normal(size=n))
        dataset = types.SimpleNamespace(
            data=vis, noise_map=noise, noise_covariance_matrix=None, transformer=None
        )

        class FitInt(aa.FitInterferometer):
            @property
            def model_data(self):
                return model

        fit = FitInt(dataset=dataset, use_mask_in_fit=use_mask)
        for name in SCALARS + ["residual_map", "chi_squared_map", "normalized_residual_map"]:
            record(f"interf[{n},{use_mask}].{name}", lambda: getattr(fit, name))


def native_dtype_cases():
    """Library arrays which keep a non-float64 dtype (native-stored `Array2D` does), odd memory layouts, 0-d values."""
    seed = 2000
    for (mname, mask_2d), (dt_data, dt_noise, dt_model), sky in itertools.product(
        masks(),
        [
            ("i8", "f8", "f8"),
            ("f4", "f8", "f8"),
            ("f8", "f4", "f8"),
            ("f8", "f8", "f4"),
            ("f4", "f4", "f4"),
            ("f8", "f8", "i8"),
            ("f8", "i8", "f8"),
            ("bool", "f8", "f8"),
        ],
        [0.0, 1.75],
    ):
        seed += 1
        mask = aa.Mask2D(mask=mask_2d, pixel_scales=(1.0, 2.0))
        data_2d, noise_2d, model_2d = arrays_for(mask_2d.shape, seed)

        def conv(a, dt):
            return (a * 4.0 + 1.0).astype(dt) if dt in ("i8", "bool") else a.astype(dt)

        data = aa.Array2D(values=conv(data_2d, dt_data), mask=mask, store_native=True)
        noise_map = aa.Array2D(values=conv(noise_2d, dt_noise), mask=mask, store_native=True)
        model_data = aa.Array2D(values=conv(model_2d, dt_model), mask=mask, store_native=True)
        label = f"dtype[{mname},{dt_data},{dt_noise},{dt_model},sky={sky}]"
        dataset = record(label + ".imaging", lambda: aa.Imaging(data=data, noise_map=noise_map))
        if isinstance(dataset, Exception):
            dataset = types.SimpleNamespace(
                data=data, noise_map=noise_map, mask=mask, noise_covariance_matrix=None
            )
        fit = FitIm(
            dataset=dataset,
            model_data=model_data,
            use_mask_in_fit=True,
            dataset_model=aa.DatasetModel(background_sky_level=sky),
        )
        probe(label, fit, inputs=(data, noise_map, model_data))

    # Memory layouts / byte order / views of plain float64 arrays.
    for (mname, mask_2d), layout, sky in itertools.product(
        masks(), ["F", "T", "strided", "swapped", "readonly"], [0.0, 1.75]
    ):
        seed += 1
        data_2d, noise_2d, model_2d = arrays_for(mask_2d.shape, seed)

        def lay(a):
            if layout == "F":
                return np.asfortranarray(a)
            if layout == "T":
                return np.ascontiguousarray(a.T).T
            if layout == "strided":
                big = np.zeros((a.shape[0] * 2, a.shape[1] * 3))
                big[::2, ::3] = a
                return big[::2, ::3]
            if layout == "swapped":
                return a.astype(">f8")
            a = np.array(a)
            a.setflags(write=False)
            return a

        dataset = types.SimpleNamespace(
            data=lay(data_2d), noise_map=lay(noise_2d), mask=lay(mask_2d) if layout != "swapped" else mask_2d,
            noise_covariance_matrix=None,
        )
        fit = FitIm(
            dataset=dataset,
            model_data=lay(model_2d),
            use_mask_in_fit=True,
            dataset_model=aa.DatasetModel(background_sky_level=sky),
        )
        probe(f"layout[{mname},{layout},sky={sky}]", fit, inputs=(dataset.data, dataset.noise_map))

    # 0-d and numpy-scalar values.
    for kind, sky, masked in itertools.product(["0d", "scalar", "float"], [0.0, 1.75], [False, True]):
        if kind == "0d":
            mk = lambda v: np.array(v)  # noqa
        elif kind == "scalar":
            mk = lambda v: np.float64(v) if not isinstance(v, bool) else np.bool_(v)  # noqa
        else:
            mk = lambda v: v  # noqa
        dataset = types.SimpleNamespace(
            data=mk(3.25), noise_map=mk(0.75), mask=mk(masked), noise_covariance_matrix=None
        )
        fit = FitIm(
            dataset=dataset,
            model_data=mk(1.5),
            use_mask_in_fit=True,
            dataset_model=aa.DatasetModel(background_sky_level=sky),
        )
        probe(f"zero_d[{kind},sky={sky},masked={masked}]", fit)


def override_cases():
    """
    User subclasses which redefine the maps themselves. HEAD's chi-squared is, by construction, the sum of whatever
    `self.chi_squared_map` returns; a chi-squared computed directly from data / model / noise cannot see such an
    override. Only digested with `--overrides` (this is inherent to the restructuring, see TWIN_NOTES.md).
    """
    seed = 3000
    for (mname, mask_2d), sky, use_mask, cls in itertools.product(
        masks()[2:9], [0.0, 1.75], [True, False], [FitImOwnMaps, FitImOwnResiduals]
    ):
        seed += 1
        mask = aa.Mask2D(mask=mask_2d, pixel_scales=(1.0, 2.0))
        data_2d, noise_2d, model_2d = arrays_for(mask_2d.shape, seed)
        data = aa.Array2D(values=data_2d, mask=mask, store_native=True)
        noise_map = aa.Array2D(values=noise_2d, mask=mask, store_native=True)
        model_data = aa.Array2D(values=model_2d, mask=mask, store_native=True)
        fit = cls(
            dataset=aa.Imaging(data=data, noise_map=noise_map),
            model_data=model_data,
            use_mask_in_fit=use_mask,
            dataset_model=aa.DatasetModel(background_sky_level=sky),
        )
        probe(f"override[{cls.__name__},{mname},sky={sky},use_mask={use_mask}]", fit)


def main():
    imaging_cases()
    poisoned_cases()
    covariance_cases()
    subclass_cases()
    shared_object_cases()
    interferometer_cases()
    if not DOMAIN_ONLY:
        plain_dataset_cases()
        mismatched_cases()
        native_dtype_cases()
    if WITH_OVERRIDES:
        override_cases()
    print(f"records {N_RECORDS} exceptions {N_EXC} warnings {N_WARN}", file=sys.stderr)
    print(H.hexdigest())


if __name__ == "__main__":
    main()
