"""
Differential test for the C05-7 twin (autoarray/util/fnnls.py : extracted `passive_system_from`).

Prints a sha256 digest over the bit-exact results (or the raised exception types) of `fnnls_cholesky` and of its
callers on many inputs.  The digest must be identical on the clean HEAD tree and on the tree with twin.patch.

Run:  cd /tmp/wt10/C05-7 && PYTHONPATH=/tmp/wt10/C05-7 /venv/bin/python -W ignore equiv.py
"""
import hashlib
import logging
import os
import warnings

import numpy as np

import autoarray as aa
from autoarray import exc
from autoarray.inversion.inversion import inversion_util
from autoarray.util.fnnls import fnnls_cholesky

warnings.filterwarnings("ignore")
logging.disable(logging.CRITICAL)

H = hashlib.sha256()
COUNT = {"calls": 0, "exceptions": 0, "nonascending": 0}


LOG = [] if os.environ.get("EQUIV_DUMP") else None


def feed(tag, obj):
    if LOG is not None:
        LOG.append(f"{tag} {hashlib.sha256(repr(obj.tolist() if isinstance(obj, np.ndarray) else obj).encode()).hexdigest()[:12]}")
    H.update(tag.encode())
    if isinstance(obj, np.ndarray):
        H.update(str(obj.dtype).encode())
        H.update(str(obj.shape).encode())
        H.update(np.ascontiguousarray(obj).tobytes())
    else:
        H.update(repr(obj).encode())


def snapshot(x):
    if isinstance(x, np.ndarray):
        return x.copy()
    if isinstance(x, list):
        return list(x)
    return x


def same(a, b):
    if isinstance(a, np.ndarray):
        return isinstance(b, np.ndarray) and a.dtype == b.dtype and a.shape == b.shape and (
            a.tobytes() == b.tobytes()
        )
    return repr(a) == repr(b)


def call(tag, A, b, **kwargs):
    """Call fnnls_cholesky, feed result / exception type and whether any input was modified in place."""
    COUNT["calls"] += 1
    A0, b0 = snapshot(A), snapshot(b)
    kw0 = {k: snapshot(v) for k, v in kwargs.items()}
    try:
        out = fnnls_cholesky(A, b, **kwargs)
        feed(tag, np.asarray(out))
        feed(tag + ":type", type(out).__name__)
        # the result must not alias the inputs
        if isinstance(b, np.ndarray) and isinstance(out, np.ndarray):
            feed(tag + ":alias", bool(np.shares_memory(out, b)))
    except Exception as e:  # noqa
        COUNT["exceptions"] += 1
        out = None
        feed(tag + ":exc", type(e).__name__)
    feed(tag + ":A_unchanged", same(A0, A))
    feed(tag + ":b_unchanged", same(b0, b))
    for k, v in kwargs.items():
        feed(tag + ":kw_unchanged:" + k, same(kw0[k], v))
    return out


def spd(rng, n, extra=3, ridge=1e-3):
    Z = rng.normal(size=(n + extra, n))
    return Z.T @ Z + ridge * np.eye(n)


# ---------------------------------------------------------------------------------------------------------
# 1. random SPD systems, right-hand sides of mixed sign; cold start and many kinds of warm start.
# ---------------------------------------------------------------------------------------------------------

for seed in range(400):
    rng = np.random.default_rng(seed)
    n = int(rng.integers(1, 15))
    A = spd(rng, n)
    b = rng.normal(size=n)
    tag = f"rand{seed}"

    s_cold = call(tag + ":cold", A, b)
    call(tag + ":cold_explicit_empty", A, b, P_initial=np.zeros(0, dtype=int))
    call(tag + ":cold_empty_bool", A, b, P_initial=np.zeros(0, dtype=bool))

    x = np.linalg.solve(A, b)
    P_sign = x > 0
    s_warm = call(tag + ":warm_sign", A, b, P_initial=P_sign)

    # does the trigger of the seed occur (first parameter to join has an index below the largest warm index) ?
    if s_cold is not None and P_sign.any() and not np.array_equal(P_sign, s_cold > 0):
        COUNT["nonascending"] += 1

    call(tag + ":warm_all", A, b, P_initial=np.ones(n, dtype=bool))
    call(tag + ":warm_none_bool", A, b, P_initial=np.zeros(n, dtype=bool))
    call(tag + ":warm_complement", A, b, P_initial=~P_sign)
    call(tag + ":warm_random_bool", A, b, P_initial=rng.random(n) > 0.5)
    call(tag + ":warm_last_only", A, b, P_initial=np.arange(n) == n - 1)
    call(tag + ":warm_first_only", A, b, P_initial=np.arange(n) == 0)

    # integer index arrays (sorted, unsorted, with repeats)
    k = int(rng.integers(1, n + 1))
    idx = rng.choice(n, size=k, replace=False)
    call(tag + ":warm_idx_unsorted", A, b, P_initial=idx)
    call(tag + ":warm_idx_sorted", A, b, P_initial=np.sort(idx))
    call(tag + ":warm_idx_desc", A, b, P_initial=np.sort(idx)[::-1].copy())
    call(tag + ":warm_idx_repeat", A, b, P_initial=np.concatenate([idx, idx[:1]]))
    call(tag + ":warm_idx_negative", A, b, P_initial=np.array([-1]))

    # repeated calls with the same objects (no hidden state)
    call(tag + ":warm_sign_again", A, b, P_initial=P_sign)
    call(tag + ":cold_again", A, b)

# ---------------------------------------------------------------------------------------------------------
# 2. special right-hand sides / matrices.
# ---------------------------------------------------------------------------------------------------------

for seed in range(120):
    rng = np.random.default_rng(10_000 + seed)
    n = int(rng.integers(1, 12))
    A = spd(rng, n)
    tag = f"special{seed}"

    for name, b in (
        ("allpos", np.abs(rng.normal(size=n)) + 0.1),
        ("allneg", -np.abs(rng.normal(size=n)) - 0.1),
        ("zero", np.zeros(n)),
        ("onepos", -np.abs(rng.normal(size=n)) + 5.0 * (np.arange(n) == n // 2)),
        ("firstpos", -np.abs(rng.normal(size=n)) + 5.0 * (np.arange(n) == 0)),
        ("A_times_pos", A @ np.abs(rng.normal(size=n))),
        ("A_times_sparse", A @ (np.abs(rng.normal(size=n)) * (rng.random(n) > 0.5))),
        ("huge", 1e12 * rng.normal(size=n)),
        ("tiny", 1e-12 * rng.normal(size=n)),
        ("int", rng.integers(-5, 6, size=n)),
        ("float32", rng.normal(size=n).astype("float32")),
    ):
        call(f"{tag}:{name}:cold", A, b)
        try:
            P0 = np.linalg.solve(A, b) > 0
        except Exception:
            P0 = np.zeros(n, dtype=bool)
        call(f"{tag}:{name}:warm", A, b, P_initial=P0)
        call(f"{tag}:{name}:warm_all", A, b, P_initial=np.ones(n, dtype=bool))
        call(f"{tag}:{name}:warm_rev", A, b, P_initial=np.arange(n)[::-1].copy())

    b = rng.normal(size=n)

    # strongly correlated columns / nearly singular / singular / not positive definite / non finite
    Zc = rng.normal(size=(n + 3, 1)) + 1e-3 * rng.normal(size=(n + 3, n))
    mats = {
        "correlated": Zc.T @ Zc + 1e-8 * np.eye(n),
        "rank_deficient": (lambda Z: Z.T @ Z)(rng.normal(size=(max(n - 2, 1), n))),
        "diag": np.diag(0.1 + rng.random(n)),
        "identity": np.eye(n),
        "zero": np.zeros((n, n)),
        "negdef": -spd(rng, n),
        "indefinite": spd(rng, n) - 2.0 * np.eye(n),
        "nonsymmetric": spd(rng, n) + np.triu(rng.normal(size=(n, n)), 1),
        "fortran": np.asfortranarray(spd(rng, n)),
        "float32": spd(rng, n).astype("float32"),
        "nan": spd(rng, n) * np.where(np.eye(n) > 0, np.nan, 1.0),
        "inf": spd(rng, n) + np.inf * (np.arange(n)[:, None] == 0) * (np.arange(n)[None, :] == 0),
        "nan_last": spd(rng, n) + np.where(
            (np.arange(n)[:, None] == n - 1) & (np.arange(n)[None, :] == n - 1), np.nan, 0.0
        ),
    }
    for name, M in mats.items():
        call(f"{tag}:{name}:cold", M, b)
        call(f"{tag}:{name}:warm_pos", M, b, P_initial=b > 0)
        call(f"{tag}:{name}:warm_all", M, b, P_initial=np.ones(n, dtype=bool))
        call(f"{tag}:{name}:warm_rand", M, b, P_initial=rng.random(n) > 0.4)

# ---------------------------------------------------------------------------------------------------------
# 3. degenerate sizes and inputs outside the contract (only the exception type is compared).
# ---------------------------------------------------------------------------------------------------------

call("n0", np.zeros((0, 0)), np.zeros(0))
call("n0_warm", np.zeros((0, 0)), np.zeros(0), P_initial=np.zeros(0, dtype=bool))
call("n1_pos", np.array([[2.0]]), np.array([3.0]))
call("n1_neg", np.array([[2.0]]), np.array([-3.0]))
call("n1_pos_warm", np.array([[2.0]]), np.array([3.0]), P_initial=np.array([True]))
call("n1_neg_warm", np.array([[2.0]]), np.array([-3.0]), P_initial=np.array([True]))
call("n1_zero_matrix", np.array([[0.0]]), np.array([3.0]))
call("n1_neg_matrix", np.array([[-1.0]]), np.array([3.0]))

A2 = np.array([[2.0, 0.5], [0.5, 1.0]])
call("b_list", A2, [1.0, 2.0])
call("b_list_negdef", -A2, [-1.0, 2.0])
call("b_tuple", A2, (1.0, -2.0))
# both the factorisation and the indexing of ZTx fail: the exception which comes first must stay first
call("b_tuple_negdef", -A2, (1.0, 2.0))
call("b_scalar_negdef", -A2, 1.0)
call("b_0d_negdef", -A2, np.array(1.0))
call("b_0d_nan", A2 * np.nan, np.array(1.0))
call("b_list_inf", A2 * np.inf, [1.0, 2.0])
call("b_list_zero", A2 * 0.0, [1.0, 2.0])
call("b_len1_negdef", -A2, np.array([1.0]))
call("b_none", A2, None)
call("b_list_warm", A2, [1.0, 2.0], P_initial=np.array([True, False]))
call("A_list", [[2.0, 0.5], [0.5, 1.0]], np.array([1.0, 2.0]))
call("b_scalar", A2, 1.0)
call("b_0d", A2, np.array(1.0))
call("b_len1", A2, np.array([1.0]))
call("b_too_long", A2, np.array([1.0, 2.0, 3.0]))
call("b_column", A2, np.array([[1.0], [2.0]]))
call("b_row", A2, np.array([[1.0, 2.0]]))
call("b_2d", A2, np.array([[1.0, 2.0], [3.0, -4.0]]))
call("A_rect", np.ones((2, 3)), np.array([1.0, 2.0]))
call("A_1d", np.array([1.0, 2.0]), np.array([1.0, 2.0]))
call("P_out_of_range", A2, np.array([1.0, 2.0]), P_initial=np.array([5]))
call("P_wrong_len_bool", A2, np.array([1.0, 2.0]), P_initial=np.array([True, False, True]))
call("P_float", A2, np.array([1.0, 2.0]), P_initial=np.array([0.0, 1.0]))
call("b_matrix", np.matrix(A2), np.array([1.0, -2.0]))
call("b_nan", A2, np.array([np.nan, 1.0]))
call("b_nan_warm", A2, np.array([np.nan, 1.0]), P_initial=np.array([True, True]))
call("b_inf", A2, np.array([np.inf, 1.0]))
call("b_object", A2, np.array([1.0, 2.0], dtype=object))
call("b_complex", A2, np.array([1.0 + 1j, 2.0]))

# ---------------------------------------------------------------------------------------------------------
# 4. the callers: reconstruction_positive_only_from and aa.Inversion (mapping and w-tilde formalism, warm start on
#    and off, several linear objects, non-square masks).
# ---------------------------------------------------------------------------------------------------------

for seed in range(150):
    rng = np.random.default_rng(20_000 + seed)
    n = int(rng.integers(1, 12))
    A = spd(rng, n)
    b = rng.normal(size=n)
    if seed % 10 == 0:
        A = -A
    if seed % 17 == 0:
        A = A * np.nan
    for warm in (False, True):
        settings = aa.SettingsInversion(use_positive_only_solver=True, positive_only_uses_p_initial=warm)
        tag = f"util{seed}:{warm}"
        A0, b0 = A.copy(), b.copy()
        try:
            out = inversion_util.reconstruction_positive_only_from(
                data_vector=b, curvature_reg_matrix=A, settings=settings
            )
            feed(tag, np.asarray(out))
        except Exception as e:  # noqa
            feed(tag + ":exc", type(e).__name__)
            feed(tag + ":cause", type(e.__cause__).__name__)
        feed(tag + ":unchanged", same(A0, A) and same(b0, b))

try:
    inversion_util.reconstruction_positive_only_from(
        data_vector=np.zeros(0), curvature_reg_matrix=np.zeros((0, 0)), settings=aa.SettingsInversion()
    )
except Exception as e:  # noqa
    feed("util_empty:exc", type(e).__name__)


def inversion_from(seed, warm, use_w_tilde, shape, radius, pixel_scales, parameters_list):
    rng = np.random.default_rng(seed)
    mask = aa.Mask2D.circular(shape_native=shape, pixel_scales=pixel_scales, radius=radius)
    data = aa.Array2D.no_mask(rng.normal(size=shape), pixel_scales=pixel_scales)
    noise_map = aa.Array2D.no_mask(0.5 + rng.random(shape), pixel_scales=pixel_scales)
    psf = aa.Kernel2D.no_mask(values=[[0.0, 0.1, 0.0], [0.1, 0.6, 0.1], [0.0, 0.1, 0.0]], pixel_scales=pixel_scales)
    dataset = aa.Imaging(data=data, noise_map=noise_map, psf=psf).apply_mask(mask=mask)
    grid = aa.Grid2D.from_mask(mask=mask)
    linear_obj_list = [
        aa.m.MockLinearObjFuncList(
            parameters=p, grid=grid, mapping_matrix=rng.random((mask.pixels_in_mask, p))
        )
        for p in parameters_list
    ]
    return aa.Inversion(
        dataset=dataset,
        linear_obj_list=linear_obj_list,
        settings=aa.SettingsInversion(
            use_w_tilde=use_w_tilde,
            use_positive_only_solver=True,
            positive_only_uses_p_initial=warm,
            no_regularization_add_to_curvature_diag_value=1e-3,
        ),
    )


configs = [
    ((7, 7), 2.6, 1.0, [6]),
    ((7, 9), 3.1, 1.0, [4, 3]),
    ((9, 6), 2.5, (1.0, 0.8), [5]),
    ((7, 7), 2.6, 0.5, [1]),
    ((8, 8), 3.2, 1.0, [3, 2, 2]),
]

for ci, (shape, radius, pixel_scales, parameters_list) in enumerate(configs):
    for seed in list(range(12)) + [23]:
        for warm in (False, True):
            for use_w_tilde in (False, True):
                tag = f"inv{ci}:{seed}:{warm}:{use_w_tilde}"
                try:
                    inv = inversion_from(seed, warm, use_w_tilde, shape, radius, pixel_scales, parameters_list)
                    feed(tag + ":rec", np.array(inv.reconstruction))
                    feed(tag + ":rec_again", np.array(inv.reconstruction))
                    feed(tag + ":mapped", np.array(inv.mapped_reconstructed_data))
                    for i, v in enumerate(inv.mapped_reconstructed_data_dict.values()):
                        feed(tag + f":mapped{i}", np.array(v))
                    for i, v in enumerate(inv.reconstruction_dict.values()):
                        feed(tag + f":recdict{i}", np.array(v))
                except Exception as e:  # noqa
                    feed(tag + ":exc", type(e).__name__)

print(
    f"calls {COUNT['calls']}  exceptions {COUNT['exceptions']}  "
    f"warm starts which are not the optimal support {COUNT['nonascending']}"
)
print("DIGEST", H.hexdigest())
if LOG is not None:
    open(os.environ["EQUIV_DUMP"], "w").write("\n".join(LOG) + "\n")
