"""
Differential test for C18-6 (relocation kernel `relocated_grid_via_jit_from` and its callers in `BorderRelocator`).

Prints a sha256 digest over all results (array bytes / shapes / dtypes / exception type names / aliasing flags).
The digest must be identical on the clean HEAD tree and on the tree with twin.patch applied.

Run:  cd /tmp/wt8/C18-6 && PYTHONPATH=/tmp/wt8/C18-6 /venv/bin/python -W ignore equiv.py
"""
import hashlib
import warnings

import numpy as np

warnings.filterwarnings("ignore")

import autoarray as aa
from autoarray.structures.grids import grid_2d_util

H = hashlib.sha256()
N_CASES = [0]
N_FAST = [0]  # cases where no coordinate is beyond the innermost border point (informational only, not hashed)
N_TRIGGER = [0]  # cases matching the seed trigger: max radius <= max border radius but something is relocated


def feed(tag, obj):
    H.update(repr(tag).encode())
    if isinstance(obj, np.ndarray):
        H.update(str(obj.dtype).encode())
        H.update(repr(obj.shape).encode())
        H.update(np.ascontiguousarray(obj).tobytes())
    else:
        H.update(repr(obj).encode())


def kernel_case(tag, grid, border):
    """Call the kernel directly; record result / exception, input mutation, aliasing and result type."""
    N_CASES[0] += 1
    try:
        grid_before = np.array(grid, copy=True)
        border_before = np.array(border, copy=True)
    except Exception:
        grid_before = border_before = None
    try:
        out = grid_2d_util.relocated_grid_via_jit_from(grid=grid, border_grid=border)
    except Exception as e:
        feed(tag, ("EXC", type(e).__name__))
        return None
    feed(tag, type(out).__name__)
    feed(tag, np.asarray(out))
    feed(tag, ("alias_grid", out is grid, np.shares_memory(np.asarray(out), np.asarray(grid))))
    feed(
        tag,
        (
            "inputs_unchanged",
            bool(np.array_equal(np.asarray(grid), grid_before, equal_nan=True)),
            bool(np.array_equal(np.asarray(border), border_before, equal_nan=True)),
        ),
    )
    feed(tag, ("writeable", bool(np.asarray(out).flags.writeable), bool(np.asarray(out).flags.c_contiguous)))
    # informational bookkeeping
    try:
        g = np.asarray(grid, dtype=float)
        b = np.asarray(border, dtype=float)
        if g.ndim == 2 and g.shape[1] == 2 and g.shape[0] > 0 and b.shape[0] > 0:
            o = b.mean(axis=0)
            br = np.sqrt(((b - o) ** 2).sum(axis=1))
            gr = np.sqrt(((g - o) ** 2).sum(axis=1))
            if not (gr > br.min()).any():
                N_FAST[0] += 1
            if gr.max() <= br.max() and not np.array_equal(np.asarray(out), g):
                N_TRIGGER[0] += 1
    except Exception:
        pass
    return out


def ellipse_border(rng, n, a, b, centre, angle, jitter=0.0):
    t = np.sort(rng.uniform(0.0, 2.0 * np.pi, n))
    y = b * np.sin(t)
    x = a * np.cos(t)
    c, s = np.cos(angle), np.sin(angle)
    yy = c * y + s * x + centre[0]
    xx = -s * y + c * x + centre[1]
    pts = np.stack([yy, xx], axis=1)
    if jitter:
        pts = pts + rng.normal(0.0, jitter, pts.shape)
    return pts


rng = np.random.default_rng(180618)

# ----------------------------------------------------------------------------------------------------------------------
# 1. Direct kernel calls, random borders of various elongation, grids of various extent
# ----------------------------------------------------------------------------------------------------------------------
for i in range(400):
    n_border = int(rng.integers(1, 40))
    a = rng.uniform(0.5, 4.0)
    b = a * rng.choice([1.0, 0.9, 0.5, 0.25, 0.1])
    centre = rng.uniform(-3.0, 3.0, 2) * rng.choice([0.0, 1.0])
    angle = rng.uniform(0.0, np.pi) * rng.choice([0.0, 1.0])
    border = ellipse_border(rng, n_border, a, b, centre, angle, jitter=rng.choice([0.0, 0.02, 0.2]))

    n_grid = int(rng.choice([0, 1, 2, 5, 30, 120]))
    mode = i % 5
    if mode == 0:  # everything well inside the innermost border point -> fast path
        extent = 0.5 * b
    elif mode == 1:  # between min and max border radius -> the seed's trigger regime
        extent = 0.5 * (a + b)
    elif mode == 2:  # at most the max border radius
        extent = a
    elif mode == 3:  # far outliers
        extent = 3.0 * a
    else:  # mixture
        extent = rng.uniform(0.1, 5.0) * a
    r = extent * np.sqrt(rng.uniform(0.0, 1.0, n_grid))
    t = rng.uniform(0.0, 2.0 * np.pi, n_grid)
    grid = np.stack([r * np.sin(t) + centre[0], r * np.cos(t) + centre[1]], axis=1)
    if mode in (1, 2) and n_grid > 0 and n_border > 0:
        # clip so that NO coordinate is farther from the border centroid than the farthest border point
        o = border.mean(axis=0)
        br = np.sqrt(((border - o) ** 2).sum(axis=1))
        gr = np.sqrt(((grid - o) ** 2).sum(axis=1))
        f = np.where(gr > br.max(), 0.999 * br.max() / np.maximum(gr, 1e-300), 1.0)
        grid = f[:, None] * (grid - o) + o
    kernel_case(("rand", i), grid, border)

# ----------------------------------------------------------------------------------------------------------------------
# 2. Hand-made edge cases for the kernel
# ----------------------------------------------------------------------------------------------------------------------
sq_border = np.array([[1.0, 0.0], [0.0, 1.0], [-1.0, 0.0], [0.0, -1.0]])
rect_border = np.array(
    [[0.5, -2.0], [0.5, 0.0], [0.5, 2.0], [0.0, 2.0], [-0.5, 2.0], [-0.5, 0.0], [-0.5, -2.0], [0.0, -2.0]]
)
shifted_rect = rect_border + np.array([10.0, -7.0])

edge_grids = {
    "empty": np.zeros((0, 2)),
    "single_inside": np.array([[0.1, 0.1]]),
    "single_on_min": np.array([[0.5, 0.0]]),
    "single_on_origin": np.array([[0.0, 0.0]]),
    "single_short_axis_out": np.array([[0.9, 0.0]]),
    "single_long_axis_in": np.array([[0.0, 1.9]]),
    "single_far": np.array([[50.0, -30.0]]),
    "trigger": np.array([[0.9, 0.1], [-0.8, -0.3], [0.0, 1.5], [0.1, 0.1], [0.7, 1.0]]),
    "exactly_max": np.array([[0.0, 2.0615528128088303], [0.5, 2.0]]),
    "nan_row": np.array([[0.1, 0.1], [np.nan, 0.2], [0.9, 0.0]]),
    "all_nan": np.full((3, 2), np.nan),
    "inf_row": np.array([[0.1, 0.1], [np.inf, 0.2], [0.9, 0.0]]),
    "neg_inf": np.array([[-np.inf, -np.inf]]),
    "int_dtype_in": np.array([[0, 0], [0, 1]]),
    "int_dtype_out": np.array([[0, 0], [3, 1], [1, 0]]),
    "float32": np.array([[0.1, 0.1], [0.9, 0.0], [3.0, 3.0]], dtype=np.float32),
    "three_cols_in": np.array([[0.1, 0.1, 0.1]]),
    "three_cols_out": np.array([[0.9, 0.0, 0.1]]),
    "one_col": np.array([[0.1], [0.9]]),
    "one_dim": np.array([0.1, 0.9]),
    "fortran": np.asfortranarray(np.array([[0.1, 0.1], [0.9, 0.0], [0.0, 1.5], [5.0, 5.0]])),
    "strided": np.array([[0.1, 0.1, 9.0, 9.0], [0.9, 0.0, 9.0, 9.0], [0.0, 1.5, 9.0, 9.0]])[:, :2],
    "border_itself": rect_border.copy(),
    "dupes": np.array([[0.9, 0.0]] * 4 + [[0.1, 0.1]] * 3),
}
readonly = np.array([[0.1, 0.1], [0.9, 0.0]])
readonly.flags.writeable = False
edge_grids["readonly_in"] = readonly[:1]
edge_grids["readonly_out"] = readonly

edge_borders = {
    "square": sq_border,
    "rect": rect_border,
    "shifted_rect": shifted_rect,
    "single_point": np.array([[1.0, 1.0]]),
    "two_points": np.array([[0.0, -1.0], [0.0, 3.0]]),
    "degenerate_same": np.array([[2.0, 2.0], [2.0, 2.0], [2.0, 2.0]]),
    "empty_border": np.zeros((0, 2)),
    "nan_border": np.array([[1.0, 0.0], [np.nan, 1.0], [-1.0, 0.0]]),
    "inf_border": np.array([[1.0, 0.0], [np.inf, 1.0], [-1.0, 0.0]]),
    "int_border": np.array([[1, 0], [0, 3], [-1, 0], [0, -3]]),
    "three_col_border": np.array([[1.0, 0.0, 5.0], [0.0, 2.0, 5.0], [-1.0, 0.0, 5.0], [0.0, -2.0, 5.0]]),
    "one_dim_border": np.array([1.0, 2.0]),
}

for bname, border in edge_borders.items():
    for gname, grid in edge_grids.items():
        for shift in (False, True):
            g = grid
            if shift and bname == "shifted_rect":
                g = grid + (np.array([10.0, -7.0]) if grid.ndim == 2 and grid.shape[1] == 2 else 0)
            elif shift:
                continue
            kernel_case(("edge", bname, gname, shift), g, border)

# autoarray objects passed straight to the kernel (callers use np.array(...), but the kernel is public)
mask_small = aa.Mask2D.circular(shape_native=(9, 9), radius=0.35, pixel_scales=(0.1, 0.1))
g_obj = aa.Grid2D.from_mask(mask=mask_small)
for scale in (0.5, 1.0, 1.2, 4.0):
    kernel_case(("obj_irregular", scale), aa.Grid2DIrregular(values=np.array(g_obj) * scale), np.array(g_obj)[::3])
    kernel_case(("obj_grid2d", scale), aa.Grid2D.no_mask(values=(np.array(g_obj.native) * scale), pixel_scales=0.1), np.array(g_obj)[::3])

# repeated calls with shared inputs (no hidden state / caching): results must be stable and independent
shared_grid = edge_grids["trigger"].copy()
out_a = kernel_case(("repeat", 0), shared_grid, rect_border)
out_b = kernel_case(("repeat", 1), shared_grid, rect_border)
feed("repeat_independent", (out_a is out_b, bool(np.shares_memory(out_a, out_b))))
out_a[:] = -1.0
kernel_case(("repeat", 2), shared_grid, rect_border)
inside = np.array([[0.1, 0.1], [0.2, -0.2]])
out_c = kernel_case(("repeat_in", 0), inside, rect_border)
out_c[0, 0] = 123.0  # mutate the returned array; the input must not be affected (no aliasing on the fast path)
feed("repeat_in_input_after", inside)
kernel_case(("repeat_in", 1), inside, rect_border)

# ----------------------------------------------------------------------------------------------------------------------
# 3. Through the public API: BorderRelocator.relocated_grid_from / relocated_mesh_grid_from
# ----------------------------------------------------------------------------------------------------------------------
masks = {
    "circ_sq": aa.Mask2D.circular(shape_native=(15, 15), radius=0.6, pixel_scales=(0.1, 0.1)),
    "circ_nonsq_aniso": aa.Mask2D.circular(
        shape_native=(13, 21), radius=0.9, pixel_scales=(0.2, 0.1), centre=(0.1, -0.2)
    ),
    "ellip_demo": aa.Mask2D.elliptical(
        shape_native=(21, 31), major_axis_radius=2.6, axis_ratio=0.5, angle=0.0, pixel_scales=(0.2, 0.2),
        centre=(0.3, -0.4),
    ),
    "fully_masked_empty": aa.Mask2D.elliptical(
        shape_native=(25, 19), major_axis_radius=1.0, axis_ratio=0.3, angle=40.0, pixel_scales=(0.1, 0.15),
        origin=(1.0, -2.0), centre=(1.1, -1.9),
    ),
    "ellip_rot_origin_ok": aa.Mask2D.elliptical(
        shape_native=(25, 19), major_axis_radius=1.0, axis_ratio=0.3, angle=40.0, pixel_scales=(0.1, 0.15),
        origin=(1.0, -2.0), centre=(0.1, 0.1),
    ),
    "annulus": aa.Mask2D.circular_annular(
        shape_native=(17, 17), inner_radius=0.3, outer_radius=0.7, pixel_scales=(0.1, 0.1)
    ),
    "all_unmasked_edges": aa.Mask2D.all_false(shape_native=(6, 9), pixel_scales=(0.3, 0.2)),
    "single_pixel": aa.Mask2D(
        mask=np.array([[True, True, True], [True, False, True], [True, True, True]]), pixel_scales=(1.0, 1.0)
    ),
    "touching_edges_irregular": aa.Mask2D(
        mask=np.array(
            [
                [False, False, True, True, True, False],
                [False, True, True, False, False, False],
                [True, True, False, False, True, True],
                [False, False, False, True, True, False],
            ]
        ),
        pixel_scales=(0.5, 0.25),
        origin=(0.5, 0.5),
    ),
}


def api_case(tag, fn):
    N_CASES[0] += 1
    try:
        out = fn()
    except Exception as e:
        feed(tag, ("EXC", type(e).__name__))
        return None
    feed(tag, type(out).__name__)
    feed(tag, np.array(out))
    return out


for mname, mask in masks.items():
    for sub_size in (1, 2):
        try:
            relocator = aa.BorderRelocator(mask=mask, sub_size=sub_size)
        except Exception as e:
            feed(("relocator", mname, sub_size), ("EXC", type(e).__name__))
            continue
        try:
            base = np.array(relocator.sub_grid)
            feed(("sub_border_slim", mname, sub_size), np.array(relocator.sub_border_slim))
            feed(("sub_border_grid", mname, sub_size), np.array(relocator.sub_border_grid))
        except Exception as e:
            feed(("relocator_props", mname, sub_size), ("EXC", type(e).__name__))
            print("note: relocator properties raise for", mname, sub_size, type(e).__name__)
            continue
        if base.shape[0] == 0:
            continue
        centre = base.mean(axis=0)
        for k, (sy, sx, noise) in enumerate(
            [(1.0, 1.0, 0.0), (0.7, 0.7, 0.0), (1.3, 0.9, 0.0), (0.9, 1.2, 0.0), (1.0, 1.0, 0.15), (3.0, 3.0, 0.5)]
        ):
            src = (base - centre) * np.array([sy, sx]) + centre
            if noise:
                # perturb non-border coordinates only, as a lens mapping would distort the source plane
                pert = rng.normal(0.0, noise, src.shape)
                pert[np.array(relocator.sub_border_slim)] = 0.0
                src = src + pert
            grid_in = aa.Grid2DIrregular(values=src)
            src_before = src.copy()
            out = api_case(("api_grid", mname, sub_size, k), lambda: relocator.relocated_grid_from(grid=grid_in))
            feed(("api_grid_input_unchanged", mname, sub_size, k), bool(np.array_equal(np.array(grid_in), src_before)))
            if out is None:
                continue
            feed(("api_grid_identity", mname, sub_size, k), out is grid_in)
            n_mesh = 12
            r = np.sqrt(rng.uniform(0.0, 1.0, n_mesh)) * rng.choice([0.3, 1.0, 2.5]) * np.abs(base - centre).max()
            t = rng.uniform(0.0, 2.0 * np.pi, n_mesh)
            mesh = np.stack([r * np.sin(t), r * np.cos(t)], axis=1) + centre
            mesh_in = aa.Grid2DIrregular(values=mesh)
            for gname, gsrc in (("rel", out), ("raw", grid_in)):
                mout = api_case(
                    ("api_mesh", mname, sub_size, k, gname),
                    lambda: relocator.relocated_mesh_grid_from(grid=gsrc, mesh_grid=mesh_in),
                )
                feed(("api_mesh_identity", mname, sub_size, k, gname), mout is mesh_in)
            feed(("api_mesh_input_unchanged", mname, sub_size, k), bool(np.array_equal(np.array(mesh_in), mesh)))
            # repeated call on the same objects
            api_case(("api_grid_again", mname, sub_size, k), lambda: relocator.relocated_grid_from(grid=grid_in))

# The demo's exact trigger through the API
mask = masks["ellip_demo"]
relocator = aa.BorderRelocator(mask=mask, sub_size=1)
grid = aa.Grid2D.from_mask(mask=mask)
border_slim = np.array(relocator.sub_border_slim)
border = np.array(grid)[border_slim]
centroid = border.mean(axis=0)
source_grid = np.array(grid).copy()
non_border = np.setdiff1d(np.arange(source_grid.shape[0]), border_slim)
reach = np.abs(border[:, 0] - centroid[0]).max()
idx = non_border[[3, len(non_border) // 2, len(non_border) - 4]]
source_grid[idx[0]] = centroid + np.array([1.25 * reach, 0.05])
source_grid[idx[1]] = centroid + np.array([-1.10 * reach, -0.31])
source_grid[idx[2]] = centroid + np.array([1.18 * reach, 0.47])
rel = api_case("demo_trigger_grid", lambda: relocator.relocated_grid_from(grid=aa.Grid2DIrregular(values=source_grid)))
mesh_grid = np.array(
    [centroid, centroid + [1.3 * reach, 0.1], centroid + [-1.2 * reach, -0.2], centroid + [0.2, 1.5]]
)
api_case(
    "demo_trigger_mesh",
    lambda: relocator.relocated_mesh_grid_from(grid=rel, mesh_grid=aa.Grid2DIrregular(values=mesh_grid)),
)
kernel_case("demo_trigger_kernel", source_grid, border)

print(
    f"cases {N_CASES[0]}  (kernel cases with nothing beyond min border radius: {N_FAST[0]}; "
    f"seed-trigger cases: {N_TRIGGER[0]})"
)
print("DIGEST", H.hexdigest())
