"""
Differential test for the C20-5 twin (flip_mask / flip_array of CoordinateArrayTriangles).

Prints one sha256 digest over every observable result (values, dtypes, shapes, exception
types, cache keys reachable through the public API).  The digest must be identical on the
clean HEAD tree and on the tree with twin.patch applied.

Run:  cd /tmp/wt8/C20-5 && PYTHONPATH=/tmp/wt8/C20-5 /venv/bin/python equiv.py
"""
import copy
import hashlib
import os
import pickle
import warnings

warnings.filterwarnings("ignore")

import numpy as np

from autoarray.structures.triangles.coordinate_array import CoordinateArrayTriangles
from autoarray.structures.triangles.shape import Point

H = hashlib.sha256()
# optional: EQUIV_TRACE=<file> writes the running digest after every record (for diffing two runs)
TRACE = open(os.environ["EQUIV_TRACE"], "w") if os.environ.get("EQUIV_TRACE") else None
N_RECORDS = 0


def feed(tag, value):
    global N_RECORDS
    N_RECORDS += 1
    if TRACE is not None:
        TRACE.write("%r %s\n" % (tag, H.hexdigest()[:12]))
    H.update(repr(tag).encode())
    if isinstance(value, np.ndarray):
        H.update(str(value.dtype).encode())
        H.update(repr(value.shape).encode())
        if value.dtype == object:  # tobytes() of object arrays is pointers: not deterministic
            H.update(repr(value.tolist()).encode())
        else:
            H.update(np.ascontiguousarray(value).tobytes())
    elif isinstance(value, (tuple, list)):
        H.update(type(value).__name__.encode())
        for i, v in enumerate(value):
            feed((tag, i), v)
    else:
        H.update(type(value).__name__.encode())
        H.update(repr(value).encode())


def attempt(tag, fn):
    try:
        value = fn()
    except Exception as e:  # noqa
        feed(tag, ("EXC", type(e).__name__))
        return None
    feed(tag, value)
    return value


def dump(tag, t, depth=0):
    """Record everything observable about one CoordinateArrayTriangles instance."""
    if t is None:
        return
    attempt((tag, "coordinates"), lambda: np.asarray(t.coordinates))
    attempt((tag, "side_length"), lambda: float(t.side_length))
    attempt((tag, "x_offset"), lambda: float(t.x_offset))
    attempt((tag, "y_offset"), lambda: float(t.y_offset))
    attempt((tag, "flipped"), lambda: t.flipped)
    attempt((tag, "len"), lambda: len(t))
    attempt((tag, "area"), lambda: float(t.area))
    attempt((tag, "centres"), lambda: t.centres)
    attempt((tag, "flip_mask"), lambda: t.flip_mask)
    attempt((tag, "flip_array"), lambda: t.flip_array)
    attempt((tag, "flip_array_contig"), lambda: t.flip_array.flags["C_CONTIGUOUS"])
    attempt((tag, "triangles"), lambda: t.triangles)
    attempt((tag, "iter"), lambda: [np.asarray(x) for x in t])
    attempt((tag, "means"), lambda: t.means)
    attempt((tag, "vertices"), lambda: t.vertices)
    attempt((tag, "indices"), lambda: t.indices)
    attempt(
        (tag, "with_vertices"),
        lambda: np.asarray(t.with_vertices(t.vertices).triangles),
    )
    # cached values are stable objects across reads
    attempt((tag, "flip_mask_cached"), lambda: t.flip_mask is t.flip_mask)
    attempt((tag, "flip_array_cached"), lambda: t.flip_array is t.flip_array)
    attempt((tag, "triangles_cached"), lambda: t.triangles is t.triangles)
    for p in [(0.0, 0.0), (0.1, 0.05), (0.37, -0.81), (-1.3, 2.2), (100.0, 100.0)]:
        attempt(
            (tag, "containing", p),
            lambda p=p: np.asarray(t.containing_indices(Point(*p))),
        )
    n = 0
    try:
        n = t.coordinates.shape[0]
    except Exception:
        pass
    for idx in (
        np.arange(0, n, 2),
        np.array([], dtype=int),
        np.array([0]) if n else np.array([], dtype=int),
        (np.arange(n) % 3 == 0),
        np.array([n + 5]),
    ):
        sel = attempt_obj((tag, "for_indexes", repr(idx.tolist())), lambda idx=idx: t.for_indexes(idx))
        if sel is not None:
            attempt((tag, "sel.coords", repr(idx.tolist())), lambda: np.asarray(sel.coordinates))
            attempt((tag, "sel.flip_mask", repr(idx.tolist())), lambda: sel.flip_mask)
            attempt((tag, "sel.triangles", repr(idx.tolist())), lambda: sel.triangles)
            attempt((tag, "sel.up", repr(idx.tolist())), lambda: sel.up_sample().triangles)
            attempt((tag, "sel.nb", repr(idx.tolist())), lambda: sel.neighborhood().triangles)
    if depth < 2:
        up = attempt_obj((tag, "up_sample"), t.up_sample)
        dump((tag, "UP"), up, depth + 1)
        nb = attempt_obj((tag, "neighborhood"), t.neighborhood)
        dump((tag, "NB"), nb, depth + 1)
    else:
        attempt((tag, "up.coords"), lambda: np.asarray(t.up_sample().coordinates))
        attempt((tag, "up.triangles"), lambda: t.up_sample().triangles)
        attempt((tag, "nb.coords"), lambda: np.asarray(t.neighborhood().coordinates))
        attempt((tag, "nb.triangles"), lambda: t.neighborhood().triangles)


def attempt_obj(tag, fn):
    try:
        obj = fn()
    except Exception as e:  # noqa
        feed(tag, ("EXC", type(e).__name__))
        return None
    feed(tag, type(obj).__name__)
    return obj


def build(tag, **kw):
    return attempt_obj((tag, "ctor"), lambda: CoordinateArrayTriangles(**kw))


def main():
    rng = np.random.RandomState(20)
    cases = []

    fixed = {
        "one": np.array([[0, 0]]),
        "one_odd": np.array([[0, 1]]),
        "two": np.array([[0, 0], [1, 0]]),
        "notes": np.array([[0, 0], [1, 0], [-2, 3], [5, -4], [3, 3]]),
        "empty": np.zeros((0, 2), dtype=int),
        "empty_f": np.zeros((0, 2)),
        "neg": np.array([[-1, -1], [-2, -1], [-3, 4], [-7, -8]]),
        "dups": np.array([[1, 2], [1, 2], [2, 2], [1, 2]]),
        "floats": np.array([[0.0, 0.0], [1.0, 0.0], [2.0, 1.0], [-3.0, 2.0]]),
        "half": np.array([[0.5, 0.0], [1.5, 1.0], [2.0, 0.5]]),
        "nan": np.array([[0.0, 0.0], [np.nan, 1.0], [1.0, np.nan], [3.0, 2.0]]),
        "inf": np.array([[0.0, 0.0], [np.inf, 1.0]]),
        "big": np.array([[2**40, 1], [2**40 + 1, 1], [-(2**40), 3]]),
        "int8": np.array([[127, 1], [100, 100], [-128, 0]], dtype=np.int8),
        "uint8": np.array([[255, 1], [3, 4], [0, 0]], dtype=np.uint8),
        "bool": np.array([[True, False], [True, True]]),
        "three_cols": np.array([[0, 0, 1], [1, 0, 5]]),
        "one_col": np.array([[0], [1]]),
        "obj": np.array([[0, 0], [1, 2], [3, 3]], dtype=object),
    }
    for name, coords in fixed.items():
        for flipped in (False, True):
            for sl, xo, yo in ((1.0, 0.0, 0.0), (0.7, 0.3, -1.1)):
                cases.append((("fixed", name, flipped, sl, xo, yo), dict(
                    coordinates=coords, side_length=sl, x_offset=xo, y_offset=yo, flipped=flipped)))

    # random integer lattices, anisotropic extents, non-zero offsets
    for k in range(40):
        n = int(rng.randint(1, 30))
        coords = np.stack(
            [rng.randint(-20, 20, size=n), rng.randint(-5, 6, size=n)], axis=1
        )
        if k % 3 == 0:
            coords = coords.astype(float)
        cases.append((("rand", k), dict(
            coordinates=coords,
            side_length=float(rng.choice([0.1, 0.5, 1.0, 1.5, 3.0])),
            x_offset=float(rng.uniform(-2, 2)),
            y_offset=float(rng.uniform(-2, 2)),
            flipped=bool(k % 2),
        )))

    # odd values of `flipped` (truthiness is what HEAD uses)
    base = np.array([[0, 0], [1, 0], [2, 1], [-1, 3]])
    for f in (0, 1, 2, -1, None, "", "yes", 0.0, 0.5, np.bool_(True), np.bool_(False),
              np.array(True), np.array([False]), np.array([True]), [], [0],
              np.array([True, False])):
        cases.append((("flipped_value", repr(f)), dict(coordinates=base, side_length=1.3, flipped=f)))

    # malformed coordinates
    for name, coords in (("1d", np.array([0, 1, 2])), ("list", [[0, 0], [1, 0]]),
                         ("scalar", np.array(3)), ("none", None), ("3d", np.zeros((2, 2, 2)))):
        for flipped in (False, True):
            cases.append((("bad", name, flipped), dict(coordinates=coords, flipped=flipped)))

    for tag, kw in cases:
        t = build(tag, **kw)
        dump(tag, t)

    # for_limits_and_scale, non-square limits / anisotropic
    for k, (x0, x1, y0, y1, s) in enumerate([
        (-1.0, 1.0, -1.0, 1.0, 1.0),
        (-2.3, 0.7, 0.4, 1.9, 0.5),
        (0.0, 0.0, 0.0, 0.0, 1.0),
        (3.0, 5.0, -7.0, -6.5, 0.8),
        (1.0, -1.0, 1.0, -1.0, 1.0),
    ]):
        t = attempt_obj(("limits", k), lambda: CoordinateArrayTriangles.for_limits_and_scale(x0, x1, y0, y1, s))
        dump(("limits", k), t, depth=1)

    # different orders of reading the cached properties on fresh objects, including
    # reading flip_array / triangles before flip_mask, and chains of operations
    orders = [
        ("flip_array", "flip_mask", "triangles"),
        ("triangles", "flip_mask", "flip_array"),
        ("flip_mask", "triangles"),
        ("vertices", "flip_mask"),
        ("indices", "flip_array", "flip_mask"),
    ]
    for flipped in (False, True):
        for oi, order in enumerate(orders):
            t = CoordinateArrayTriangles(
                coordinates=fixed["notes"], side_length=0.9, x_offset=-0.2, y_offset=0.4, flipped=flipped
            )
            for name in order:
                attempt(("order", flipped, oi, name), lambda: np.asarray(getattr(t, name)))
            attempt(("order", flipped, oi, "up"), lambda: t.up_sample().triangles)
            attempt(("order", flipped, oi, "nb"), lambda: t.neighborhood().triangles)
            attempt(("order", flipped, oi, "upupup"), lambda: t.up_sample().up_sample().up_sample().triangles)
            attempt(("order", flipped, oi, "upnbup"), lambda: t.up_sample().neighborhood().up_sample().triangles)
            attempt(("order", flipped, oi, "nbupnb.coords"),
                    lambda: np.asarray(t.neighborhood().up_sample().neighborhood().coordinates))
            attempt(("order", flipped, oi, "upup.flip_mask"), lambda: t.up_sample().up_sample().flip_mask)
            attempt(("order", flipped, oi, "upup.flip_array"), lambda: t.up_sample().up_sample().flip_array)

    # results do not alias the inputs / caches: mutate returned arrays and re-read
    for flipped in (False, True):
        coords = fixed["notes"].copy()
        t = CoordinateArrayTriangles(coordinates=coords, side_length=1.1, flipped=flipped)
        attempt(("alias", flipped, "coords_is"), lambda: t.coordinates is coords)
        fa = t.flip_array
        fm = t.flip_mask
        attempt(("alias", flipped, "fa_owns"), lambda: fa.flags["OWNDATA"])
        attempt(("alias", flipped, "fa_writeable"), lambda: fa.flags["WRITEABLE"])
        attempt(("alias", flipped, "fm_writeable"), lambda: fm.flags["WRITEABLE"])
        attempt(("alias", flipped, "shares_fm_fa"), lambda: np.shares_memory(fa, fm))
        tri_before = t.triangles.copy()
        fm[:] = ~fm  # scribble on the returned mask (it is the cached object)
        attempt(("alias", flipped, "fa_after_fm_write"), lambda: t.flip_array)
        attempt(("alias", flipped, "tri_after_fm_write"), lambda: t.triangles)
        attempt(("alias", flipped, "tri_same"), lambda: bool(np.array_equal(t.triangles, tri_before)))
        attempt(("alias", flipped, "up_after_fm_write"), lambda: np.asarray(t.up_sample().coordinates))
        attempt(("alias", flipped, "nb_after_fm_write"), lambda: np.asarray(t.neighborhood().coordinates))
        up = t.up_sample()
        up.coordinates[:] = 0
        attempt(("alias", flipped, "parent_coords_after_child_write"), lambda: np.asarray(t.coordinates))

    # copies / pickles of objects whose caches have been populated via the public API
    for flipped in (False, True):
        t = CoordinateArrayTriangles(coordinates=fixed["neg"], side_length=2.0, y_offset=0.3, flipped=flipped)
        _ = t.flip_mask, t.flip_array, t.triangles, t.vertices
        for how, c in (("copy", copy.copy(t)), ("deepcopy", copy.deepcopy(t)),
                       ("pickle", pickle.loads(pickle.dumps(t)))):
            attempt(("cp", flipped, how, "keys"), lambda: sorted(c.__dict__))
            attempt(("cp", flipped, how, "flip_mask"), lambda: c.flip_mask)
            attempt(("cp", flipped, how, "flip_array"), lambda: c.flip_array)
            attempt(("cp", flipped, how, "tri"), lambda: c.triangles)
            attempt(("cp", flipped, how, "up"), lambda: c.up_sample().triangles)
            attempt(("cp", flipped, how, "nb"), lambda: c.neighborhood().triangles)

    print("records", N_RECORDS)
    print("digest", H.hexdigest())


if __name__ == "__main__":
    main()
