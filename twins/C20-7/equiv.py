"""
Differential test for CoordinateArrayTriangles.for_indexes (C20-7 twin).

Prints a sha256 digest over everything observable about selections made from
parents in many cache states (nothing read yet / triangles read / vertices read /
containing_indices / up_sample / neighborhood called first), with many index
kinds, flip states, offsets, side lengths, float / NaN coordinates, chained
selections, mutated parents, and aliasing / identity checks.  The digest must be
identical on the clean HEAD tree and on the twin tree.

Usage: cd /tmp/wt10/C20-7 && PYTHONPATH=/tmp/wt10/C20-7 /venv/bin/python -W ignore equiv.py [-v]
"""
import hashlib
import sys
import warnings

import numpy as np

warnings.filterwarnings("ignore")

from autoarray.structures.triangles.coordinate_array import CoordinateArrayTriangles
from autoarray.structures.triangles.shape import Point, Circle

VERBOSE = "-v" in sys.argv
H = hashlib.sha256()
N_RECORDS = 0


def enc(value):
    if isinstance(value, np.ndarray):
        return "nd|%s|%s|%s" % (
            value.dtype,
            value.shape,
            hashlib.sha256(np.ascontiguousarray(value).tobytes()).hexdigest(),
        )
    if isinstance(value, (list, tuple)):
        return type(value).__name__ + "[" + ",".join(enc(v) for v in value) + "]"
    if isinstance(value, (np.generic,)):
        return "npg|%s|%r" % (value.dtype, value.item())
    return "%s|%r" % (type(value).__name__, value)


def record(label, thunk):
    global N_RECORDS
    try:
        out = enc(thunk())
    except Exception as e:  # noqa
        out = "EXC|" + type(e).__name__
    line = "%s => %s" % (label, out)
    if VERBOSE:
        print(line)
    H.update(line.encode())
    H.update(b"\n")
    N_RECORDS += 1


def describe(label, obj, parent=None):
    """Record everything observable about a CoordinateArrayTriangles."""
    record(label + ".type", lambda: type(obj).__module__ + "." + type(obj).__qualname__)
    record(label + ".vars_before", lambda: list(vars(obj).keys()))
    record(label + ".coordinates", lambda: obj.coordinates)
    record(label + ".side_length", lambda: obj.side_length)
    record(label + ".flipped", lambda: obj.flipped)
    record(label + ".x_offset", lambda: obj.x_offset)
    record(label + ".y_offset", lambda: obj.y_offset)
    record(label + ".scaling_factors", lambda: obj.scaling_factors)
    if parent is not None:
        record(
            label + ".sf_is_parent",
            lambda: obj.scaling_factors is parent.scaling_factors,
        )
        record(
            label + ".sf_shares",
            lambda: bool(np.shares_memory(obj.scaling_factors, parent.scaling_factors)),
        )
        record(
            label + ".coords_share",
            lambda: bool(np.shares_memory(obj.coordinates, parent.coordinates)),
        )
        record(label + ".is_parent", lambda: obj is parent)
    record(label + ".len", lambda: len(obj))
    record(label + ".area", lambda: obj.area)
    record(label + ".centres", lambda: obj.centres)
    record(label + ".flip_mask", lambda: obj.flip_mask)
    record(label + ".flip_array", lambda: obj.flip_array)
    record(label + ".triangles", lambda: obj.triangles)
    record(label + ".iter", lambda: [t for t in obj])
    record(label + ".means", lambda: obj.means)
    record(label + ".vertices", lambda: obj.vertices)
    record(label + ".indices", lambda: obj.indices)
    record(
        label + ".with_vertices.triangles",
        lambda: obj.with_vertices(obj.vertices).triangles,
    )
    record(
        label + ".with_vertices.area", lambda: obj.with_vertices(obj.vertices).area
    )
    record(label + ".up.coords", lambda: obj.up_sample().coordinates)
    record(label + ".up.triangles", lambda: obj.up_sample().triangles)
    record(label + ".up.state", lambda: state(obj.up_sample()))
    record(label + ".nb.coords", lambda: obj.neighborhood().coordinates)
    record(label + ".nb.triangles", lambda: obj.neighborhood().triangles)
    record(label + ".nb.state", lambda: state(obj.neighborhood()))

    def contain_point():
        m = obj.means
        return [obj.containing_indices(Point(*m[i])) for i in range(min(3, len(m)))]

    record(label + ".containing_point", contain_point)
    record(
        label + ".containing_circle",
        lambda: obj.containing_indices(Circle(0.2, -0.4, 1.3)),
    )
    record(label + ".vars_after", lambda: list(vars(obj).keys()))
    # cache behaviour: memoised values are stable objects
    record(label + ".tri_cached", lambda: obj.triangles is obj.triangles)
    record(label + ".vi_cached", lambda: obj.vertices is obj.vertices)


def state(obj):
    return [
        obj.side_length,
        obj.flipped,
        obj.x_offset,
        obj.y_offset,
        obj.scaling_factors,
        list(vars(obj).keys()),
    ]


# ----------------------------------------------------------------------------------
# parents

rng = np.random.default_rng(20)

COORD_SETS = {
    "demo": np.array([[0, 0], [1, 0], [2, 0], [3, 0], [0, 1], [1, 1], [-2, -1]]),
    "one": np.array([[0, 0]]),
    "two": np.array([[0, 0], [1, 0]]),
    "neg": np.array([[-3, -2], [-2, -2], [-1, 4], [5, -7], [0, 0]]),
    "dup": np.array([[1, 1], [1, 1], [2, 1], [1, 1]]),
    "rand": rng.integers(-6, 7, size=(23, 2)),
    "float": np.array([[0.0, 0.0], [1.0, 0.0], [2.0, 1.0], [-1.0, 3.0]]),
    "nan": np.array([[0.0, 0.0], [np.nan, np.nan], [2.0, 1.0], [1.0, np.nan]]),
    "empty": np.zeros((0, 2), dtype=int),
}

PARAMS = [
    dict(),
    dict(side_length=0.7, x_offset=0.3, y_offset=-1.1),
    dict(side_length=2.5, x_offset=-4.0, y_offset=3.25, flipped=True),
    dict(side_length=np.float64(0.125), flipped=True),
    dict(side_length=3, x_offset=1, y_offset=2),
]


def index_sets(n):
    out = {
        "arr": np.array([min(5, n - 1), min(2, n - 1)]) if n else np.array([], int),
        "list": [0] if n else [],
        "all": np.arange(n),
        "rev": np.arange(n)[::-1],
        "rep": np.array([0, 0, n - 1]) if n else np.array([], int),
        "neg": np.array([-1]) if n else np.array([], int),
        "empty": np.array([], dtype=int),
        "bool": (np.arange(n) % 2 == 0),
        "bool_none": np.zeros(n, dtype=bool),
        "slice": slice(1, None, 2),
        "slice_all": slice(None),
        "scalar": 0,
        "npscalar": np.int64(n - 1),
        "oob": np.array([n + 3]),
        "2d": np.array([[0, n - 1]]) if n else np.zeros((1, 0), int),
        "float_idx": np.array([0.0]),
        "none": None,
        "tuple": (np.array([0]),),
    }
    return out


def touch_nothing(p):
    pass


def touch_triangles(p):
    p.triangles


def touch_flip_mask(p):
    p.flip_mask


def touch_flip_array(p):
    p.flip_array


def touch_vertices(p):
    p.vertices
    p.indices


def touch_containing(p):
    p.containing_indices(Circle(0.2, -0.4, 1.3))


def touch_up(p):
    p.up_sample()


def touch_nb(p):
    p.neighborhood()


def touch_all(p):
    p.triangles, p.vertices, p.indices, p.flip_mask, p.flip_array, p.means
    list(p)


TOUCHES = [
    touch_nothing,
    touch_triangles,
    touch_flip_mask,
    touch_flip_array,
    touch_vertices,
    touch_containing,
    touch_up,
    touch_nb,
    touch_all,
]


def make(cname, params):
    return CoordinateArrayTriangles(coordinates=COORD_SETS[cname].copy(), **params)


# 1. full grid on two coordinate sets, all touches x all index kinds
for cname in ("demo", "one"):
    for pi, params in enumerate(PARAMS[:3]):
        n = len(COORD_SETS[cname])
        for touch in TOUCHES:
            for iname, idx in index_sets(n).items():
                label = "G1/%s/p%d/%s/%s" % (cname, pi, touch.__name__, iname)
                try:
                    parent = make(cname, params)
                    touch(parent)
                except Exception as e:
                    record(label + ".touch", lambda: (_ for _ in ()).throw(e))
                    continue
                keys_before = list(vars(parent).keys())
                cached_before = {
                    k: parent.__dict__.get(k)
                    for k in ("triangles", "flip_mask", "flip_array", "_vertices_and_indices")
                }
                try:
                    sel = parent.for_indexes(idx)
                except Exception as e:
                    record(label + ".for_indexes", lambda: "EXC:" + type(e).__name__)
                    continue
                # parent is left untouched by the selection
                record(label + ".parent_keys_same", lambda: list(vars(parent).keys()) == keys_before)
                record(
                    label + ".parent_cache_same",
                    lambda: [parent.__dict__.get(k) is v for k, v in cached_before.items()],
                )
                describe(label, sel, parent)
                record(label + ".parent_triangles_after", lambda: parent.triangles)

# 2. every coordinate set x every param set, the main touches, the main indexes
for cname in COORD_SETS:
    for pi, params in enumerate(PARAMS):
        n = len(COORD_SETS[cname])
        for touch in (touch_nothing, touch_triangles, touch_containing, touch_up, touch_all):
            for iname in ("arr", "bool", "slice", "empty", "all", "rep"):
                idx = index_sets(n)[iname]
                label = "G2/%s/p%d/%s/%s" % (cname, pi, touch.__name__, iname)
                try:
                    parent = make(cname, params)
                    touch(parent)
                except Exception as e:
                    record(label + ".touch", lambda: "EXC:" + type(e).__name__)
                    # still try the selection on whatever state the parent is in
                try:
                    sel = parent.for_indexes(idx)
                except Exception as e:
                    record(label + ".for_indexes", lambda: "EXC:" + type(e).__name__)
                    continue
                describe(label, sel, parent)

# 3. for_limits_and_scale parents and the containment pipeline
for li, (lim, scale) in enumerate(
    [((-1.0, 1.0, -1.0, 1.0), 1.0), ((0.1, 2.3, -0.7, 0.4), 0.5), ((-2.0, -1.0, 3.0, 4.0), 0.37)]
):
    parent = CoordinateArrayTriangles.for_limits_and_scale(*lim, scale=scale)
    for si, shape in enumerate(
        [Point(0.3, 0.1), Circle(0.5, -0.2, 0.6), Point(100.0, 100.0), Circle(-1.5, 3.5, 0.4)]
    ):
        label = "G3/l%d/s%d" % (li, si)
        found = parent.containing_indices(shape)
        record(label + ".found", lambda: found)
        kept = parent.for_indexes(found)
        describe(label + ".kept", kept, parent)
        record(label + ".kept_vs_parent", lambda: np.allclose(kept.triangles, parent.triangles[found]))
        # multi-level pipeline, as used by the triangle solver
        level = kept
        for depth in range(3):
            level = level.up_sample()
            f = level.containing_indices(shape)
            level = level.for_indexes(f)
            record(label + ".depth%d.found" % depth, lambda: f)
            record(label + ".depth%d.state" % depth, lambda: state(level))
            record(label + ".depth%d.tri" % depth, lambda: level.triangles)
            nb = level.neighborhood()
            record(label + ".depth%d.nb" % depth, lambda: nb.triangles)
            record(
                label + ".depth%d.nbsel" % depth,
                lambda: nb.for_indexes(np.arange(0, len(nb), 2)).triangles,
            )

# 4. chained selections, repeated selections from one parent, selection of a selection
parent = make("rand", PARAMS[1])
parent.triangles
parent.vertices
a = parent.for_indexes(np.arange(3, 15))
b = parent.for_indexes(np.array([1, 2]))
describe("G4/a", a, parent)
describe("G4/b", b, parent)
a.triangles
c = a.for_indexes(np.array([0, 5, 5]))
describe("G4/c", c, a)
d = c.for_indexes(slice(None))
describe("G4/d", d, c)
record("G4/d_coords_share_c", lambda: bool(np.shares_memory(d.coordinates, c.coordinates)))
describe("G4/parent_after", parent)
describe("G4/a_after", a)

# 5. aliasing: in-place changes after the selection
parent = make("demo", PARAMS[1])
parent.triangles
sel = parent.for_indexes(np.array([1, 2]))
parent.scaling_factors[:] = 99.0
record("G5/sel.sf_after_parent_sf_mutation", lambda: sel.scaling_factors)
record("G5/sel.centres_after_parent_sf_mutation", lambda: sel.centres)
record("G5/sel.triangles_after_parent_sf_mutation", lambda: sel.triangles)
parent = make("demo", PARAMS[1])
sel = parent.for_indexes(slice(0, 3))  # view of the parent's coordinates
parent.coordinates[0] = [7, 7]
record("G5/view.sel.coordinates", lambda: sel.coordinates)
record("G5/view.sel.triangles", lambda: sel.triangles)
parent = make("demo", PARAMS[1])
sel = parent.for_indexes(np.array([0, 1]))  # copy of the parent's coordinates
parent.coordinates[0] = [7, 7]
sel.coordinates[1] = [9, 9]
record("G5/copy.sel.coordinates", lambda: sel.coordinates)
record("G5/copy.parent.coordinates", lambda: parent.coordinates)
record("G5/copy.sel.triangles", lambda: sel.triangles)
parent = make("demo", PARAMS[2])
parent.triangles
sel = parent.for_indexes(np.array([0, 1]))
sel.x_offset = 5.0
sel.flipped = False
record("G5/attr.parent.state", lambda: state(parent))
record("G5/attr.parent.triangles", lambda: parent.triangles)
record("G5/attr.sel.triangles", lambda: sel.triangles)

# 6. parents whose public attributes were re-assigned after construction
for mi, mutate in enumerate(
    [
        lambda p: setattr(p, "side_length", 2.0),
        lambda p: setattr(p, "flipped", True),
        lambda p: setattr(p, "x_offset", -9.5),
        lambda p: setattr(p, "coordinates", np.array([[4, 4], [5, 4], [6, 4]])),
        lambda p: setattr(p, "scaling_factors", np.array([10.0, 20.0])),
    ]
):
    for touch in (touch_nothing, touch_all):
        for order in ("touch_first", "mutate_first"):
            parent = make("demo", PARAMS[1])
            if order == "touch_first":
                touch(parent)
                mutate(parent)
            else:
                mutate(parent)
                touch(parent)
            label = "G6/m%d/%s/%s" % (mi, touch.__name__, order)
            try:
                sel = parent.for_indexes(np.array([2, 0]))
            except Exception as e:
                record(label + ".for_indexes", lambda: "EXC:" + type(e).__name__)
                continue
            describe(label, sel, parent)

# 7. the demo of the seed, as records
coordinates = COORD_SETS["demo"]
mk = lambda: CoordinateArrayTriangles(coordinates=coordinates, side_length=0.7, x_offset=0.3, y_offset=-1.1)
p = mk()
pt = p.triangles
s = p.for_indexes(np.array([5, 2]))
record("G7/len", lambda: len(s))
record("G7/shape", lambda: s.triangles.shape)
record("G7/match", lambda: bool(np.allclose(s.triangles, pt[[5, 2]])))
p = mk()
point = Point(*p.means[2])
found = p.containing_indices(point)
kept = p.for_indexes(found)
record("G7/found", lambda: found)
record("G7/kept.shape", lambda: kept.triangles.shape)
record("G7/kept.containing", lambda: kept.containing_indices(point))
record("G7/kept.up", lambda: len(kept.up_sample()))
record("G7/kept.nb", lambda: len(kept.neighborhood()))

print("records", N_RECORDS)
print("digest", H.hexdigest())
