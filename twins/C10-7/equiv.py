"""
Differential test for the C10-7 twin (blurring_mask_2d_from guard-clause restructuring).

Prints a sha256 digest over every result (array dtype / shape / bytes, or exception type + message) of
`mask_2d_util.blurring_mask_2d_from` and of its public callers on a deterministic set of inputs. The digest
must be identical on the clean HEAD tree and on the tree with twin.patch applied.

Run:  cd /tmp/wt10/C10-7 && PYTHONPATH=/tmp/wt10/C10-7 /venv/bin/python -W ignore equiv.py
"""
import hashlib
import itertools

import numpy as np

import autoarray as aa
from autoarray.mask import mask_2d_util

H = hashlib.sha256()
N_OK = 0
N_EXC = 0


def feed(tag, value):
    if isinstance(value, np.ndarray):
        H.update(
            f"{tag}|arr|{value.dtype}|{value.shape}|".encode()
            + np.ascontiguousarray(value).tobytes()
        )
    else:
        H.update(f"{tag}|{value!r}".encode())


def run(tag, fn):
    """Call fn, feed result or exception (type, message) to the digest."""
    global N_OK, N_EXC
    try:
        out = fn()
    except Exception as e:  # noqa
        N_EXC += 1
        feed(tag, ("EXC", type(e).__module__, type(e).__name__, str(e)))
        return None
    N_OK += 1
    feed(tag, out)
    return out


def util_call(tag, mask, kernel):
    before = np.array(mask, copy=True)
    out = run(
        tag,
        lambda: mask_2d_util.blurring_mask_2d_from(
            mask_2d=mask, kernel_shape_native=kernel
        ),
    )
    # input must never be modified, output must be a fresh array
    feed(tag + "|input_unchanged", bool(np.array_equal(before, mask)))
    if out is not None:
        feed(tag + "|fresh", bool(not np.shares_memory(out, mask)))


# ---------------------------------------------------------------- 1. exhaustive single-pixel sweep
# every position of a single unmasked pixel, many shapes (non-square), many kernels (odd, even, 1, oversize)
shapes = [(1, 1), (1, 5), (5, 1), (2, 2), (3, 3), (4, 6), (6, 4), (7, 7), (7, 9), (5, 8)]
kernels = [(1, 1), (3, 3), (5, 5), (3, 5), (5, 3), (1, 3), (3, 1), (7, 3), (9, 9),
           (2, 2), (4, 4), (2, 3), (3, 4), (1, 2), (6, 1), (11, 1), (1, 11)]

for shape in shapes:
    for kernel in kernels:
        for y in range(shape[0]):
            for x in range(shape[1]):
                mask = np.full(shape, True)
                mask[y, x] = False
                util_call(f"single|{shape}|{kernel}|{y},{x}", mask, kernel)

# ---------------------------------------------------------------- 2. the triggers from the notes / demo
def case(shape, unmasked):
    mask = np.full(shape, True)
    for y, x in unmasked:
        mask[y, x] = False
    return mask


trigger_cases = [
    (case((7, 7), [(1, 3)]), (5, 5)),
    (case((7, 9), [(3, 1)]), (3, 5)),
    (case((6, 8), [(0, 4), (3, 3)]), (3, 3)),
    (case((7, 7), [(2, 3)]), (5, 5)),
    (case((7, 7), [(1, 1)]), (5, 5)),
    (case((7, 7), [(5, 3)]), (5, 5)),
    (case((7, 7), [(3, 5)]), (5, 5)),
    (case((7, 7), [(3, 6)]), (3, 3)),
    (case((7, 7), [(6, 3)]), (3, 3)),
    (case((7, 7), [(1, 1), (1, 5), (5, 1), (5, 5)]), (5, 5)),
    # side violation in raster order before a corner violation and vice versa
    (case((7, 7), [(1, 3), (5, 5)]), (5, 5)),
    (case((7, 7), [(0, 0), (1, 3)]), (5, 5)),
]
for i, (mask, kernel) in enumerate(trigger_cases):
    util_call(f"trigger|{i}", mask, kernel)

# ---------------------------------------------------------------- 3. random masks
rng = np.random.default_rng(20240610)
for i in range(600):
    ny = int(rng.integers(1, 13))
    nx = int(rng.integers(1, 13))
    p = float(rng.choice([0.0, 0.05, 0.2, 0.5, 0.9, 1.0]))
    mask = rng.random((ny, nx)) >= p  # True = masked
    # half of the masks keep a masked frame so that the footprint fits more often
    if i % 2 == 0:
        pad = int(rng.integers(0, 4))
        mask = np.pad(mask, pad, constant_values=True)
    ky = int(rng.integers(1, 8))
    kx = int(rng.integers(1, 8))
    util_call(f"random|{i}", mask, (ky, kx))

# masks touching exactly one edge, with a thick frame elsewhere
for side, kernel in itertools.product(["top", "bottom", "left", "right"], [(3, 3), (5, 3), (3, 5), (5, 5)]):
    mask = np.full((11, 12), True)
    mask[4:7, 4:8] = False
    if side == "top":
        mask[0:5, 6] = False
    elif side == "bottom":
        mask[6:11, 6] = False
    elif side == "left":
        mask[5, 0:5] = False
    else:
        mask[5, 7:12] = False
    util_call(f"edge|{side}|{kernel}", mask, kernel)

# ---------------------------------------------------------------- 4. degenerate inputs
util_call("empty|0x0", np.full((0, 0), True), (3, 3))
util_call("empty|0x4", np.full((0, 4), True), (3, 3))
util_call("empty|4x0", np.full((4, 0), True), (3, 3))
util_call("allmasked", np.full((5, 6), True), (3, 3))
util_call("allunmasked|fits", np.full((1, 1), False), (1, 1))
util_call("allunmasked|3x3|k1", np.full((3, 3), False), (1, 1))
util_call("allunmasked|3x3|k3", np.full((3, 3), False), (3, 3))
util_call("kernel0", case((5, 5), [(2, 2)]), (0, 0))
util_call("kernel0x3", case((5, 5), [(2, 2)]), (0, 3))
util_call("kernel_list", case((5, 5), [(2, 2)]), [3, 3])
util_call("kernel_npint", case((5, 5), [(2, 2)]), (np.int64(3), np.int64(3)))
util_call("kernel_nparr", case((5, 5), [(2, 2)]), np.array([3, 3]))
util_call("kernel_long", case((5, 5), [(2, 2)]), (3, 3, 7))
# non-bool dtypes of the mask (truthiness semantics)
util_call("mask_int", case((6, 6), [(2, 2), (3, 3)]).astype(int), (3, 3))
util_call("mask_float", case((6, 6), [(2, 2), (3, 3)]).astype(float), (3, 3))
m = case((6, 6), [(2, 2)]).astype(float)
m[3, 3] = np.nan
util_call("mask_nan", m, (3, 3))
util_call("mask_int_values", np.array([[2, 2, 2, 2], [2, 0, -1, 2], [2, 2, 2, 2]]), (3, 3))
# non-contiguous / transposed / read-only views
base = case((8, 10), [(3, 4), (4, 5)])
util_call("mask_T", base.T, (3, 5))
util_call("mask_strided", np.pad(base, 2, constant_values=True)[::2, ::2], (3, 3))
ro = base.copy()
ro.setflags(write=False)
util_call("mask_readonly", ro, (3, 3))
# invalid inputs with at least one unmasked pixel
util_call("kernel_float", case((5, 5), [(2, 2)]), (3.0, 3.0))
util_call("kernel_short", case((5, 5), [(2, 2)]), (3,))
util_call("kernel_none", case((5, 5), [(2, 2)]), None)
util_call("mask_1d", np.array([True, False, True]), (3, 3))
util_call("mask_3d", np.full((3, 3, 2), False), (1, 1))

# repeated calls on the same objects (no hidden state)
shared = case((9, 9), [(4, 4), (3, 5)])
shared_kernel = (3, 5)
for i in range(3):
    util_call(f"repeat|{i}", shared, shared_kernel)

# ---------------------------------------------------------------- 5. public callers
def api_blurring(mask, kernel, pixel_scales, origin):
    m = aa.Mask2D(mask=mask, pixel_scales=pixel_scales, origin=origin)
    b = m.derive_mask.blurring_from(kernel_shape_native=kernel)
    return (
        np.array(b),
        tuple(b.pixel_scales),
        tuple(b.origin),
        np.array(m),
    )


def api_blurring_grid(mask, kernel, pixel_scales, origin):
    m = aa.Mask2D(mask=mask, pixel_scales=pixel_scales, origin=origin)
    g = aa.Grid2D.from_mask(mask=m)
    bg = g.blurring_grid_from(kernel_shape_native=kernel)
    return np.array(bg), np.array(bg.mask)


def api_convolver(mask, kernel_shape, pixel_scales):
    m = aa.Mask2D(mask=mask, pixel_scales=pixel_scales)
    k = np.arange(1.0, kernel_shape[0] * kernel_shape[1] + 1.0).reshape(kernel_shape)
    kernel = aa.Kernel2D.no_mask(values=k, pixel_scales=pixel_scales)
    conv = aa.Convolver(mask=m, kernel=kernel)
    return np.array(conv.blurring_mask), conv.pixels_in_blurring_mask


api_masks = [
    case((7, 7), [(1, 3)]),
    case((7, 9), [(3, 1)]),
    case((6, 8), [(0, 4), (3, 3)]),
    case((7, 7), [(2, 3)]),
    case((7, 7), [(1, 1)]),
    case((7, 7), [(5, 3)]),
    case((9, 8), [(4, 3), (4, 4), (5, 4)]),
    case((9, 8), [(4, 3), (4, 6)]),
    case((8, 9), [(6, 4)]),
    np.full((5, 5), True),
]
api_kernels = [(3, 3), (5, 5), (3, 5), (5, 3), (1, 1), (4, 4), (3, 2)]
geoms = [(1.0, (0.0, 0.0)), ((2.0, 0.5), (1.0, -3.0))]

for (i, mask), kernel, (ps, origin) in itertools.product(enumerate(api_masks), api_kernels, geoms):
    tag = f"api|{i}|{kernel}|{ps}|{origin}"
    try:
        out = api_blurring(mask, kernel, ps, origin)
        for j, o in enumerate(out):
            feed(f"{tag}|blurring_from|{j}", o)
    except Exception as e:  # noqa
        feed(f"{tag}|blurring_from", ("EXC", type(e).__name__, str(e)))
    try:
        out = api_blurring_grid(mask, kernel, ps, origin)
        for j, o in enumerate(out):
            feed(f"{tag}|blurring_grid|{j}", o)
    except Exception as e:  # noqa
        feed(f"{tag}|blurring_grid", ("EXC", type(e).__name__, str(e)))

for (i, mask), kernel in itertools.product(enumerate(api_masks), [(3, 3), (5, 5), (3, 5), (5, 3), (1, 1)]):
    tag = f"conv|{i}|{kernel}"
    try:
        out = api_convolver(mask, kernel, 1.0)
        for j, o in enumerate(out):
            feed(f"{tag}|{j}", o)
    except Exception as e:  # noqa
        feed(tag, ("EXC", type(e).__name__, str(e)))

# Imaging(pad_for_convolver=True) catches MaskException from blurring_from to decide on padding
def api_imaging(shape, kernel_shape):
    data = aa.Array2D.no_mask(values=np.arange(float(shape[0] * shape[1])).reshape(shape), pixel_scales=1.0)
    noise = aa.Array2D.ones(shape_native=shape, pixel_scales=1.0)
    psf = aa.Kernel2D.ones(shape_native=kernel_shape, pixel_scales=1.0)
    im = aa.Imaging(data=data, noise_map=noise, psf=psf, pad_for_convolver=True)
    return np.array(im.data.native), tuple(im.data.shape_native), np.array(im.noise_map.native)


for shape, kernel in [((5, 5), (3, 3)), ((6, 4), (5, 3)), ((4, 7), (3, 5)), ((3, 3), (1, 1))]:
    tag = f"imaging|{shape}|{kernel}"
    try:
        out = api_imaging(shape, kernel)
        for j, o in enumerate(out):
            feed(f"{tag}|{j}", o)
    except Exception as e:  # noqa
        feed(tag, ("EXC", type(e).__name__, str(e)))

print(f"util calls returning: {N_OK}, raising: {N_EXC}")
print("DIGEST", H.hexdigest())
