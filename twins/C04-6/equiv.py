"""
Differential test for the C04-6 twin: prints a sha256 digest over the results of
`w_tilde_curvature_preload_imaging_from` (called directly and through `Imaging.w_tilde` / `aa.Inversion`) on many
inputs.  The digest must be identical on the clean HEAD tree and on the tree with twin.patch applied.

Run:  cd /tmp/wt8/C04-6 && PYTHONPATH=/tmp/wt8/C04-6 /venv/bin/python equiv.py
"""
import hashlib
import logging
import warnings

warnings.filterwarnings("ignore")
logging.disable(logging.CRITICAL)

import numpy as np
import autoarray as aa
from autoarray.inversion.inversion.imaging import inversion_imaging_util as util

H = hashlib.sha256()
N_CASES = 0
EXC = {}


def feed(tag, obj):
    global N_CASES
    N_CASES += 1
    H.update(tag.encode())
    if isinstance(obj, BaseException):
        H.update(("EXC:" + type(obj).__name__).encode())
        key = tag.split("/")[0] + ":" + type(obj).__name__
        EXC[key] = EXC.get(key, 0) + 1
    elif isinstance(obj, (tuple, list)):
        for i, o in enumerate(obj):
            feed(f"{tag}[{i}]", o)
    else:
        a = np.ascontiguousarray(np.asarray(obj))
        H.update(str(a.dtype).encode() + str(a.shape).encode())
        H.update(a.tobytes())


def call(tag, **kwargs):
    try:
        out = util.w_tilde_curvature_preload_imaging_from(**kwargs)
    except Exception as e:  # noqa
        out = e
    feed(tag, out)
    return out


def native_for_slim(mask_arr):
    return np.argwhere(~mask_arr).astype("int")


def padded_noise(mask_arr, rng, pad_zero=True):
    noise = rng.uniform(0.5, 2.0, size=mask_arr.shape)
    if pad_zero:
        noise[mask_arr] = 0.0
    return noise


rng = np.random.default_rng(20260403)

# ---------------------------------------------------------------------------------------------------------------------
# 1) direct calls: many mask shapes x kernel shapes (odd, even, tall, wide, 1xN, Nx1), signed and non-negative
# ---------------------------------------------------------------------------------------------------------------------

kernel_shapes = [
    (1, 1), (1, 3), (3, 1), (3, 3), (3, 5), (5, 3), (5, 5), (7, 3), (3, 7), (1, 5), (5, 1), (7, 1), (1, 7),
    (2, 2), (2, 3), (3, 2), (4, 2), (2, 4), (4, 4), (4, 3), (3, 4), (6, 3), (9, 3),
]


def masks():
    out = []
    for shape, pad in [((17, 15), 5), ((15, 19), 5), ((21, 13), 5), ((24, 24), 6)]:
        m = np.ones(shape, dtype=bool)
        m[pad:-pad, pad:-pad] = False
        out.append(("block", m.copy()))
        m2 = m.copy()
        m2[shape[0] // 2, shape[1] // 2] = True  # hole
        m2[pad, pad] = True
        out.append(("hole", m2))
        m3 = np.ones(shape, dtype=bool)
        inner = rng.uniform(size=(shape[0] - 2 * pad, shape[1] - 2 * pad)) < 0.45
        m3[pad:-pad, pad:-pad] = inner
        out.append(("random", m3))
        # separated rows: pixels only every fourth row (row offsets of 4, 8, ...)
        m4 = np.ones(shape, dtype=bool)
        m4[pad:-pad:4, pad:-pad] = False
        out.append(("rows4", m4))
        # a single column (only vertical offsets)
        m5 = np.ones(shape, dtype=bool)
        m5[pad:-pad, shape[1] // 2] = False
        out.append(("column", m5))
        # a single row
        m6 = np.ones(shape, dtype=bool)
        m6[shape[0] // 2, pad:-pad] = False
        out.append(("row", m6))
    # single pixel / empty
    m = np.ones((13, 13), dtype=bool)
    m[6, 6] = False
    out.append(("single", m))
    out.append(("empty", np.ones((13, 13), dtype=bool)))
    # two pixels far apart / exactly on the overlap boundary
    for dy in (1, 2, 3, 4, 5, 6):
        m = np.ones((19, 13), dtype=bool)
        m[6, 6] = False
        m[6 + dy, 6] = False
        out.append((f"pair_dy{dy}", m))
    return out


MASKS = masks()

for mname, mask_arr in MASKS:
    idx = native_for_slim(mask_arr)
    for ks in kernel_shapes:
        for signed in (False, True):
            kernel = rng.normal(size=ks) if signed else rng.uniform(0.0, 1.0, size=ks)
            # noise map zero in masked pixels (library convention) and fully positive (direct-call variant)
            for pad_zero in (True, False):
                noise = padded_noise(mask_arr, rng, pad_zero=pad_zero)
                call(
                    f"direct/{mname}/{mask_arr.shape}/{ks}/{signed}/{pad_zero}",
                    noise_map_native=noise,
                    kernel_native=kernel,
                    native_index_for_slim_index=idx,
                )

# kernels containing exact zeros (zero-valued overlaps are dropped from the preload) and sparse kernels
for mname, mask_arr in MASKS[:6]:
    idx = native_for_slim(mask_arr)
    noise = padded_noise(mask_arr, rng)
    for ks in [(5, 3), (3, 5), (5, 5), (7, 3)]:
        kernel = rng.uniform(size=ks)
        kernel[rng.uniform(size=ks) < 0.5] = 0.0
        call(f"zeros/{mname}/{ks}", noise_map_native=noise, kernel_native=kernel, native_index_for_slim_index=idx)
        kernel = np.zeros(ks)
        kernel[0, 0] = 1.0
        kernel[-1, -1] = -2.0
        call(f"corners/{mname}/{ks}", noise_map_native=noise, kernel_native=kernel, native_index_for_slim_index=idx)
        call(f"allzero/{mname}/{ks}", noise_map_native=noise, kernel_native=np.zeros(ks), native_index_for_slim_index=idx)

# ---------------------------------------------------------------------------------------------------------------------
# 2) direct calls with index arrays that are NOT raster ordered (shuffled, reversed, column-major, duplicated),
#    other dtypes / containers, and malformed inputs (exception types must agree)
# ---------------------------------------------------------------------------------------------------------------------

for mname, mask_arr in [MASKS[0], MASKS[2], MASKS[4], MASKS[8], MASKS[15]]:
    base = native_for_slim(mask_arr)
    noise = padded_noise(mask_arr, rng)
    for ks in [(3, 3), (5, 3), (3, 5), (7, 3), (4, 2), (1, 5), (5, 1)]:
        kernel = rng.normal(size=ks)
        variants = {
            "shuffled": base[rng.permutation(len(base))],
            "reversed": base[::-1].copy(),
            "colmajor": base[np.lexsort((base[:, 0], base[:, 1]))],
            "firstlast": np.vstack([base[-1:], base[:-1]]),
            "lastswap": np.vstack([base[:-2], base[-1:], base[-2:-1]]) if len(base) > 2 else base,
            "dups": np.vstack([base[:5], base[:5], base[3:9]]),
            "uint": base.astype("uint64"),
            "uint_shuffled": base[rng.permutation(len(base))].astype("uint32"),
            "int8": base.astype("int8"),
            "int32_rev": base[::-1].astype("int32"),
            "float": base.astype("float"),
            "list": [tuple(int(v) for v in row) for row in base],
            "list_shuffled": [tuple(int(v) for v in row) for row in base[rng.permutation(len(base))]],
            "ncols3": np.hstack([base, base[:, :1]]),
            "ncols1": base[:, :1],
            "flat": base[:, 0],
            "ragged": [tuple(int(v) for v in row) for row in base[:4]] + [(1, 2, 3)],
            "outofbounds": np.vstack([base, [[10_000, 3]]]),
            "outofbounds_first": np.vstack([[[10_000, 3]], base]),
            "negative": np.vstack([base, [[-3, -2]]]),
            "empty": np.zeros((0, 2), dtype="int"),
        }
        for vname, idx in variants.items():
            call(
                f"unordered/{mname}/{ks}/{vname}",
                noise_map_native=noise,
                kernel_native=kernel,
                native_index_for_slim_index=idx,
            )

    # noise map with NaN / negative / inf entries, small noise map (index error from the kernel footprint)
    for ks in [(3, 3), (5, 3)]:
        kernel = rng.normal(size=ks)
        n2 = noise.copy()
        n2[::3, ::2] = np.nan
        call(f"nan/{mname}/{ks}", noise_map_native=n2, kernel_native=kernel, native_index_for_slim_index=base)
        n3 = noise.copy()
        n3[::2, ::3] = -1.0
        n3[1::4, 1::4] = np.inf
        call(f"neginf/{mname}/{ks}", noise_map_native=n3, kernel_native=kernel, native_index_for_slim_index=base)
        call(f"small/{mname}/{ks}", noise_map_native=noise[:8, :8], kernel_native=kernel, native_index_for_slim_index=base)

    # malformed kernels
    for kname, kernel in [
        ("1d", rng.normal(size=5)),
        ("0x0", np.zeros((0, 0))),
        ("0x3", np.zeros((0, 3))),
        ("3x0", np.zeros((3, 0))),
        ("3d", rng.normal(size=(3, 3, 2))),
        ("int", np.arange(15).reshape(5, 3) - 4),
    ]:
        call(f"badkernel/{mname}/{kname}", noise_map_native=noise, kernel_native=kernel, native_index_for_slim_index=base)

# unmasked pixels touching the array edge (kernel footprint wraps round via negative indexes / raises IndexError)
for shape in [(7, 6), (6, 9)]:
    mask_arr = np.zeros(shape, dtype=bool)
    mask_arr[2, 2] = True
    idx = native_for_slim(mask_arr)
    noise = rng.uniform(0.5, 2.0, size=shape)
    for ks in [(3, 3), (5, 3), (3, 5), (1, 3), (3, 1), (1, 1)]:
        call(f"edge/{shape}/{ks}", noise_map_native=noise, kernel_native=rng.normal(size=ks), native_index_for_slim_index=idx)
    call(f"edge_top/{shape}", noise_map_native=noise, kernel_native=rng.normal(size=(5, 3)), native_index_for_slim_index=idx[: shape[1]])

# inputs must not be modified in place
mask_arr = MASKS[1][1]
idx = native_for_slim(mask_arr)
noise = padded_noise(mask_arr, rng)
kernel = rng.normal(size=(5, 3))
idx0, noise0, kernel0 = idx.copy(), noise.copy(), kernel.copy()
out_a = call("inplace/a", noise_map_native=noise, kernel_native=kernel, native_index_for_slim_index=idx)
out_b = call("inplace/b", noise_map_native=noise, kernel_native=kernel, native_index_for_slim_index=idx)
feed("inplace/unchanged", [np.array_equal(idx, idx0), np.array_equal(noise, noise0), np.array_equal(kernel, kernel0)])
feed("inplace/distinct", [out_a[i] is out_b[i] for i in range(3)])

# ---------------------------------------------------------------------------------------------------------------------
# 3) through the public API: Imaging.w_tilde (cached) and aa.Inversion with use_w_tilde on / off
# ---------------------------------------------------------------------------------------------------------------------


def imaging_from(mask, data_arr, noise_arr, psf_arr, pixel_scales):
    return aa.Imaging(
        data=aa.Array2D.no_mask(values=data_arr, pixel_scales=pixel_scales),
        noise_map=aa.Array2D.no_mask(values=noise_arr, pixel_scales=pixel_scales),
        psf=aa.Kernel2D.no_mask(values=psf_arr, pixel_scales=pixel_scales),
        use_normalized_psf=False,
        over_sampling=aa.OverSamplingDataset(uniform=aa.OverSamplingUniform(sub_size=1)),
    ).apply_mask(mask=mask)


def rectangular_mapper(mask, sub_size, shape_native):
    over_sampler = aa.OverSamplerUniform(mask=mask, sub_size=sub_size)
    grid = over_sampler.over_sampled_grid
    mesh_grid = aa.Mesh2DRectangular.overlay_grid(grid=grid, shape_native=shape_native)
    mapper_grids = aa.MapperGrids(mask=mask, source_plane_data_grid=grid, source_plane_mesh_grid=mesh_grid)
    return aa.MapperRectangular(
        mapper_grids=mapper_grids,
        over_sampler=over_sampler,
        border_relocator=None,
        regularization=aa.reg.Constant(coefficient=1.0),
    )


api_masks = []
m = np.ones((13, 11), dtype=bool)
m[3:10, 3:8] = False
m[6, 5] = True
api_masks.append(("hole", m, (1.0, 1.0), (0.0, 0.0)))
m = np.ones((16, 12), dtype=bool)
m[4:12, 4:8] = False
api_masks.append(("tall_aniso", m, (0.5, 2.0), (0.3, -0.7)))
m = np.ones((12, 17), dtype=bool)
m[4:8, 4:13] = rng.uniform(size=(4, 9)) < 0.3
api_masks.append(("wide_random", m, (2.0, 1.0), (1.0, 2.0)))
m = np.ones((9, 8), dtype=bool)
m[0:9, 3:5] = False  # touches top and bottom edges
api_masks.append(("edges", m, (1.0, 1.0), (0.0, 0.0)))

for mname, mask_arr, pixel_scales, origin in api_masks:
    try:
        mask = aa.Mask2D(mask=mask_arr, pixel_scales=pixel_scales, origin=origin)
    except Exception as e:  # noqa
        feed(f"api/{mname}/mask", e)
        continue
    data_arr = rng.normal(size=mask_arr.shape) + 2.0
    noise_arr = rng.uniform(0.5, 2.0, size=mask_arr.shape)
    for ks in [(3, 3), (3, 5), (5, 3), (7, 3), (5, 5), (1, 3), (3, 1)]:
        for signed in (False, True):
            psf_arr = rng.normal(size=ks) if signed else rng.uniform(size=ks)
            tag = f"api/{mname}/{ks}/{signed}"
            try:
                dataset = imaging_from(mask, data_arr, noise_arr, psf_arr, pixel_scales)
                w0 = dataset.w_tilde
                w1 = dataset.w_tilde
                feed(tag + "/cached", [w0 is w1])
                feed(tag + "/wt", [w0.curvature_preload, w0.indexes, w0.lengths, w0.noise_map_value])
            except Exception as e:  # noqa
                feed(tag + "/wt", e)
                continue
            try:
                mapper_0 = rectangular_mapper(mask, 2, (4, 3))
                mapper_1 = rectangular_mapper(mask, 1, (3, 3))
                for objs in ([mapper_0], [mapper_0, mapper_1]):
                    for use_w_tilde in (True, False):
                        inv = aa.Inversion(
                            dataset=dataset,
                            linear_obj_list=objs,
                            settings=aa.SettingsInversion(use_w_tilde=use_w_tilde, use_positive_only_solver=False),
                        )
                        feed(
                            tag + f"/inv/{len(objs)}/{use_w_tilde}",
                            [
                                inv.data_vector,
                                inv.curvature_matrix,
                                inv.curvature_reg_matrix,
                                inv.reconstruction,
                                np.array(inv.mapped_reconstructed_data),
                            ],
                        )
            except Exception as e:  # noqa
                feed(tag + "/inv", e)

print("cases", N_CASES)
print("exceptions", sorted(EXC.items()))
print("digest", H.hexdigest())
