"""
Differential test for the C13-8 twin (TransformerDFT.__init__ tidy-up).

Prints a sha256 digest over everything observable from constructing and using TransformerDFT for many inputs:
attribute types / dtypes / values, aliasing with the caller's array, behaviour after the caller mutates its array
in place, exceptions for unsupported inputs. The digest must be identical on the clean tree and on the twin tree.
"""
import sys
import types
import hashlib
import warnings

warnings.simplefilter("ignore")

pylops = types.ModuleType("pylops")


class LinearOperator:
    def __init__(self, *args, **kwargs):
        pass


pylops.LinearOperator = LinearOperator
sys.modules["pylops"] = pylops

import numpy as np
import autoarray as aa

H = hashlib.sha256()
LOG = []


def put(label, value):
    if isinstance(value, np.ndarray):
        s = "nd|%s|%s|%s|" % (value.dtype, value.shape, value.flags["C_CONTIGUOUS"])
        if value.dtype == object:
            s += repr(value.tolist())
        else:
            s += np.ascontiguousarray(value).tobytes().hex()
    else:
        s = repr(value)
    line = "%s=%s" % (label, s)
    LOG.append(line)
    H.update(line.encode())


def raw(obj):
    """plain ndarray view of an ndarray or an autoarray structure"""
    if isinstance(obj, np.ndarray):
        return np.asarray(obj)
    if hasattr(obj, "_array"):
        return np.asarray(obj._array)
    return np.asarray(obj)


rng = np.random.RandomState(1234)


def masks():
    out = []
    out.append(
        (
            "3x3-square",
            aa.Mask2D.all_false(shape_native=(3, 3), pixel_scales=1.0),
        )
    )
    out.append(
        (
            "2x3-aniso-origin",
            aa.Mask2D(
                mask=[[True, False, False], [False, False, True]],
                pixel_scales=(0.3, 0.2),
                origin=(0.1, -0.2),
            ),
        )
    )
    out.append(
        (
            "4x2-edge",
            aa.Mask2D(
                mask=[[False, True], [True, True], [True, False], [False, False]],
                pixel_scales=(0.05, 0.5),
                origin=(-1.0, 2.0),
            ),
        )
    )
    out.append(
        (
            "1x1-single",
            aa.Mask2D(mask=[[False]], pixel_scales=(2.0, 3.0), origin=(0.5, 0.5)),
        )
    )
    out.append(
        (
            "3x3-all-masked",
            aa.Mask2D(mask=np.full((3, 3), True), pixel_scales=0.1),
        )
    )
    out.append(
        (
            "5x4-central",
            aa.Mask2D(
                mask=[
                    [True, True, True, True],
                    [True, False, False, True],
                    [True, False, True, True],
                    [True, False, False, True],
                    [True, True, True, True],
                ],
                pixel_scales=(0.1, 0.15),
            ),
        )
    )
    return out


def uv_inputs():
    base = np.array(
        [[100.0, -2000.0], [0.0, 0.0], [3.0e5, 1.0e5], [3.0e5, 1.0e5], [-4.0e4, 2.5e5]]
    )
    out = []
    out.append(("f64-C", lambda: base.copy()))
    out.append(("f64-F", lambda: np.asfortranarray(base.copy())))
    out.append(("f64-strided", lambda: rng_block()[::2, ::2]))
    out.append(("f64-transposed-view", lambda: np.ascontiguousarray(base.T).T))
    out.append(("f64-readonly", lambda: readonly(base.copy())))
    out.append(("f32", lambda: base.astype("float32")))
    out.append(("i64", lambda: base.astype("int64")))
    out.append(("i32", lambda: base.astype("int32")))
    out.append(("bool", lambda: np.array([[True, False], [False, True]])))
    out.append(("complex", lambda: base + 1.0j))
    out.append(("object", lambda: base.astype(object)))
    out.append(("str", lambda: np.array([["1.5", "2"], ["-3e2", "0"]])))
    out.append(("f64-single-row", lambda: base[:1].copy()))
    out.append(("f64-empty", lambda: np.zeros((0, 2))))
    out.append(("f64-3cols", lambda: np.arange(12.0).reshape(4, 3)))
    out.append(("f64-1col", lambda: np.arange(4.0).reshape(4, 1)))
    out.append(("f64-1d", lambda: np.arange(4.0)))
    out.append(("f64-0d", lambda: np.array(3.0)))
    out.append(("f64-3d", lambda: np.arange(8.0).reshape(2, 2, 2)))
    out.append(("list", lambda: base.tolist()))
    out.append(("tuple", lambda: tuple(map(tuple, base.tolist()))))
    out.append(("none", lambda: None))
    out.append(("scalar", lambda: 3.0))
    out.append(("np-matrix", lambda: np.matrix(base)))
    out.append(("masked-array", lambda: np.ma.masked_array(base, mask=base > 2e5)))
    out.append(("ndarray-subclass", lambda: base.view(MySub)))
    out.append(("aa-Grid2DIrregular", lambda: aa.Grid2DIrregular(values=base.copy())))
    out.append(("aa-ArrayIrregular", lambda: aa.ArrayIrregular(values=base[:, 0].copy())))
    out.append(
        (
            "aa-Array2D",
            lambda: aa.Array2D.no_mask(values=base[:4].copy(), pixel_scales=1.0),
        )
    )
    out.append(
        (
            "aa-Visibilities",
            lambda: aa.Visibilities(visibilities=np.array([1.0 + 2.0j, 3.0 - 1.0j])),
        )
    )
    out.append(("duck-astype-only", lambda: DuckAstype(base.copy())))
    out.append(("duck-no-kwargs", lambda: DuckStrict(base.copy())))
    return out


class MySub(np.ndarray):
    pass


class DuckAstype:
    """has astype but no shape / no __array__"""

    def __init__(self, a):
        self.a = a
        self.calls = []

    def astype(self, *args, **kwargs):
        self.calls.append((args, tuple(sorted(kwargs.items()))))
        return self.a.astype(*args, **kwargs)


class DuckStrict:
    """astype(dtype) only, records the calls; has a shape and __array__"""

    def __init__(self, a):
        self.a = a
        self.calls = []

    @property
    def shape(self):
        self.calls.append("shape")
        return self.a.shape

    def __array__(self, dtype=None, copy=None):
        self.calls.append(("__array__", repr(dtype)))
        return self.a if dtype is None else self.a.astype(dtype)

    def astype(self, dtype):
        self.calls.append(("astype", dtype))
        return self.a.astype(dtype)


def rng_block():
    return np.random.RandomState(7).uniform(-1.0e4, 1.0e4, size=(8, 4))


def readonly(a):
    a.setflags(write=False)
    return a


def mutate_in_place(uv):
    """what a caller may do to its own array after building the transformer"""
    arr = raw(uv) if not isinstance(uv, np.ndarray) else uv
    if not isinstance(arr, np.ndarray) or arr.ndim == 0 or arr.size == 0:
        return "no-mutation"
    if not arr.flags.writeable:
        return "readonly"
    try:
        if arr.dtype.kind in "fc":
            arr /= 1.0e3
            arr[...] = arr[::-1]
            return "scaled-reversed"
        if arr.dtype.kind in "iu":
            arr += 7
            return "shifted"
        if arr.dtype.kind == "b":
            arr[...] = ~arr
            return "negated"
    except Exception as e:  # pragma: no cover
        return "mutation-failed:" + type(e).__name__
    return "no-mutation"


def describe_transformer(label, t, uv):
    put(label + ".type(uv)", type(t.uv_wavelengths).__name__)
    uvr = raw(t.uv_wavelengths)
    put(label + ".uv", uvr)
    put(label + ".uv.F", bool(uvr.flags["F_CONTIGUOUS"]))
    put(label + ".uv.writeable", bool(uvr.flags.writeable))
    put(label + ".uv.owndata", bool(uvr.flags.owndata))
    caller = raw(uv) if uv is not None and not isinstance(uv, (list, tuple, float)) and not isinstance(uv, (DuckAstype, DuckStrict)) else None
    if caller is not None:
        put(label + ".uv.shares_memory", bool(np.shares_memory(uvr, caller)))
        put(label + ".uv.is_caller", t.uv_wavelengths is uv)
    put(label + ".total_visibilities", t.total_visibilities)
    put(label + ".type(total_visibilities)", type(t.total_visibilities).__name__)
    put(label + ".total_image_pixels", t.total_image_pixels)
    put(label + ".real_space_pixels", t.real_space_pixels)
    put(label + ".shape", t.shape)
    put(label + ".dtype", t.dtype)
    put(label + ".explicit", t.explicit)
    put(label + ".adjoint_scaling", t.adjoint_scaling)
    put(label + ".preload_transform", t.preload_transform)
    put(label + ".grid", raw(t.grid))
    put(label + ".type(grid)", type(t.grid).__name__)
    put(
        label + ".counts",
        (t.matvec_count, t.rmatvec_count, t.matmat_count, t.rmatmat_count),
    )
    put(label + ".attrs", sorted(t.__dict__.keys()))
    if t.preload_transform:
        put(label + ".preload_real", t.preload_real_transforms)
        put(label + ".preload_imag", t.preload_imag_transforms)
        put(
            label + ".preload_alias",
            bool(
                np.shares_memory(t.preload_real_transforms, t.preload_imag_transforms)
            ),
        )


def use_transformer(label, t, mask):
    n = mask.pixels_in_mask
    vals = np.arange(1.0, mask.shape_native[0] * mask.shape_native[1] + 1.0).reshape(
        mask.shape_native
    )
    try:
        image = aa.Array2D(values=vals, mask=mask)
        vis = t.visibilities_from(image=image)
        put(label + ".visibilities", raw(vis))
        put(label + ".type(visibilities)", type(vis).__name__)
    except Exception as e:
        put(label + ".visibilities!", type(e).__name__)
    try:
        mm = np.linspace(-1.0, 2.0, n * 3).reshape(n, 3)
        tmm = t.transform_mapping_matrix(mapping_matrix=mm)
        put(label + ".tmm", raw(tmm))
    except Exception as e:
        put(label + ".tmm!", type(e).__name__)
    try:
        nv = t.total_visibilities
        v = aa.Visibilities(
            visibilities=np.linspace(0.5, 2.0, nv) + 1.0j * np.linspace(-1.0, 1.0, nv)
        )
        im = t.image_from(visibilities=v)
        put(label + ".image", raw(im))
        put(label + ".image.native", raw(im.native))
    except Exception as e:
        put(label + ".image!", type(e).__name__)


for mask_name, mask in masks():
    for uv_name, make_uv in uv_inputs():
        for preload in (True, False):
            label = "%s|%s|preload=%s" % (mask_name, uv_name, preload)
            uv = make_uv()
            snapshot = None
            try:
                snapshot = raw(uv).copy() if isinstance(uv, np.ndarray) or hasattr(uv, "_array") else None
            except Exception:
                snapshot = None
            try:
                with warnings.catch_warnings(record=True) as w:
                    warnings.simplefilter("always")
                    t = aa.TransformerDFT(
                        uv_wavelengths=uv, real_space_mask=mask, preload_transform=preload
                    )
                put(label + ".warnings", sorted(set(x.category.__name__ for x in w)))
            except Exception as e:
                put(label + ".ctor!", (type(e).__name__, str(e)[:200]))
                if isinstance(uv, (DuckAstype, DuckStrict)):
                    put(label + ".duck.calls", uv.calls)
                continue
            if isinstance(uv, (DuckAstype, DuckStrict)):
                put(label + ".duck.calls", uv.calls)
            # the constructor must not have changed the caller's array
            if snapshot is not None:
                put(label + ".caller_unchanged", bool(np.array_equal(raw(uv), snapshot)) if snapshot.dtype != object else True)
            describe_transformer(label + ".t0", t, uv)
            use_transformer(label + ".use0", t, mask)
            # the caller mutates its own array in place: the transformer must be unaffected
            put(label + ".mutation", mutate_in_place(uv))
            describe_transformer(label + ".t1", t, uv)
            use_transformer(label + ".use1", t, mask)
            # mutating the transformer's own baselines must not write through to the caller
            try:
                own = raw(t.uv_wavelengths)
                if own.size and own.flags.writeable:
                    own += 1.0
                put(label + ".own_mutated", True)
            except Exception as e:
                put(label + ".own_mutated!", type(e).__name__)
            if snapshot is not None and snapshot.dtype != object:
                put(label + ".caller_after_own_mutation", raw(uv))
            use_transformer(label + ".use2", t, mask)

# two transformers (preload / non-preload) and a dataset sharing ONE caller array; the notes' trigger
mask = masks()[1][1]
uv = np.array(
    [[100.0, -2000.0], [0.0, 0.0], [3.0e5, 1.0e5], [3.0e5, 1.0e5], [-4.0e4, 2.5e5]]
)
tp = aa.TransformerDFT(uv_wavelengths=uv, real_space_mask=mask, preload_transform=True)
tn = aa.TransformerDFT(uv_wavelengths=uv, real_space_mask=mask, preload_transform=False)
put("shared.tp_is_tn", tp.uv_wavelengths is tn.uv_wavelengths)
put("shared.tp_shares_tn", bool(np.shares_memory(tp.uv_wavelengths, tn.uv_wavelengths)))
use_transformer("shared.tp.0", tp, mask)
use_transformer("shared.tn.0", tn, mask)
uv /= 1.0e3
uv[:] = uv[np.argsort(np.hypot(uv[:, 0], uv[:, 1]))]
use_transformer("shared.tp.1", tp, mask)
use_transformer("shared.tn.1", tn, mask)
put("shared.tp.uv", tp.uv_wavelengths)
put("shared.tn.uv", tn.uv_wavelengths)

# through the Interferometer dataset and the simulator (which keep their own reference to the caller's array)
uv = rng.uniform(-5.0e4, 5.0e4, size=(6, 2))
real_space_mask = aa.Mask2D.all_false(shape_native=(4, 3), pixel_scales=(0.2, 0.1))
for settings_cls in (aa.TransformerDFT,):
    dataset = aa.Interferometer(
        data=aa.Visibilities(visibilities=np.arange(6) + 1.0j * np.arange(6)[::-1]),
        noise_map=aa.VisibilitiesNoiseMap(visibilities=np.ones(6) + 1.0j * np.ones(6)),
        uv_wavelengths=uv,
        real_space_mask=real_space_mask,
        transformer_class=settings_cls,
    )
    put("dataset.uv_is_caller", dataset.uv_wavelengths is uv)
    put("dataset.t.uv_is_caller", dataset.transformer.uv_wavelengths is uv)
    put(
        "dataset.t.shares",
        bool(np.shares_memory(dataset.transformer.uv_wavelengths, uv)),
    )
    use_transformer("dataset.use0", dataset.transformer, real_space_mask)
    uv *= 2.0
    put("dataset.uv_after", raw(dataset.uv_wavelengths))
    put("dataset.t.uv_after", raw(dataset.transformer.uv_wavelengths))
    use_transformer("dataset.use1", dataset.transformer, real_space_mask)

try:
    sim = aa.SimulatorInterferometer(
        uv_wavelengths=uv,
        exposure_time=100.0,
        transformer_class=aa.TransformerDFT,
        noise_sigma=None,
    )
    image = aa.Array2D.no_mask(
        values=np.arange(12.0).reshape(4, 3), pixel_scales=(0.2, 0.1)
    )
    ds = sim.via_image_from(image=image)
    put("sim.data", raw(ds.data))
    put("sim.uv", raw(ds.uv_wavelengths))
    put("sim.uv_shares_caller", bool(np.shares_memory(raw(ds.uv_wavelengths), uv)))
    put("sim.uv_is_t_uv", ds.uv_wavelengths is ds.transformer.uv_wavelengths)
    put(
        "sim.uv_shares_t_uv",
        bool(np.shares_memory(raw(ds.uv_wavelengths), raw(ds.transformer.uv_wavelengths))),
    )
except Exception as e:
    put("sim!", (type(e).__name__, str(e)[:200]))

if "--dump" in sys.argv:
    print("\n".join(LOG))
print(len(LOG), H.hexdigest())
