"""
Differential test for the C14-6 twin (`array_2d_util.extracted_array_2d_from` as a block copy).

Prints a sha256 digest over every result (values, dtype, shape, flags, aliasing facts, exception types). Run on the
clean tree and on the twin tree: the digests must be identical.

    cd /tmp/wt8/C14-6 && PYTHONPATH=/tmp/wt8/C14-6 /venv/bin/python -W ignore equiv.py
"""
import hashlib
import itertools
import warnings

import numpy as np

warnings.simplefilter("ignore")

import autoarray as aa
from autoarray.structures.arrays import array_2d_util

H = hashlib.sha256()
N = [0]


def feed(*objs):
    for obj in objs:
        if isinstance(obj, np.ndarray):
            H.update(
                repr(
                    (
                        "nd",
                        obj.shape,
                        str(obj.dtype),
                        obj.flags["C_CONTIGUOUS"],
                        obj.flags["WRITEABLE"],
                        obj.flags["OWNDATA"],
                    )
                ).encode()
            )
            H.update(np.ascontiguousarray(obj).tobytes())
        else:
            H.update(repr(obj).encode())
    N[0] += 1


def run(tag, func):
    try:
        result = func()
    except BaseException as e:  # noqa
        feed(tag, "EXC", type(e).__name__)
        return None
    feed(tag, "OK")
    return result


def extract(array_2d, y0, y1, x0, x1, tag):
    before = np.array(array_2d, copy=True) if isinstance(array_2d, np.ndarray) else None
    out = run(
        (tag, y0, y1, x0, x1),
        lambda: array_2d_util.extracted_array_2d_from(
            array_2d=array_2d, y0=y0, y1=y1, x0=x0, x1=x1
        ),
    )
    if out is not None:
        feed(type(out).__name__, out)
        if isinstance(array_2d, np.ndarray):
            feed(bool(np.shares_memory(out, array_2d)))
            # input untouched
            feed(bool(np.array_equal(before, array_2d, equal_nan=True)) if before.dtype.kind in "fc" else bool(np.array_equal(before, array_2d)))
    return out


rng = np.random.RandomState(1234)

# ----------------------------------------------------------------------------------------------------------------
# 1) kernel, exhaustive windows on small arrays of many shapes (inside, overflowing each edge, fully outside,
#    empty windows, inverted windows -> negative dimensions)
# ----------------------------------------------------------------------------------------------------------------
shapes = [(1, 1), (1, 4), (4, 1), (2, 3), (3, 3), (4, 4), (5, 6), (6, 5), (3, 7)]
for shape in shapes:
    arr = rng.uniform(-5.0, 5.0, size=shape)
    arr[arr > 4.0] = 0.0
    h, w = shape
    ys = range(-3, h + 4)
    xs = range(-3, w + 4)
    for y0, y1 in itertools.product(ys, ys):
        if y1 < y0 - 1:
            continue
        for x0, x1 in itertools.product(xs, xs):
            if x1 < x0 - 1:
                continue
            extract(arr, y0, y1, x0, x1, ("exh", shape))

# far away windows / large overflow
arr = np.arange(1.0, 31.0).reshape(5, 6)
for win in [
    (-50, 60, -40, 70),
    (-50, -45, 0, 6),
    (0, 5, 100, 103),
    (100, 103, 0, 6),
    (4, 5, 5, 6),
    (4, 20, 5, 20),
    (-20, 1, -20, 1),
    (5, 9, 0, 6),
    (0, 5, 6, 9),
    (0, 5, 0, 6),
    (-1, 6, -1, 7),
]:
    extract(arr, *win, "far")

# ----------------------------------------------------------------------------------------------------------------
# 2) dtypes, special values, memory layouts, integer-like argument types
# ----------------------------------------------------------------------------------------------------------------
base = np.arange(1, 21).reshape(4, 5)
variants = {
    "int64": base.astype("int64"),
    "int8": base.astype("int8"),
    "uint16": base.astype("uint16"),
    "bool": (base % 3 == 0),
    "float32": (base / 7.0).astype("float32"),
    "float64": base / 7.0,
    "bigint": base.astype("int64") * (2**55 + 1),
    "fortran": np.asfortranarray(base / 3.0),
    "transposed": (np.arange(1.0, 21.0).reshape(5, 4)).T,
    "strided": np.arange(1.0, 161.0).reshape(8, 20)[::2, ::4],
    "reversed": (base / 3.0)[::-1, ::-1],
    "readonly": base / 9.0,
}
variants["readonly"].setflags(write=False)
special = base / 1.0
special[0, 0] = np.nan
special[3, 4] = np.inf
special[3, 0] = -np.inf
special[0, 4] = -0.0
variants["special"] = special
windows = [
    (0, 4, 0, 5),
    (1, 3, 1, 4),
    (-1, 5, -1, 6),
    (2, 6, 3, 8),
    (-2, 2, -2, 2),
    (3, 4, 4, 5),
    (3, 5, 4, 6),
    (0, 0, 0, 5),
    (2, 2, 2, 2),
    (4, 6, 0, 5),
    (0, 4, 5, 7),
]
for name, arr in variants.items():
    for win in windows:
        extract(arr, *win, ("variant", name))

# numpy integer arguments (as produced by mask.zoom_region arithmetic)
arr = base / 2.0
for win in windows:
    extract(arr, *[np.int64(v) for v in win], "np.int64 args")
    extract(arr, *[np.int32(v) for v in win], "np.int32 args")

# empty inputs
for shape in [(0, 0), (0, 4), (4, 0)]:
    arr = np.zeros(shape)
    for win in [(0, 0, 0, 0), (0, 2, 0, 2), (-1, 3, -1, 5), (1, 2, 1, 2)]:
        extract(arr, *win, ("empty", shape))

# non-integer arguments -> same exception type
arr = base / 2.0
for win in [(0.0, 2.0, 0.0, 2.0), (0, 2.5, 0, 2), (None, 2, 0, 2), (0, 2, "a", 2)]:
    extract(arr, *win, "bad args")

# results are independent, fresh, writeable arrays on repeated calls
arr = base / 2.0
a = extract(arr, -1, 5, -1, 6, "repeat")
b = extract(arr, -1, 5, -1, 6, "repeat")
feed(bool(np.shares_memory(a, b)), bool(np.array_equal(a, b)))
a[:] = -7.0
feed(arr, b)

# ----------------------------------------------------------------------------------------------------------------
# 3) class layer: Array2D.zoomed_around_mask / extent_of_zoomed_array
# ----------------------------------------------------------------------------------------------------------------


def zoom_case(tag, values, mask_2d, pixel_scales, origin, buffer):
    def build():
        mask = aa.Mask2D(mask=mask_2d, pixel_scales=pixel_scales, origin=origin)
        return aa.Array2D(values=values, mask=mask)

    array = run((tag, "build"), build)
    if array is None:
        return
    native_before = np.array(array.native).copy()

    zoomed = run((tag, "zoom", buffer), lambda: array.zoomed_around_mask(buffer=buffer))
    if zoomed is not None:
        feed(
            type(zoomed).__name__,
            np.array(zoomed.native),
            np.array(zoomed.slim),
            np.array(zoomed.mask),
            tuple(zoomed.shape_native),
            tuple(zoomed.pixel_scales),
            tuple(float(v) for v in zoomed.origin),
            tuple(float(v) for v in zoomed.mask.geometry.extent),
        )
        # a second call gives the same thing and the source array is untouched
        zoomed_2 = array.zoomed_around_mask(buffer=buffer)
        feed(np.array(zoomed_2.native), bool(np.shares_memory(np.array(zoomed_2.native), np.array(zoomed.native))))
    extent = run((tag, "extent", buffer), lambda: array.extent_of_zoomed_array(buffer=buffer))
    if extent is not None:
        feed(tuple(float(v) for v in extent))
    feed(np.array(array.native), bool(np.array_equal(native_before, np.array(array.native))))


configs = [
    ((1.0, 1.0), (0.0, 0.0)),
    ((1.0, 2.0), (0.5, -1.0)),
    ((0.3, 0.1), (-2.0, 3.5)),
    ((2.0, 0.5), (10.0, 10.0)),
]

# hand-written masks: interior, each edge, each corner, single pixel, everything unmasked, everything masked
hand = [
    ((6, 6), [(2, 2), (2, 3), (3, 2), (3, 3)]),
    ((5, 7), [(1, 2), (2, 4)]),
    ((5, 6), [(0, 0), (1, 1)]),
    ((5, 6), [(0, 3), (2, 3)]),
    ((5, 6), [(4, 2), (3, 3)]),
    ((5, 6), [(2, 5), (2, 4)]),
    ((5, 6), [(2, 0), (3, 1)]),
    ((4, 4), [(3, 3), (2, 2), (3, 2)]),
    ((4, 4), [(0, 0)]),
    ((4, 4), [(0, 3)]),
    ((4, 4), [(3, 0)]),
    ((4, 4), [(3, 3)]),
    ((7, 3), [(6, 1)]),
    ((3, 7), [(1, 6)]),
    ((7, 3), [(0, 0), (6, 2)]),
    ((3, 4), [(y, x) for y in range(3) for x in range(4)]),
    ((1, 1), [(0, 0)]),
    ((1, 5), [(0, 4)]),
    ((5, 1), [(4, 0)]),
    ((2, 2), [(1, 1), (0, 0)]),
    ((4, 5), []),
]
for (shape, unmasked), (pixel_scales, origin), buffer in itertools.product(
    hand, configs, (0, 1, 2, 5)
):
    values = np.arange(1.0, shape[0] * shape[1] + 1.0).reshape(shape)
    mask_2d = np.full(shape, True)
    for y, x in unmasked:
        mask_2d[y, x] = False
    zoom_case(("hand", shape, tuple(unmasked), pixel_scales, origin), values, mask_2d, pixel_scales, origin, buffer)

# random masks on random shapes
for i in range(150):
    shape = (int(rng.randint(1, 9)), int(rng.randint(1, 9)))
    frac = rng.choice([0.1, 0.3, 0.6, 0.9])
    mask_2d = rng.uniform(size=shape) > frac
    values = rng.normal(size=shape)
    pixel_scales, origin = configs[i % len(configs)]
    for buffer in (0, 1, 3):
        zoom_case(("rand", i), values, mask_2d, pixel_scales, origin, buffer)

# negative buffer (window smaller than the zoom region, can invert) -> same result / exception type
for shape, unmasked in hand[:8]:
    values = np.arange(1.0, shape[0] * shape[1] + 1.0).reshape(shape)
    mask_2d = np.full(shape, True)
    for y, x in unmasked:
        mask_2d[y, x] = False
    for buffer in (-1, -2):
        zoom_case(("negbuf", shape), values, mask_2d, (1.0, 2.0), (0.5, -1.0), buffer)

# slim (1D) input values + the notes' trigger explicitly
mask_2d = np.full((5, 6), True)
mask_2d[4, 2] = mask_2d[3, 3] = False
zoom_case("slim-trigger", np.array([22.0, 27.0]), mask_2d, (1.0, 2.0), (0.5, -1.0), 0)
zoom_case("slim-trigger", np.array([22.0, 27.0]), mask_2d, (1.0, 2.0), (0.5, -1.0), 1)

print("cases", N[0])
print("digest", H.hexdigest())
