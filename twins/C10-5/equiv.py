"""
Differential test for the C10-5 twin: `mask_2d_util.blurring_mask_2d_from` and its public callers.

Prints a sha256 digest over every observable result (dtype, shape, bytes, type of raised exception + message, whether the
input was mutated, whether the output aliases the input). Run it on the clean HEAD tree and on the twin tree: the two
digests must be identical.

    cd /tmp/wt8/C10-5 && PYTHONPATH=/tmp/wt8/C10-5 /venv/bin/python equiv.py
"""
import hashlib
import itertools
import collections
import logging
import warnings

import numpy as np

logging.disable(logging.CRITICAL)

warnings.filterwarnings("ignore")

import autoarray as aa
from autoarray.mask import mask_2d_util

H = hashlib.sha256()
N_CASES = 0
N_RAISED = 0
N_RETURNED = 0
PUBLIC = collections.Counter()


def feed(*items):
    for item in items:
        if isinstance(item, np.ndarray):
            H.update(str(item.dtype).encode())
            H.update(repr(item.shape).encode())
            H.update(np.ascontiguousarray(item).tobytes())
        else:
            H.update(repr(item).encode())
        H.update(b"|")


def run_util(mask, kernel):
    """One call of the kernel function; everything a caller can observe goes in the digest."""
    global N_CASES, N_RAISED, N_RETURNED
    N_CASES += 1
    before = mask.copy()
    feed("util", mask, repr(kernel))
    try:
        result = mask_2d_util.blurring_mask_2d_from(mask_2d=mask, kernel_shape_native=kernel)
    except Exception as e:  # noqa
        N_RAISED += 1
        feed("EXC", type(e).__name__, str(e))
    else:
        N_RETURNED += 1
        feed(
            "OK",
            type(result).__name__,
            result,
            bool(np.shares_memory(result, mask)),
            bool(result.flags.writeable),
        )
    feed("unchanged", bool(np.array_equal(before, mask)))


def run(tag, fn):
    global N_CASES
    N_CASES += 1
    feed(tag)
    try:
        out = fn()
    except Exception as e:  # noqa
        PUBLIC[tag + ":" + type(e).__name__] += 1
        feed("EXC", type(e).__name__, str(e))
    else:
        PUBLIC[tag + ":ok"] += 1
        for o in out if isinstance(out, tuple) else (out,):
            feed(np.array(o) if hasattr(o, "shape") else o)


rng = np.random.default_rng(20251003)

# ---------------------------------------------------------------------------------------------------------------------
# 1) exhaustive small cases: every mask of a few tiny shapes x every kernel in a grid that includes unit, even, zero and
#    negative dimensions.
# ---------------------------------------------------------------------------------------------------------------------

kernels_small = list(itertools.product(range(-2, 7), range(-2, 7)))

for shape in [(1, 1), (1, 3), (3, 1), (2, 2), (2, 3), (3, 3)]:
    n = shape[0] * shape[1]
    for bits in range(2**n):
        mask = np.array([(bits >> i) & 1 for i in range(n)], dtype=bool).reshape(shape)
        for kernel in kernels_small:
            run_util(mask, kernel)

# ---------------------------------------------------------------------------------------------------------------------
# 2) hand written edge cases.
# ---------------------------------------------------------------------------------------------------------------------

inner = np.full((9, 11), True)
inner[3:6, 4:8] = False
inner[4, 5] = True

rows = np.full((4, 7), True)
rows[0, 2:5] = False
rows[3, 1:3] = False

cols = np.full((7, 4), True)
cols[2:5, 0] = False
cols[1:3, 3] = False

frame = np.full((7, 8), False)
frame[3, 4] = True

corner = np.full((6, 6), True)
corner[0, 0] = False
corner[5, 5] = False

single = np.full((7, 9), True)
single[3, 4] = False

hand_masks = [
    inner,
    rows,
    cols,
    frame,
    corner,
    single,
    np.full((6, 5), False),
    np.full((6, 5), True),
    np.full((0, 5), True),
    np.full((5, 0), True),
    np.full((0, 0), True),
    np.full((1, 8), False),
    np.full((8, 1), False),
    inner.astype(int),
    inner.astype(float),
    np.asfortranarray(inner),
    np.full((12, 12), True)[::2, ::2],
]

hand_kernels = [
    (1, 1), (1, 3), (3, 1), (1, 5), (5, 1), (1, 7), (7, 1), (1, 9), (9, 1), (1, 11), (11, 1), (1, 13), (13, 1),
    (3, 3), (5, 3), (3, 5), (5, 5), (7, 7), (9, 3), (3, 9), (9, 11), (11, 9), (21, 21), (1, 21), (21, 1),
    (2, 2), (1, 2), (2, 1), (2, 3), (3, 2), (4, 4), (1, 4), (4, 1), (6, 2), (2, 6), (8, 10), (10, 8),
    (0, 0), (0, 3), (3, 0), (0, 1), (1, 0), (-1, 3), (3, -1), (-3, -3), (0, 30), (30, 0),
    [1, 3], [3, 1], [3, 3],
    np.array([1, 3]), np.array([5, 1]), np.array([3, 3]),
    (np.int64(1), np.int64(5)), (np.int64(4), np.int64(1)),
    (1, 1, 5), (1, 3, 7), (3, 1, 0), (3, 3, 0), (3, 3, 1), (1, 1, 0),
]

for mask in hand_masks:
    for kernel in hand_kernels:
        run_util(mask, kernel)

# same object passed repeatedly (no hidden state / caching, input never mutated)
for _ in range(3):
    run_util(inner, (1, 3))
    run_util(inner, (3, 1))
    run_util(rows, (1, 3))
    run_util(rows, (3, 1))

# ---------------------------------------------------------------------------------------------------------------------
# 3) random fuzz: random shapes (non-square), random density, optionally padded with masked rows / columns so that
#    both the returning and the raising branch are exercised, kernels with unit / even / odd dimensions.
# ---------------------------------------------------------------------------------------------------------------------

for i in range(4000):
    ny, nx = int(rng.integers(1, 13)), int(rng.integers(1, 13))
    density = rng.choice([0.05, 0.3, 0.6, 0.95])
    mask = rng.random((ny, nx)) < density
    pad = rng.integers(0, 5, size=4)
    if rng.random() < 0.75:
        mask = np.pad(
            mask, ((int(pad[0]), int(pad[1])), (int(pad[2]), int(pad[3]))), constant_values=True
        )
    choice = rng.random()
    if choice < 0.35:
        k = int(rng.integers(1, 10))
        kernel = (1, k) if rng.random() < 0.5 else (k, 1)
    elif choice < 0.9:
        kernel = (int(rng.integers(1, 10)), int(rng.integers(1, 10)))
    else:
        kernel = (int(rng.integers(-3, 10)), int(rng.integers(-3, 10)))
    run_util(mask, kernel)

# ---------------------------------------------------------------------------------------------------------------------
# 4) public callers: Mask2D.derive_mask.blurring_from, Grid2D.blurring_grid_from, Convolver, Imaging padding.
# ---------------------------------------------------------------------------------------------------------------------

public_kernels = [(1, 1), (1, 3), (3, 1), (1, 5), (5, 1), (3, 3), (5, 3), (3, 5), (7, 1), (1, 7), (9, 3), (2, 3), (3, 4)]

for mask in [inner, rows, cols, frame, corner, single, np.full((6, 5), False), np.full((6, 5), True)]:
    for pixel_scales, origin in [(1.0, (0.0, 0.0)), ((2.0, 0.5), (1.0, -1.0)), ((0.1, 0.3), (-3.0, 7.5))]:
        for kernel in public_kernels:

            def blurring(mask=mask, pixel_scales=pixel_scales, origin=origin, kernel=kernel):
                m = aa.Mask2D(mask=mask, pixel_scales=pixel_scales, origin=origin)
                b = m.derive_mask.blurring_from(kernel_shape_native=kernel)
                return (np.array(b), b.pixel_scales, b.origin, type(b).__name__, np.array(m))

            def blurring_grid(mask=mask, pixel_scales=pixel_scales, origin=origin, kernel=kernel):
                m = aa.Mask2D(mask=mask, pixel_scales=pixel_scales, origin=origin)
                g = aa.Grid2D.blurring_grid_from(mask=m, kernel_shape_native=kernel)
                return (np.array(g), np.array(g.mask), g.pixel_scales, g.origin)

            run("blurring_from", blurring)
            run("blurring_grid_from", blurring_grid)

for mask in [inner, single, rows, cols, np.pad(np.full((3, 4), False), 3, constant_values=True)]:
    for kernel_shape in [(1, 1), (1, 3), (3, 1), (3, 3), (5, 1), (1, 5), (5, 3), (3, 5)]:

        def convolver(mask=mask, kernel_shape=kernel_shape):
            m = aa.Mask2D(mask=mask, pixel_scales=(1.0, 2.0), origin=(0.5, -0.5))
            values = np.arange(1.0, kernel_shape[0] * kernel_shape[1] + 1.0).reshape(kernel_shape)
            kernel = aa.Kernel2D.no_mask(values=values, pixel_scales=(1.0, 2.0))
            c = aa.Convolver(mask=m, kernel=kernel)
            image = aa.Array2D(values=np.arange(float(mask.size)).reshape(mask.shape), mask=m)
            blurring_image = aa.Array2D(
                values=np.arange(float(mask.size)).reshape(mask.shape)[::-1].copy(),
                mask=aa.Mask2D(mask=c.blurring_mask, pixel_scales=(1.0, 2.0), origin=(0.5, -0.5)),
            )
            blurred = c.convolve_image(image=image, blurring_image=blurring_image)
            return (
                np.array(c.blurring_mask),
                c.pixels_in_blurring_mask,
                np.array(c.blurring_frame_1d_indexes),
                np.array(c.blurring_frame_1d_lengths),
                np.array(blurred),
            )

        run("convolver", convolver)

for shape, kernel_shape in [
    ((3, 3), (3, 3)), ((3, 3), (1, 3)), ((3, 3), (3, 1)), ((3, 3), (1, 1)), ((4, 6), (5, 1)), ((4, 6), (1, 5)),
    ((4, 6), (5, 3)), ((6, 4), (1, 3)),
]:

    def imaging(shape=shape, kernel_shape=kernel_shape):
        data = aa.Array2D.no_mask(values=np.arange(1.0, shape[0] * shape[1] + 1.0).reshape(shape), pixel_scales=1.0)
        noise = aa.Array2D.no_mask(values=np.full(shape, 2.0), pixel_scales=1.0)
        psf = aa.Kernel2D.no_mask(values=np.ones(kernel_shape), pixel_scales=1.0)
        ds = aa.Imaging(data=data, noise_map=noise, psf=psf, pad_for_convolver=True)
        return (ds.data.shape_native, np.array(ds.data.native), np.array(ds.noise_map.native), np.array(ds.mask))

    run("imaging_pad", imaging)

print(f"cases {N_CASES} (util returned {N_RETURNED}, util raised {N_RAISED})")
print("public callers:", dict(sorted(PUBLIC.items())))
print("DIGEST", H.hexdigest())
