"""
Differential test for the C03-6 twin (vectorised `mask_2d_util.blurring_mask_2d_from`).

Prints a sha256 digest over every result (values, dtype, shape, raised exception type + message, input-not-mutated
flag) of a deterministic set of inputs. The digest must be identical on the clean HEAD tree and on the twin tree.

    cd /tmp/wt8/C03-6 && PYTHONPATH=/tmp/wt8/C03-6 /venv/bin/python equiv.py
"""
import hashlib
import itertools

import numpy as np

import autoarray as aa
from autoarray.mask import mask_2d_util

H = hashlib.sha256()
N = {"calls": 0, "raised": 0}


def feed(*items):
    for item in items:
        if isinstance(item, np.ndarray):
            H.update(str(item.dtype).encode())
            H.update(repr(item.shape).encode())
            H.update(np.ascontiguousarray(item).tobytes())
        else:
            H.update(repr(item).encode())
        H.update(b"|")


def run_util(mask_2d, kernel_shape):
    """call the util function directly: result / exception, dtype, shape, and that the input is not mutated"""
    before = np.array(mask_2d, copy=True)
    N["calls"] += 1
    try:
        result = mask_2d_util.blurring_mask_2d_from(
            mask_2d=mask_2d, kernel_shape_native=kernel_shape
        )
        feed("ok", type(result).__name__, result, bool(result.flags["C_CONTIGUOUS"]), bool(result.flags["WRITEABLE"]))
        feed(bool(np.shares_memory(result, mask_2d)))
    except Exception as e:  # noqa
        N["raised"] += 1
        feed("exc", type(e).__name__, str(e))
    feed(bool(np.array_equal(before, np.asarray(mask_2d))), str(np.asarray(mask_2d).dtype))


rng = np.random.default_rng(20240306)

# --- 1. exhaustive small cases: every mask shape 0..4 x 0..4 (random fill at several densities) x kernels -2..7 ----

kernel_sizes = list(range(-2, 8))

for ny, nx in itertools.product(range(0, 5), range(0, 5)):
    for density in (0.0, 0.3, 0.7, 1.0):
        mask = rng.random((ny, nx)) < density
        for k0, k1 in itertools.product(kernel_sizes, kernel_sizes):
            run_util(mask, (k0, k1))

# --- 2. every single-unmasked-pixel position in a 6x7 frame, for all kernel shapes 1..7 (odd and even) -------------

for y, x in itertools.product(range(6), range(7)):
    mask = np.full((6, 7), True)
    mask[y, x] = False
    for k0, k1 in itertools.product(range(1, 8), range(1, 8)):
        run_util(mask, (k0, k1))

# --- 3. random masks in non-square frames; interior blobs (must not raise) and edge-touching ones (must raise) -----

for trial in range(1500):
    ny, nx = int(rng.integers(1, 16)), int(rng.integers(1, 16))
    k0, k1 = int(rng.integers(1, 10)), int(rng.integers(1, 10))
    kind = trial % 4
    mask = np.full((ny, nx), True)
    if kind == 0:
        # unmasked pixels only where the kernel fits (both for the asymmetric even-size footprint)
        y0, y1 = k0 // 2, ny - (k0 - 1) // 2
        x0, x1 = k1 // 2, nx - (k1 - 1) // 2
        if y1 > y0 and x1 > x0:
            mask[y0:y1, x0:x1] = rng.random((y1 - y0, x1 - x0)) < rng.random()
    elif kind == 1:
        # as kind 0, but one pixel too generous on a random side: exactly on the raise / no-raise boundary
        y0, y1 = k0 // 2, ny - (k0 - 1) // 2
        x0, x1 = k1 // 2, nx - (k1 - 1) // 2
        side = int(rng.integers(0, 4))
        y0 -= side == 0
        y1 += side == 1
        x0 -= side == 2
        x1 += side == 3
        y0, x0 = max(y0, 0), max(x0, 0)
        y1, x1 = min(y1, ny), min(x1, nx)
        if y1 > y0 and x1 > x0:
            mask[y0:y1, x0:x1] = rng.random((y1 - y0, x1 - x0)) < 0.5
    elif kind == 2:
        mask = rng.random((ny, nx)) < rng.random()
    else:
        mask = rng.random((ny, nx)) < 0.97
    run_util(mask, (k0, k1))
    run_util(mask, [k0, k1])
    run_util(mask, (np.int64(k0), np.int32(k1)))

# --- 4. the trigger of the seed: exactly one kernel axis of size 1, large frame, irregular mask ------------------

for (k0, k1) in [(1, 3), (1, 5), (1, 7), (3, 1), (5, 1), (7, 1), (1, 1), (1, 2), (2, 1), (1, 4), (6, 1), (1, 9)]:
    for trial in range(20):
        ny, nx = int(rng.integers(8, 20)), int(rng.integers(8, 20))
        mask = np.full((ny, nx), True)
        mask[4:-4, 5:-5] = rng.random(mask[4:-4, 5:-5].shape) < 0.5
        run_util(mask, (k0, k1))

# --- 5. unusual but legal array inputs: int / float masks (truthiness), non-contiguous views, read-only, Mask2D -----

base = np.full((9, 11), True)
base[3:6, 4:8] = False
base[4, 5] = True
base[3, 7] = True

for k in [(1, 1), (1, 3), (3, 1), (3, 3), (3, 5), (5, 3), (5, 5), (7, 7), (2, 2), (4, 3), (7, 9), (0, 3), (3, 0), (-1, 3)]:
    run_util(base, k)
    run_util(base.astype(int), k)
    run_util(base.astype(np.uint8), k)
    run_util(base.astype(float), k)
    run_util(2 * base.astype(int), k)
    run_util(np.asfortranarray(base), k)
    run_util(base.T, k)
    run_util(np.repeat(np.repeat(base, 2, axis=0), 2, axis=1)[::2, ::2], k)
    ro = base.copy()
    ro.setflags(write=False)
    run_util(ro, k)
    run_util(np.full((9, 11), True), k)
    run_util(np.full((9, 11), False), k)

# --- 6. public API: derive_mask.blurring_from (anisotropic pixel scales, non-zero origin), incl. even -> exception --

for pixel_scales, origin in [(1.0, (0.0, 0.0)), ((0.5, 2.0), (0.3, -1.7)), ((3.0, 0.1), (10.0, 20.0))]:
    for k in [(1, 1), (1, 3), (3, 1), (1, 5), (5, 1), (1, 7), (7, 1), (3, 3), (3, 5), (5, 5), (7, 7), (2, 3), (3, 4), (9, 9)]:
        for m in [base, np.pad(base, 2, constant_values=True), base[1:-1, 2:-2]]:
            mask = aa.Mask2D(mask=m, pixel_scales=pixel_scales, origin=origin)
            N["calls"] += 1
            try:
                blurring = mask.derive_mask.blurring_from(kernel_shape_native=k)
                feed("ok", type(blurring).__name__, np.array(blurring), blurring.pixel_scales, blurring.origin)
                # repeated call on the same (shared) mask object gives the same answer and leaves the mask alone
                again = mask.derive_mask.blurring_from(kernel_shape_native=k)
                feed(bool(np.array_equal(np.array(again), np.array(blurring))))
                feed(np.array(mask))
            except Exception as e:  # noqa
                N["raised"] += 1
                feed("exc", type(e).__name__, str(e))

# --- 7. Convolver: blurring tables and blurred images for kernels with a size-1 axis and controls ------------------

big = np.pad(base, 2, constant_values=True)
native = rng.normal(size=big.shape)

for k0, k1 in [(1, 1), (1, 3), (3, 1), (1, 5), (5, 1), (7, 1), (1, 7), (3, 3), (3, 5), (5, 3), (5, 5), (7, 7)]:
    kernel_2d = rng.normal(size=(k0, k1))
    mask = aa.Mask2D(mask=big, pixel_scales=(1.0, 2.0), origin=(0.5, -0.5))
    kernel = aa.Kernel2D.no_mask(values=kernel_2d, pixel_scales=(1.0, 2.0))
    N["calls"] += 1
    try:
        convolver = aa.Convolver(mask=mask, kernel=kernel)
        feed(
            np.array(convolver.blurring_mask),
            convolver.pixels_in_blurring_mask,
            np.array(convolver.blurring_frame_1d_indexes),
            np.array(convolver.blurring_frame_1d_kernels),
            np.array(convolver.blurring_frame_1d_lengths),
        )
        blurring_mask = mask.derive_mask.blurring_from(kernel_shape_native=(k0, k1))
        image = aa.Array2D(values=native, mask=mask)
        blurring_image = aa.Array2D(values=native, mask=blurring_mask)
        feed(np.array(convolver.convolve_image(image=image, blurring_image=blurring_image)))
        feed(np.array(convolver.convolve_image_no_blurring(image=image)))
    except Exception as e:  # noqa
        N["raised"] += 1
        feed("exc", type(e).__name__, str(e))

print("calls", N["calls"], "raised", N["raised"])
print("digest", H.hexdigest())
