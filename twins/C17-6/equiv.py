"""
Differential test for `autoarray.structures.decorators.project_grid.project_grid`.

Prints a sha256 digest over every observable of many decorated calls (result type, values, mask, pixel scales,
origin, the grid that was handed to the user function, raised exception types). Run on the clean tree and on the
twin tree: the two digests must be identical.

    cd /tmp/wt8/C17-6 && PYTHONPATH=/tmp/wt8/C17-6 /venv/bin/python equiv.py
"""
import hashlib
import os
import sys
import tempfile
import warnings

warnings.filterwarnings("ignore")

import logging

logging.disable(logging.CRITICAL)

import numpy as np

from autoconf import conf
import autoarray as aa
from autoarray.structures.grids.uniform_2d import Grid2D
from autoarray.structures.grids.uniform_1d import Grid1D
from autoarray.structures.grids.irregular_2d import Grid2DIrregular

H = hashlib.sha256()
N_RECORDS = [0]
N_EXC = [0]


def rec(*items):
    for item in items:
        H.update(repr(item).encode())
        H.update(b"|")
    N_RECORDS[0] += 1


def describe(x):
    """Deterministic description of any result / intermediate object."""
    out = [type(x).__module__ + "." + type(x).__name__]
    try:
        arr = np.array(x)
        out.append(str(arr.dtype))
        out.append(arr.shape)
        out.append(hashlib.sha256(np.ascontiguousarray(arr).tobytes()).hexdigest())
    except Exception as e:  # pragma: no cover
        out.append("noarray:" + type(e).__name__)
    for name in ["pixel_scales", "pixel_scale", "origin", "shape_native", "shape_slim"]:
        try:
            out.append((name, repr(getattr(x, name))))
        except Exception as e:
            out.append((name, "EXC:" + type(e).__name__))
    try:
        mask = x.mask
        out.append(("mask", type(mask).__name__, np.array(mask).shape, np.array(mask).tobytes().hex()))
    except Exception as e:
        out.append(("mask", "EXC:" + type(e).__name__))
    return out


# ---------------------------------------------------------------------------------------------------------------
# user functions (non radially symmetric), recording the grid they receive
# ---------------------------------------------------------------------------------------------------------------

CALLS = []


def values_1d(grid):
    g = np.array(grid)
    return 3.0 * g[:, 0] + 0.5 * g[:, 1] ** 2.0 + 7.0 * g[:, 1] + 0.1 * g[:, 0] * g[:, 1]


def make_profile_class(mode):
    class P:
        @aa.grid_dec.project_grid
        def f(self, grid, *args, **kwargs):
            """docstring of f"""
            CALLS.append((describe(grid), repr(args), repr(sorted(kwargs.items()))))
            g = np.array(grid)
            if mode == "1d":
                v = values_1d(grid)
                for a in args:
                    v = v + a
                for k in sorted(kwargs):
                    v = v * kwargs[k]
                return v
            if mode == "2d":
                return np.stack((values_1d(grid), -2.0 * g[:, 1] + g[:, 0]), axis=-1)
            if mode == "3d":
                return np.zeros((g.shape[0], 2, 2))
            if mode == "0d":
                return np.float64(values_1d(grid).sum())
            if mode == "raise":
                raise KeyError("user function failure")
            if mode == "list":
                return list(values_1d(grid))
            if mode == "structure":
                return aa.ArrayIrregular(values=values_1d(grid))

    P.__name__ = "P_" + mode
    return P


MODES = ["1d", "2d", "3d", "0d", "raise", "list", "structure"]
CLASSES = {m: make_profile_class(m) for m in MODES}


class Raiser:
    def __init__(self, e):
        self.e = e


def make_obj(cls, centre, angle):
    """centre / angle: value, "MISSING" (no attribute), or Raiser (property raising)."""
    has_prop = isinstance(centre, Raiser) or isinstance(angle, Raiser)
    if has_prop:
        ns = {}
        if isinstance(centre, Raiser):
            ce = centre.e

            def _c(self, ce=ce):
                raise ce("centre property")

            ns["centre"] = property(_c)
        if isinstance(angle, Raiser):
            ae = angle.e

            def _a(self, ae=ae):
                raise ae("angle property")

            ns["angle"] = property(_a)
        cls = type(cls.__name__ + "_prop", (cls,), ns)
    obj = cls()
    if not isinstance(centre, (Raiser, str)) or (isinstance(centre, str) and centre != "MISSING"):
        obj.centre = centre
    if not isinstance(angle, (Raiser, str)) or (isinstance(angle, str) and angle != "MISSING"):
        obj.angle = angle
    return obj


class DynAttr:
    """Attributes served through __getattr__ only."""

    def __init__(self, table):
        self.__dict__["_table"] = table

    def __getattr__(self, name):
        try:
            return self.__dict__["_table"][name]
        except KeyError:
            raise AttributeError(name)

    @aa.grid_dec.project_grid
    def f(self, grid):
        CALLS.append((describe(grid),))
        return values_1d(grid)


class Slotted:
    __slots__ = ("centre", "angle")

    @aa.grid_dec.project_grid
    def f(self, grid):
        CALLS.append((describe(grid),))
        return values_1d(grid)


# ---------------------------------------------------------------------------------------------------------------
# grids
# ---------------------------------------------------------------------------------------------------------------


def build_grids():
    grids = []

    def add(name, fn):
        try:
            grids.append((name, fn()))
        except Exception as e:
            rec("GRIDBUILD", name, type(e).__name__)

    add("g2d_3x3", lambda: aa.Grid2D.uniform(shape_native=(3, 3), pixel_scales=1.0))
    add("g2d_4x7_aniso", lambda: aa.Grid2D.uniform(shape_native=(4, 7), pixel_scales=(0.5, 0.2)))
    add("g2d_7x4_aniso_origin", lambda: aa.Grid2D.uniform(shape_native=(7, 4), pixel_scales=(0.3, 0.9), origin=(1.3, -2.1)))
    add("g2d_1x1", lambda: aa.Grid2D.uniform(shape_native=(1, 1), pixel_scales=2.0))
    add("g2d_1x5", lambda: aa.Grid2D.uniform(shape_native=(1, 5), pixel_scales=(1.0, 0.25), origin=(0.0, 0.7)))
    add("g2d_5x1", lambda: aa.Grid2D.uniform(shape_native=(5, 1), pixel_scales=0.4))

    def masked():
        mask = aa.Mask2D(
            mask=[
                [False, False, True, False, False],
                [False, False, False, False, True],
                [True, False, False, False, False],
            ],
            pixel_scales=0.5,
            origin=(0.3, -0.2),
        )
        return aa.Grid2D.from_mask(mask=mask)

    add("g2d_masked_edges", masked)

    def masked_single():
        mask = np.full((4, 6), True)
        mask[3, 5] = False
        return aa.Grid2D.from_mask(mask=aa.Mask2D(mask=mask, pixel_scales=(0.7, 0.3), origin=(-1.0, 2.0)))

    add("g2d_masked_single_corner", masked_single)

    def masked_circ():
        mask = aa.Mask2D.circular(shape_native=(9, 8), pixel_scales=(0.2, 0.35), radius=0.7, centre=(0.1, -0.1))
        return aa.Grid2D.from_mask(mask=mask)

    add("g2d_masked_circular", masked_circ)

    def oversampled():
        return aa.Grid2D.uniform(shape_native=(3, 4), pixel_scales=0.6, over_sample_size=2)

    add("g2d_oversampled", oversampled)

    add("g1d_uniform", lambda: aa.Grid1D.uniform(shape_native=(5,), pixel_scales=0.5))
    add("g1d_uniform_origin", lambda: aa.Grid1D.uniform(shape_native=(4,), pixel_scales=1.5, origin=(-0.7,)))
    add("g1d_single", lambda: aa.Grid1D.uniform(shape_native=(1,), pixel_scales=1.0))
    add("g1d_zero_to_one", lambda: aa.Grid1D.uniform_from_zero(shape_native=(4,), pixel_scales=0.3))

    def g1d_masked():
        mask = aa.Mask1D(mask=[True, False, False, True, False, False], pixel_scales=(0.5,), origin=(0.4,))
        return aa.Grid1D.from_mask(mask=mask)

    add("g1d_masked", g1d_masked)
    add("g1d_no_mask", lambda: aa.Grid1D.no_mask(values=[-1.0, 0.5, 2.0], pixel_scales=1.0))

    add("irr_3", lambda: aa.Grid2DIrregular(values=[(1.0, 2.0), (-0.5, 0.25), (0.0, 0.0)]))
    add("irr_1", lambda: aa.Grid2DIrregular(values=[(0.3, -0.4)]))
    add("irr_0", lambda: aa.Grid2DIrregular(values=np.zeros((0, 2))))
    add(
        "irr_uniform",
        lambda: aa.Grid2DIrregularUniform(
            values=[(1.0, 1.0), (1.0, 2.0), (2.0, 1.0)], shape_native=(3, 3), pixel_scales=1.0
        ),
    )

    add("ndarray", lambda: np.array([[1.0, 2.0], [3.0, 4.0]]))
    add("list", lambda: [(1.0, 2.0), (3.0, 4.0)])
    add("none", lambda: None)
    add("array2d", lambda: aa.Array2D.no_mask(values=[[1.0, 2.0], [3.0, 4.0]], pixel_scales=1.0))
    add("array1d", lambda: aa.Array1D.no_mask(values=[1.0, 2.0, 3.0], pixel_scales=1.0))
    add("mask2d", lambda: aa.Mask2D.all_false(shape_native=(3, 3), pixel_scales=1.0))

    # user-defined sub-classes
    class MyGrid2D(Grid2D):
        pass

    class MyGrid1D(Grid1D):
        pass

    class MyIrr(Grid2DIrregular):
        pass

    # pathological hybrids (multiple inheritance): dispatch priority must stay Grid2D > Grid2DIrregular > Grid1D
    class Hyb2DIrr(Grid2D, Grid2DIrregular):
        pass

    class HybIrr2D(Grid2DIrregular, Grid2D):
        pass

    class Hyb1DIrr(Grid1D, Grid2DIrregular):
        pass

    class HybIrr1D(Grid2DIrregular, Grid1D):
        pass

    class Hyb2D1D(Grid2D, Grid1D):
        pass

    class Hyb1D2D(Grid1D, Grid2D):
        pass

    def recast(builder, cls):
        def fn():
            g = builder()
            g.__class__ = cls
            return g

        return fn

    b2d = lambda: aa.Grid2D.uniform(shape_native=(3, 4), pixel_scales=(0.5, 0.7), origin=(0.2, 0.1))
    b1d = lambda: aa.Grid1D.uniform(shape_native=(4,), pixel_scales=0.5, origin=(0.3,))
    birr = lambda: aa.Grid2DIrregular(values=[(1.0, 2.0), (-0.5, 0.25)])

    add("sub_my2d", recast(b2d, MyGrid2D))
    add("sub_my1d", recast(b1d, MyGrid1D))
    add("sub_myirr", recast(birr, MyIrr))
    for hname, hcls in [
        ("Hyb2DIrr", Hyb2DIrr),
        ("HybIrr2D", HybIrr2D),
        ("Hyb1DIrr", Hyb1DIrr),
        ("HybIrr1D", HybIrr1D),
        ("Hyb2D1D", Hyb2D1D),
        ("Hyb1D2D", Hyb1D2D),
    ]:
        for bname, b in [("from2d", b2d), ("from1d", b1d), ("fromirr", birr)]:
            add(f"hyb_{hname}_{bname}", recast(b, hcls))

    return grids


# ---------------------------------------------------------------------------------------------------------------
# attribute values
# ---------------------------------------------------------------------------------------------------------------

CENTRES = [
    ("c_tuple", (0.1, -0.3)),
    ("c_zero", (0.0, 0.0)),
    ("c_none", None),
    ("c_missing", "MISSING"),
    ("c_far", (5.0, 7.5)),
    ("c_list", [0.25, 0.5]),
    ("c_nparray", np.array([-0.2, 0.4])),
    ("c_edge", (1.5, 1.5)),
]

ANGLES = [
    ("a_0.0", 0.0),
    ("a_-0.0", -0.0),
    ("a_int0", 0),
    ("a_np0", np.float64(0.0)),
    ("a_npint0", np.int64(0)),
    ("a_false", False),
    ("a_true", True),
    ("a_30", 30.0),
    ("a_-75", -75.0),
    ("a_-90", -90.0),
    ("a_360", 360.0),
    ("a_int45", 45),
    ("a_none", None),
    ("a_missing", "MISSING"),
    ("a_tiny", 1.0e-300),
    ("a_nan", float("nan")),
    ("a_0darray", np.array(0.0)),
    ("a_0darray_20", np.array(20.0)),
    ("a_1array0", np.array([0.0])),
    ("a_1array10", np.array([10.0])),
    ("a_emptyarray", np.array([])),
    ("a_2array", np.array([0.0, 10.0])),
    ("a_str", "abc"),
    ("a_emptystr", ""),
    ("a_list", [1.0]),
    ("a_emptylist", []),
    ("a_tuple", ()),
    ("a_complex0", 0j),
]

SPECIAL = [
    ("c_raises_value", Raiser(ValueError), ("a_30", 30.0)),
    ("c_raises_attr", Raiser(AttributeError), ("a_0.0", 0.0)),
    ("c_raises_key", Raiser(KeyError), ("a_raises_type", Raiser(TypeError))),
    ("c_tuple", (0.1, -0.3), ("a_raises_runtime", Raiser(RuntimeError))),
    ("c_tuple", (0.1, -0.3), ("a_raises_attr", Raiser(AttributeError))),
    ("c_none", None, ("a_raises_zero", Raiser(ZeroDivisionError))),
]


def run_call(tag, obj, grid, *args, **kwargs):
    CALLS.clear()
    try:
        result = obj.f(grid, *args, **kwargs)
        rec(tag, "OK", describe(result), list(CALLS))
    except BaseException as e:  # noqa
        if isinstance(e, (KeyboardInterrupt, SystemExit)):
            raise
        N_EXC[0] += 1
        rec(tag, "EXC", type(e).__module__ + "." + type(e).__name__, list(CALLS))


def main():
    for remove_centre in [False, True]:
        config_path = tempfile.mkdtemp(prefix="c17_equiv_config_")
        with open(os.path.join(config_path, "general.yaml"), "w") as f:
            f.write("grid:\n  remove_projected_centre: %s\n" % ("true" if remove_centre else "false"))
        conf.instance.push(new_path=config_path, output_path=tempfile.mkdtemp())

        grids = build_grids()
        rec("NGRIDS", len(grids), [n for n, _ in grids])

        # 1) every grid x every angle x a few centres, 1d function
        for gname, grid in grids:
            for aname, angle in ANGLES:
                for cname, centre in CENTRES[:4]:
                    obj = make_obj(CLASSES["1d"], centre, angle)
                    run_call((remove_centre, "A", gname, aname, cname), obj, grid)

        # 2) every grid x every centre x a few angles, all modes
        for gname, grid in grids:
            for cname, centre in CENTRES:
                for aname, angle in ANGLES[:1] + ANGLES[7:9] + ANGLES[12:14]:
                    for mode in MODES:
                        obj = make_obj(CLASSES[mode], centre, angle)
                        run_call((remove_centre, "B", gname, aname, cname, mode), obj, grid)

        # 3) raising properties (order of evaluation / which exception wins), on all grids incl. invalid ones
        for gname, grid in grids:
            for cname, centre, (aname, angle) in SPECIAL:
                for mode in ["1d", "raise"]:
                    obj = make_obj(CLASSES[mode], centre, angle)
                    run_call((remove_centre, "C", gname, aname, cname, mode), obj, grid)

        # 4) extra positional / keyword arguments, keyword `grid`
        for gname, grid in grids:
            obj = make_obj(CLASSES["1d"], (0.1, -0.3), 0.0)
            run_call((remove_centre, "D1", gname), obj, grid, 2.0)
            run_call((remove_centre, "D2", gname), obj, grid, 2.0, 3.0, scale=0.5)
            run_call((remove_centre, "D3", gname), obj, grid, scale=0.5, other=2.0)
            CALLS.clear()
            try:
                result = obj.f(grid=grid, scale=4.0)
                rec((remove_centre, "D4", gname), "OK", describe(result), list(CALLS))
            except Exception as e:
                rec((remove_centre, "D4", gname), "EXC", type(e).__name__, list(CALLS))

        # 5) __getattr__ based / slotted objects
        for gname, grid in grids:
            for table in [
                {},
                {"centre": (0.2, 0.1)},
                {"angle": 0.0},
                {"angle": 15.0, "centre": None},
                {"angle": None, "centre": (1.0, -1.0)},
                {"angle": 0.0, "centre": (1.0, -1.0)},
            ]:
                run_call((remove_centre, "E", gname, repr(sorted(table.items(), key=lambda kv: kv[0]))), DynAttr(table), grid)
            s = Slotted()
            run_call((remove_centre, "F0", gname), s, grid)  # slots unset -> AttributeError -> "missing"
            s.angle = 0.0
            run_call((remove_centre, "F1", gname), s, grid)
            s.centre = (0.3, 0.3)
            run_call((remove_centre, "F2", gname), s, grid)

        # 6) repeated calls on a shared object / shared grid, mutation of attributes in between, input grid unchanged
        for gname, grid in grids:
            obj = make_obj(CLASSES["1d"], (0.1, -0.3), 0.0)
            before = describe(grid)
            for angle in [0.0, 10.0, 0.0, None, 0.0]:
                obj.angle = angle
                run_call((remove_centre, "G", gname, repr(angle)), obj, grid)
            for centre in [None, (0.0, 0.0), (0.4, 0.4)]:
                obj.centre = centre
                run_call((remove_centre, "G2", gname, repr(centre)), obj, grid)
            rec((remove_centre, "G3", gname), before == describe(grid), repr(obj.centre), repr(obj.angle))

        # 7) wrapper metadata
        f = CLASSES["1d"].f
        rec("META", f.__name__, f.__doc__, f.__qualname__, hasattr(f, "__wrapped__"))

        # 8) random sweep
        rng = np.random.RandomState(1234)
        for i in range(150):
            shape = (int(rng.randint(1, 9)), int(rng.randint(1, 9)))
            ps = (float(rng.uniform(0.1, 2.0)), float(rng.uniform(0.1, 2.0)))
            origin = (float(rng.uniform(-2, 2)), float(rng.uniform(-2, 2)))
            mask = rng.rand(*shape) < 0.3
            if mask.all():
                mask[0, 0] = False
            grid = aa.Grid2D.from_mask(mask=aa.Mask2D(mask=mask, pixel_scales=ps, origin=origin))
            centre = (float(rng.uniform(-3, 3)), float(rng.uniform(-3, 3)))
            angle = [0.0, -0.0, float(rng.uniform(-180, 180)), None, "MISSING"][i % 5]
            centre = [centre, None, "MISSING"][(i // 5) % 3]
            obj = make_obj(CLASSES["1d"], centre, angle)
            run_call((remove_centre, "R2D", i), obj, grid)

            n = int(rng.randint(1, 9))
            m1 = rng.rand(n) < 0.3
            if m1.all():
                m1[0] = False
            g1 = aa.Grid1D.from_mask(
                mask=aa.Mask1D(mask=m1, pixel_scales=(float(rng.uniform(0.1, 2.0)),), origin=(float(rng.uniform(-2, 2)),))
            )
            run_call((remove_centre, "R1D", i), obj, g1)

            gi = aa.Grid2DIrregular(values=rng.uniform(-3, 3, size=(int(rng.randint(0, 6)), 2)))
            run_call((remove_centre, "RIRR", i), obj, gi)

    print("records", N_RECORDS[0], "exceptions", N_EXC[0])
    print("DIGEST", H.hexdigest())


if __name__ == "__main__":
    main()
