"""
Differential test for the C17-8 twin (`AbstractMaker.result` dispatch table).

Prints a sha256 digest over the observable behaviour of the `to_array`, `to_grid`, `to_vector_yx` decorators and of
`AbstractMaker.result` itself for many input grids: exact `Grid2D` / `Grid2DIrregular` / `Grid1D` instances, subclasses
of each (library `Grid2DIrregularUniform`, user subclasses, sub-subclasses, a class deriving from two of the basic
classes), non-grid inputs (ndarray, list, tuple, None), scalar / list / empty-list results, functions that raise, the
un-overridden `via_grid_1d` of `VectorYXMaker`, call counts of the decorated function and the args / kwargs it saw.

Run on the clean tree and on the twin tree: the digests must be identical.
"""
import hashlib
import warnings

warnings.filterwarnings("ignore")

import numpy as np

import autoarray as aa
from autoarray.structures.decorators.abstract import AbstractMaker
from autoarray.structures.decorators.to_array import ArrayMaker
from autoarray.structures.decorators.to_grid import GridMaker
from autoarray.structures.decorators.to_vector_yx import VectorYXMaker

LINES = []


def describe(value, depth=0):
    """A deterministic text description of a result, including its exact class and the structure it is paired to."""
    if isinstance(value, (list, tuple)):
        return (
            type(value).__name__
            + "["
            + ", ".join(describe(entry, depth + 1) for entry in value)
            + "]"
        )
    if value is None or isinstance(value, (str, int, float, bool)):
        return repr(value)
    text = type(value).__module__ + "." + type(value).__name__
    try:
        arr = np.asarray(value, dtype="float64")
        text += f" shape={arr.shape} bytes={hashlib.sha256(np.ascontiguousarray(arr).tobytes()).hexdigest()[:16]}"
    except Exception as e:  # pragma: no cover
        text += f" <no array: {type(e).__name__}>"
    for attr in ("slim", "native"):
        try:
            sub = np.asarray(getattr(value, attr), dtype="float64")
            text += f" {attr}={sub.shape}:{hashlib.sha256(np.ascontiguousarray(sub).tobytes()).hexdigest()[:12]}"
        except Exception as e:
            text += f" {attr}=<{type(e).__name__}>"
    try:
        mask = value.mask
        marr = np.asarray(mask)
        text += (
            f" mask={type(mask).__name__}{marr.shape}:{hashlib.sha256(marr.tobytes()).hexdigest()[:12]}"
            f" ps={getattr(mask, 'pixel_scales', None)} origin={getattr(mask, 'origin', None)}"
        )
    except Exception as e:
        text += f" mask=<{type(e).__name__}>"
    try:
        g = value.grid
        text += f" grid={type(g).__name__}:{hashlib.sha256(np.ascontiguousarray(np.asarray(g, dtype='float64')).tobytes()).hexdigest()[:12]}"
    except Exception as e:
        text += f" grid=<{type(e).__name__}>"
    return text


def record(label, thunk):
    try:
        out = describe(thunk())
    except BaseException as e:
        out = f"RAISED {type(e).__module__}.{type(e).__name__}: {e}"
    LINES.append(f"{label} -> {out}")


# ---------------------------------------------------------------------------------------------------------------------
# decorated profile
# ---------------------------------------------------------------------------------------------------------------------


class Profile:
    def __init__(self, centre=(0.0, 0.0), angle=None):
        self.centre = centre
        self.angle = angle
        self.calls = []

    def _note(self, name, grid, args, kwargs):
        self.calls.append(
            (
                name,
                type(grid).__name__,
                hashlib.sha256(
                    np.ascontiguousarray(np.asarray(grid, dtype="float64")).tobytes()
                ).hexdigest()[:12],
                repr(args),
                repr(sorted(kwargs.items())),
            )
        )

    @aa.grid_dec.to_array
    def scalar_from(self, grid, *args, **kwargs):
        self._note("scalar", grid, args, kwargs)
        grid = np.array(grid)
        return 3.0 * grid[:, 0] - 7.0 * grid[:, 1]

    @aa.grid_dec.to_array
    def scalar_list_from(self, grid, *args, **kwargs):
        self._note("scalar_list", grid, args, kwargs)
        grid = np.array(grid)
        return [grid[:, 0] + 1.0, grid[:, 1] - 1.0]

    @aa.grid_dec.to_array
    def scalar_empty_list_from(self, grid, *args, **kwargs):
        self._note("scalar_empty_list", grid, args, kwargs)
        return []

    @aa.grid_dec.to_array
    def scalar_raises_from(self, grid, *args, **kwargs):
        self._note("scalar_raises", grid, args, kwargs)
        raise ZeroDivisionError("boom")

    @aa.grid_dec.to_grid
    def yx_from(self, grid, *args, **kwargs):
        self._note("yx", grid, args, kwargs)
        grid = np.array(grid)
        return np.stack((2.0 * grid[:, 0], -grid[:, 1]), axis=-1)

    @aa.grid_dec.to_grid
    def yx_list_from(self, grid, *args, **kwargs):
        self._note("yx_list", grid, args, kwargs)
        grid = np.array(grid)
        return [np.stack((2.0 * grid[:, 0], -grid[:, 1]), axis=-1), grid + 0.5]

    @aa.grid_dec.to_vector_yx
    def vector_from(self, grid, *args, **kwargs):
        self._note("vector", grid, args, kwargs)
        grid = np.array(grid)
        return np.stack((grid[:, 1], grid[:, 0]), axis=-1)

    @aa.grid_dec.to_vector_yx
    def vector_list_from(self, grid, *args, **kwargs):
        self._note("vector_list", grid, args, kwargs)
        grid = np.array(grid)
        return [np.stack((grid[:, 1], grid[:, 0]), axis=-1), 2.0 * grid]


METHODS = [
    "scalar_from",
    "scalar_list_from",
    "scalar_empty_list_from",
    "scalar_raises_from",
    "yx_from",
    "yx_list_from",
    "vector_from",
    "vector_list_from",
]


# ---------------------------------------------------------------------------------------------------------------------
# grid classes
# ---------------------------------------------------------------------------------------------------------------------


class TaggedGrid2D(aa.Grid2D):
    def __init__(self, values, mask, tag="", **kwargs):
        super().__init__(values=values, mask=mask, **kwargs)
        self.tag = tag


class TaggedTaggedGrid2D(TaggedGrid2D):
    pass


class MyIrregular(aa.Grid2DIrregular):
    pass


class MyIrregularUniform(aa.Grid2DIrregularUniform):
    pass


class MyGrid1D(aa.Grid1D):
    pass


class MyMyGrid1D(MyGrid1D):
    pass


def build_grids():
    grids = {}

    masks = {
        "mask_3x4_origin": aa.Mask2D(
            mask=[
                [True, False, True, True],
                [False, False, True, False],
                [True, True, False, False],
            ],
            pixel_scales=(0.5, 0.5),
            origin=(1.0, -2.0),
        ),
        "mask_4x3_aniso_edges": aa.Mask2D(
            mask=[
                [False, True, False],
                [True, True, True],
                [False, True, True],
                [False, False, False],
            ],
            pixel_scales=(2.0, 0.25),
        ),
        "mask_single_pixel": aa.Mask2D(
            mask=[[True, True, True], [True, False, True], [True, True, True]],
            pixel_scales=1.0,
        ),
        "mask_all_unmasked_1x1": aa.Mask2D(mask=[[False]], pixel_scales=(0.1, 0.3), origin=(-1.0, 4.0)),
        "mask_all_masked": aa.Mask2D(mask=[[True, True], [True, True]], pixel_scales=1.0),
    }

    for name, mask in masks.items():
        try:
            base = aa.Grid2D.from_mask(mask=mask)
        except Exception as e:
            LINES.append(f"build Grid2D {name} RAISED {type(e).__name__}")
            continue
        grids[f"Grid2D[{name}]"] = base
        try:
            grids[f"TaggedGrid2D[{name}]"] = TaggedGrid2D(values=np.array(base), mask=mask, tag="lens")
            grids[f"TaggedTaggedGrid2D[{name}]"] = TaggedTaggedGrid2D(
                values=np.array(base), mask=mask, tag="src"
            )
        except Exception as e:
            LINES.append(f"build TaggedGrid2D {name} RAISED {type(e).__name__}")

    grids["Grid2D.uniform(3,5)"] = aa.Grid2D.uniform(shape_native=(3, 5), pixel_scales=(0.2, 0.7), origin=(0.3, -0.4))

    coordinate_sets = {
        "four": np.array([(1.0, -2.0), (0.5, 3.0), (-4.0, 0.25), (2.0, 2.0)]),
        "one": np.array([(0.75, -0.125)]),
    }
    for name, coordinates in coordinate_sets.items():
        grids[f"Grid2DIrregular[{name}]"] = aa.Grid2DIrregular(values=coordinates)
        grids[f"Grid2DIrregular-list[{name}]"] = aa.Grid2DIrregular(values=[tuple(c) for c in coordinates])
        grids[f"Grid2DIrregularUniform[{name}]"] = aa.Grid2DIrregularUniform(
            values=coordinates, shape_native=(9, 9), pixel_scales=1.0
        )
        grids[f"MyIrregular[{name}]"] = MyIrregular(values=coordinates)
        grids[f"MyIrregularUniform[{name}]"] = MyIrregularUniform(
            values=coordinates, shape_native=(7, 5), pixel_scales=(0.5, 2.0)
        )

    mask_1d_sets = {
        "1d_5": aa.Mask1D(mask=[True, False, False, True, False], pixel_scales=(0.5,), origin=(1.0,)),
        "1d_single": aa.Mask1D(mask=[False], pixel_scales=(2.0,)),
        "1d_edges": aa.Mask1D(mask=[False, True, True, False], pixel_scales=(1.5,), origin=(-0.5,)),
    }
    for name, mask in mask_1d_sets.items():
        base = aa.Grid1D.from_mask(mask=mask)
        grids[f"Grid1D[{name}]"] = base
        for cls in (MyGrid1D, MyMyGrid1D):
            try:
                grids[f"{cls.__name__}[{name}]"] = cls(values=np.array(base), mask=mask)
            except Exception as e:
                LINES.append(f"build {cls.__name__} {name} RAISED {type(e).__name__}")
    grids["Grid1D.uniform(4)"] = aa.Grid1D.uniform(shape_native=(4,), pixel_scales=0.75)

    # inputs that are not grids at all: the raw result of the function must come back
    grids["ndarray"] = np.array([(1.0, -2.0), (0.5, 3.0), (-4.0, 0.25)])
    grids["ndarray-single"] = np.array([(1.0, -2.0)])
    grids["list"] = [(1.0, -2.0), (0.5, 3.0)]
    grids["tuple"] = ((1.0, -2.0), (0.5, 3.0))
    grids["Array2D-as-grid"] = aa.Array2D.no_mask(values=[[1.0, 2.0], [3.0, 4.0]], pixel_scales=1.0)
    grids["Mask2D-as-grid"] = masks["mask_3x4_origin"]
    grids["VectorYX2DIrregular-as-grid"] = aa.VectorYX2DIrregular(
        values=[(1.0, 2.0), (3.0, 4.0)], grid=[(0.0, 0.0), (1.0, 1.0)]
    )

    return grids


# ---------------------------------------------------------------------------------------------------------------------
# direct tests of AbstractMaker.result with spy makers
# ---------------------------------------------------------------------------------------------------------------------


class SpyMaker(AbstractMaker):
    """Records the order of everything `result` does."""

    def __init__(self, *args, **kwargs):
        super().__init__(*args, **kwargs)
        self.log = []

    def via_grid_2d(self, result):
        self.log.append(("via_grid_2d", repr(result)))
        return ("2d", result)

    def via_grid_2d_irr(self, result):
        self.log.append(("via_grid_2d_irr", repr(result)))
        return ("irr", result)

    def via_grid_1d(self, result):
        self.log.append(("via_grid_1d", repr(result)))
        return ("1d", result)

    @property
    def evaluate_func(self):
        self.log.append(("evaluate_func",))
        return "evaluated"


class BothIrrFirst(aa.Grid2DIrregular, aa.Grid2D):
    pass


class Both2DFirst(aa.Grid2D, aa.Grid2DIrregular):
    pass


class Irr1D(aa.Grid1D, aa.Grid2DIrregular):
    pass


class OneDThen2D(aa.Grid1D, aa.Grid2D):
    pass


class DuckGrid:
    """Claims to be a Grid2D through `__class__` without being one by `type()`."""

    @property
    def __class__(self):
        return aa.Grid2D


def bare(cls):
    try:
        return cls.__new__(cls)
    except Exception:
        return object.__new__(cls)


def spy_cases():
    candidates = {
        "Grid2D": bare(aa.Grid2D),
        "Grid2DIrregular": bare(aa.Grid2DIrregular),
        "Grid2DIrregularUniform": bare(aa.Grid2DIrregularUniform),
        "Grid1D": bare(aa.Grid1D),
        "TaggedGrid2D": bare(TaggedGrid2D),
        "MyGrid1D": bare(MyGrid1D),
        "BothIrrFirst": bare(BothIrrFirst),
        "Both2DFirst": bare(Both2DFirst),
        "Irr1D": bare(Irr1D),
        "OneDThen2D": bare(OneDThen2D),
        "DuckGrid": DuckGrid(),
        "ndarray": np.zeros((2, 2)),
        "None": None,
        "class-object-Grid2D": aa.Grid2D,
        "int": 3,
        "str": "grid",
    }
    for name, grid in candidates.items():
        maker = SpyMaker(func=None, obj=None, grid=grid)
        record(f"spy[{name}] result", lambda: maker.result)
        LINES.append(f"spy[{name}] log {maker.log}")
        # a second access re-evaluates (no caching)
        record(f"spy[{name}] result again", lambda: maker.result)
        LINES.append(f"spy[{name}] log {maker.log}")

    # un-overridden via_* raise NotImplementedError only after the function has been evaluated
    class HalfMaker(AbstractMaker):
        def __init__(self, *args, **kwargs):
            super().__init__(*args, **kwargs)
            self.log = []

        @property
        def evaluate_func(self):
            self.log.append("evaluate_func")
            return 1.0

    for name in ("Grid2D", "Grid2DIrregular", "Grid2DIrregularUniform", "Grid1D", "MyGrid1D", "ndarray"):
        maker = HalfMaker(func=None, obj=None, grid=candidates[name])
        record(f"half[{name}] result", lambda: maker.result)
        LINES.append(f"half[{name}] log {maker.log}")

    # evaluate_func raising: propagates, no via called
    class RaisingMaker(SpyMaker):
        @property
        def evaluate_func(self):
            self.log.append(("evaluate_func",))
            raise KeyError("inside")

    for name in ("Grid2D", "TaggedGrid2D", "Grid2DIrregularUniform", "Grid1D", "ndarray"):
        maker = RaisingMaker(func=None, obj=None, grid=candidates[name])
        record(f"raising[{name}] result", lambda: maker.result)
        LINES.append(f"raising[{name}] log {maker.log}")

    # instance-level override of a via_* method (bound-method lookup goes through the instance)
    maker = SpyMaker(func=None, obj=None, grid=candidates["TaggedGrid2D"])
    maker.via_grid_2d = lambda result: ("instance-override", result)
    record("instance override via_grid_2d", lambda: maker.result)
    LINES.append(f"instance override log {maker.log}")


def main():
    grids = build_grids()

    profiles = {
        "default": lambda: Profile(),
        "centre+angle": lambda: Profile(centre=(0.3, -0.2), angle=30.0),
    }

    for pname, factory in profiles.items():
        for gname, grid in grids.items():
            profile = factory()
            for method in METHODS:
                record(f"{pname} | {gname} | {method}", lambda: getattr(profile, method)(grid))
                # args / kwargs are handed through untouched
                record(
                    f"{pname} | {gname} | {method} +kwargs",
                    lambda: getattr(profile, method)(grid, scale=1.5, flag=True),
                )
            # positional extras collide with the maker's own signature on HEAD (TypeError): must stay that way
            record(
                f"{pname} | {gname} | scalar_from +positional",
                lambda: profile.scalar_from(grid, 1.5),
            )
            # repeated call on the same (shared) grid object
            record(f"{pname} | {gname} | scalar_from repeat", lambda: profile.scalar_from(grid))
            LINES.append(f"{pname} | {gname} | calls {profile.calls}")
            # grid keyword form
            record(f"{pname} | {gname} | scalar_from grid=", lambda: profile.scalar_from(grid=grid))

        # the input grids must not have been modified
        for gname, grid in grids.items():
            LINES.append(f"{pname} | after | {gname} {describe(grid)}")

    # the maker classes used directly
    for maker_cls in (ArrayMaker, GridMaker, VectorYXMaker):
        for gname, grid in grids.items():

            def func(obj, g, *args, **kwargs):
                g = np.array(g)
                if maker_cls is ArrayMaker:
                    return g[:, 0] * g[:, 1]
                return g[:, ::-1] * 1.0

            record(
                f"{maker_cls.__name__} | {gname}",
                lambda: maker_cls(func=func, obj=None, grid=grid).result,
            )

    spy_cases()

    digest = hashlib.sha256("\n".join(LINES).encode()).hexdigest()
    print(f"cases {len(LINES)}")
    print(f"digest {digest}")
    return LINES


if __name__ == "__main__":
    import sys

    lines = main()
    if len(sys.argv) > 1:
        with open(sys.argv[1], "w") as f:
            f.write("\n".join(lines))
