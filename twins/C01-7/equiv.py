"""
Differential test for `autoarray.mask.mask_2d_util.mask_slim_indexes_from` (and its public consumers
`Mask2D.derive_indexes.unmasked_slim` / `masked_slim`).

Prints a deterministic sha256 digest over every result (values, dtype, shape, raised exception types, input
mutation, aliasing between calls). Run on the clean tree and on the twin tree: the two digests must be identical.

    cd /tmp/wt10/C01-7 && PYTHONPATH=/tmp/wt10/C01-7 /venv/bin/python equiv.py
"""
import hashlib
import warnings

import numpy as np

warnings.filterwarnings("ignore")

import autoarray as aa
from autoarray.mask import mask_2d_util

H = hashlib.sha256()
N_RECORDS = 0


def record(tag, value):
    global N_RECORDS
    N_RECORDS += 1
    H.update(repr(tag).encode())
    if isinstance(value, np.ndarray):
        H.update(str(value.dtype).encode())
        H.update(repr(value.shape).encode())
        H.update(np.ascontiguousarray(value).tobytes())
    else:
        H.update(repr(value).encode())
    H.update(b"|")


def call(tag, mask_2d, *args, **kwargs):
    """Call the util, record result or exception type, and record that the input was not mutated."""
    before = None
    if isinstance(mask_2d, np.ndarray):
        before = mask_2d.copy()
    try:
        result = mask_2d_util.mask_slim_indexes_from(mask_2d, *args, **kwargs)
    except Exception as e:  # noqa
        record(tag, "EXC:" + type(e).__name__)
        return None
    record(tag, np.asarray(result))
    record((tag, "type"), type(result).__name__)
    if before is not None:
        record((tag, "input-unchanged"), bool(np.array_equal(before, mask_2d, equal_nan=True)
                                              if before.dtype.kind == "f" else np.array_equal(before, mask_2d)))
        record((tag, "no-alias"), not np.shares_memory(result, mask_2d))
    return result


rng = np.random.default_rng(20240917)

shapes = [
    (1, 1), (1, 2), (2, 1), (2, 2), (2, 4), (4, 2), (2, 5), (5, 2), (3, 3), (3, 7), (7, 3), (6, 4), (4, 6),
    (1, 9), (9, 1), (7, 7), (5, 8), (8, 5), (10, 3), (3, 10), (12, 13), (13, 12), (16, 5),
    (0, 0), (0, 3), (3, 0), (0, 1), (1, 0),
]

flags = [True, False, np.True_, np.False_, 1, 0]

# ---------------------------------------------------------------------------------------------------------------
# 1) direct util calls on boolean masks: all-True, all-False, random densities, edge-touching patterns
# ---------------------------------------------------------------------------------------------------------------
for shape in shapes:
    masks = [np.full(shape, True), np.full(shape, False)]
    for density in (0.1, 0.4, 0.5, 0.8):
        masks.append(rng.random(shape) < density)
    if shape[0] > 0 and shape[1] > 0:
        # unmasked only on the border / only in the interior / single pixel in each corner
        border = np.full(shape, True)
        border[0, :] = False
        border[-1, :] = False
        border[:, 0] = False
        border[:, -1] = False
        masks.append(border)
        masks.append(~border)
        for (cy, cx) in [(0, 0), (0, -1), (-1, 0), (-1, -1)]:
            m = np.full(shape, True)
            m[cy, cx] = False
            masks.append(m)
            masks.append(~m)
        # checkerboard, single row / single column unmasked
        yy, xx = np.indices(shape)
        masks.append((yy + xx) % 2 == 0)
        r = np.full(shape, True)
        r[shape[0] // 2, :] = False
        masks.append(r)
        c = np.full(shape, True)
        c[:, shape[1] // 2] = False
        masks.append(c)

    for i, m in enumerate(masks):
        for flag in flags:
            call(("bool", shape, i, repr(flag)), m, flag)
        # default value of the keyword, keyword / positional spelling
        call(("bool-default", shape, i), m)
        call(("bool-kw", shape, i), mask_2d=m, return_masked_indexes=False)

# ---------------------------------------------------------------------------------------------------------------
# 2) other in-contract representations of a mask: 0/1 integer and float arrays, non-contiguous / F-ordered views,
#    the Mask2D wrapper itself
# ---------------------------------------------------------------------------------------------------------------
for shape in [(2, 4), (4, 2), (3, 7), (6, 4), (5, 5), (1, 6), (6, 1), (0, 3)]:
    base = rng.random(shape) < 0.45
    for dtype in (np.int8, np.int64, np.uint8, np.float64, np.float32):
        for flag in flags:
            call(("dtype", shape, np.dtype(dtype).name, repr(flag)), base.astype(dtype), flag)
    for flag in (True, False):
        call(("fortran", shape, flag), np.asfortranarray(base), flag)
        call(("transposed-view", shape, flag), base.T, flag)
        big = rng.random((shape[0] * 2 + 1, shape[1] * 3 + 2)) < 0.5
        call(("strided-view", shape, flag), big[::2, 1::3], flag)
        call(("reversed-view", shape, flag), base[::-1, ::-1], flag)
        if shape[0] > 0 and shape[1] > 0:
            call(("Mask2D-wrapper", shape, flag), aa.Mask2D(mask=base, pixel_scales=1.0), flag)
        # a trailing singleton axis still indexes to a one-element truth value
        call(("trailing-singleton", shape, flag), base[:, :, None], flag)

# ---------------------------------------------------------------------------------------------------------------
# 2b) out-of-contract values: the original compares every element with the flag (`mask_2d[y, x] == flag`), so
#     elements that are neither 0 nor 1 (2, -1, 0.5, nan, inf) belong to NEITHER list, and a flag that is neither
#     0 nor 1 (2, None, 0.5) selects nothing (or the matching non-bool elements).
# ---------------------------------------------------------------------------------------------------------------
odd_flags = [True, False, 1, 0, 2, -1, 0.0, 1.0, 0.5, None, np.int64(2), np.float64(np.nan)]
for shape in [(2, 4), (4, 2), (3, 5), (1, 5), (5, 1)]:
    ints = rng.integers(-1, 4, size=shape)
    floats = rng.choice(np.array([0.0, 1.0, 0.5, 2.0, np.nan, np.inf, -0.0]), size=shape)
    for flag in odd_flags:
        call(("odd-int", shape, repr(flag)), ints, flag)
        call(("odd-int8", shape, repr(flag)), ints.astype(np.int8), flag)
        call(("odd-float", shape, repr(flag)), floats, flag)
        call(("odd-flag-bool-mask", shape, repr(flag)), ints > 0, flag)
        call(("odd-trailing-singleton", shape, repr(flag)), ints[:, :, None], flag)

# ---------------------------------------------------------------------------------------------------------------
# 3) invalid inputs: exception types
# ---------------------------------------------------------------------------------------------------------------
call(("list",), [[True, False], [False, True]], True)
call(("tuple",), ((True, False), (False, True)), False)
call(("none",), None, True)
call(("1d",), np.array([True, False, True]), True)
call(("1d-false",), np.array([True, False, True]), False)
call(("0d",), np.array(True), True)
call(("3d",), rng.random((3, 4, 2)) < 0.5, True)
call(("3d-false",), rng.random((4, 3, 2)) < 0.5, False)
call(("4d",), rng.random((2, 3, 2, 2)) < 0.5, True)
try:
    mask_2d_util.mask_slim_indexes_from()
except Exception as e:  # noqa
    record(("no-args",), "EXC:" + type(e).__name__)
try:
    mask_2d_util.mask_slim_indexes_from(np.full((2, 2), False), True, 3)
except Exception as e:  # noqa
    record(("too-many-args",), "EXC:" + type(e).__name__)
try:
    mask_2d_util.mask_slim_indexes_from(mask=np.full((2, 2), False))
except Exception as e:  # noqa
    record(("wrong-kw",), "EXC:" + type(e).__name__)

# ---------------------------------------------------------------------------------------------------------------
# 4) repeated calls: fresh, independent, writable result every time (no caching / aliasing)
# ---------------------------------------------------------------------------------------------------------------
m = rng.random((4, 9)) < 0.5
first = mask_2d_util.mask_slim_indexes_from(m, False)
first_copy = first.copy()
second = mask_2d_util.mask_slim_indexes_from(m, False)
record("repeat-distinct-objects", first is not second and not np.shares_memory(first, second))
second[:] = -1.0
record("repeat-first-untouched", bool(np.array_equal(first, first_copy)))
third = mask_2d_util.mask_slim_indexes_from(m, False)
record("repeat-third", third)
record("writeable", bool(first.flags.writeable))

# ---------------------------------------------------------------------------------------------------------------
# 5) public API: Mask2D.derive_indexes for non-square shapes, anisotropic pixel scales, non-zero origins,
#    circular / edge-touching masks, plus consumers of the index lists
# ---------------------------------------------------------------------------------------------------------------
for shape in [(2, 4), (4, 2), (3, 7), (7, 3), (6, 4), (5, 5), (1, 6), (6, 1), (9, 12), (12, 9), (1, 1)]:
    for pixel_scales, origin in [(1.0, (0.0, 0.0)), ((0.5, 2.0), (1.0, -3.0)), ((3.0, 0.1), (-0.7, 0.2))]:
        for density in (0.0, 0.3, 0.6):
            mask_2d = rng.random(shape) < density
            mask_2d[0, 0] = False
            mask = aa.Mask2D(mask=mask_2d, pixel_scales=pixel_scales, origin=origin)
            tag = ("Mask2D", shape, pixel_scales, origin, density)
            indexes = mask.derive_indexes
            for name in ("unmasked_slim", "masked_slim", "native_for_slim", "edge_slim", "border_slim"):
                try:
                    record(tag + (name,), np.asarray(getattr(indexes, name)))
                except Exception as e:  # noqa
                    record(tag + (name,), "EXC:" + type(e).__name__)
            # called twice: properties give equal but independent results
            a = indexes.unmasked_slim
            b = indexes.unmasked_slim
            record(tag + ("twice",), (bool(np.array_equal(a, b)), a is not b))
            values = np.arange(shape[0] * shape[1], dtype=float).reshape(shape) + 1.0
            array = aa.Array2D(values=values, mask=mask)
            record(tag + ("slim",), np.asarray(array.slim))
            record(tag + ("native",), np.asarray(array.native))

for shape, radius, centre in [((7, 11), 2.5, (0.0, 0.0)), ((11, 7), 3.0, (0.5, -0.5)), ((6, 9), 20.0, (0.0, 0.0))]:
    mask = aa.Mask2D.circular(shape_native=shape, pixel_scales=(1.0, 0.7), radius=radius, centre=centre)
    record(("circular", shape, "unmasked"), np.asarray(mask.derive_indexes.unmasked_slim))
    record(("circular", shape, "masked"), np.asarray(mask.derive_indexes.masked_slim))

mask = aa.Mask2D.all_false(shape_native=(3, 8), pixel_scales=1.0)
record(("all_false", "unmasked"), np.asarray(mask.derive_indexes.unmasked_slim))
record(("all_false", "masked"), np.asarray(mask.derive_indexes.masked_slim))

# consumer: imaging noise covariance matrix is trimmed with masked_slim when a mask is applied
try:
    shape = (3, 5)
    n = shape[0] * shape[1]
    cov = np.arange(n * n, dtype=float).reshape(n, n)
    cov = cov + cov.T + np.eye(n) * 1000.0
    dataset = aa.Imaging(
        data=aa.Array2D.no_mask(values=rng.random(shape), pixel_scales=1.0),
        noise_covariance_matrix=cov,
    )
    mask_2d = np.full(shape, False)
    mask_2d[0, 1] = mask_2d[2, 4] = mask_2d[1, 2] = True
    masked = dataset.apply_mask(mask=aa.Mask2D(mask=mask_2d, pixel_scales=1.0))
    record("imaging-noise-covariance", np.asarray(masked.noise_covariance_matrix))
except Exception as e:  # noqa
    record("imaging-noise-covariance", "EXC:" + type(e).__name__)

print("records", N_RECORDS)
print("digest", H.hexdigest())
