"""
Differential test for the C02-7 twin (autoarray/mask/mask_2d_util.py: elliptical_radius_from split +
mask_2d_elliptical_annular_from sharing the polar conversion between the two ellipses).

Prints a sha256 digest over every result (array dtype / shape / raw bytes, or the exception type) of a fixed,
deterministic set of calls. The digest must be identical on the clean HEAD tree and on the tree with twin.patch.

Run:  cd /tmp/wt10/C02-7 && PYTHONPATH=/tmp/wt10/C02-7 /venv/bin/python equiv.py
"""
import hashlib
import itertools
import warnings

import numpy as np

warnings.filterwarnings("ignore")
np.seterr(all="ignore")

import autoarray as aa
from autoarray.mask import mask_2d_util

H = hashlib.sha256()
N_CALLS = 0
N_EXC = 0


def feed(tag, value):
    H.update(repr(tag).encode())
    if isinstance(value, np.ndarray):
        H.update(str(value.dtype).encode())
        H.update(repr(value.shape).encode())
        H.update(np.ascontiguousarray(value).tobytes())
    elif isinstance(value, (np.generic,)):
        H.update(type(value).__name__.encode())
        H.update(np.asarray(value).tobytes())
    else:
        H.update(type(value).__name__.encode())
        H.update(repr(value).encode())


def run(tag, func, *args, **kwargs):
    """Call func and feed the result (or the exception type) into the digest."""
    global N_CALLS, N_EXC
    N_CALLS += 1
    try:
        result = func(*args, **kwargs)
    except Exception as e:  # noqa
        N_EXC += 1
        # the builtin base class (TypeError / ValueError / ...) is what a caller can portably catch
        base = [c.__name__ for c in type(e).__mro__ if c.__module__ == "builtins"][0]
        feed(tag, "EXC:" + base)
        return None
    feed(tag, result)
    return result


def annular_util(**kw):
    return mask_2d_util.mask_2d_elliptical_annular_from(**kw)


def annular_cls(**kw):
    m = aa.Mask2D.elliptical_annular(**kw)
    return (
        np.array(m),
        tuple(m.pixel_scales),
        tuple(m.origin),
        m.shape_native,
    )


def run_cls(tag, **kw):
    global N_CALLS, N_EXC
    N_CALLS += 1
    try:
        arr, ps, origin, shape = annular_cls(**kw)
    except Exception as e:  # noqa
        N_EXC += 1
        base = [c.__name__ for c in type(e).__mro__ if c.__module__ == "builtins"][0]
        feed(tag, "EXC:" + base)
        return
    feed(tag, arr)
    feed(tag, (ps, origin, shape))


# ---------------------------------------------------------------------------------------------------------------
# 1. elliptical_radius_from (split into two functions by the refactoring): scalar results, bit for bit
# ---------------------------------------------------------------------------------------------------------------
rng = np.random.default_rng(20261003)

special = [0.0, -0.0, 1.0, -1.0, 0.5, 1e-300, 1e300, np.inf, -np.inf, np.nan, 3, -2]
for y, x in itertools.product(special, special):
    for angle, q in [(0.0, 1.0), (30.0, 0.5), (-45.0, 0.3), (720.0, 2.0), (90, 1), (np.nan, 0.5), (10.0, 0.0)]:
        run(("erf-special", repr(y), repr(x), repr(angle), repr(q)), mask_2d_util.elliptical_radius_from, y, x, angle, q)

for k in range(4000):
    y, x = rng.normal(scale=3.0, size=2)
    angle = float(rng.choice([0.0, 30.0, 45.0, 60.0, 90.0, 180.0, 360.0, -30.0, rng.uniform(-720, 720)]))
    q = float(rng.choice([1.0, 0.5, 0.1, 0.999, rng.uniform(0.01, 1.0), rng.uniform(1.0, 3.0)]))
    run(("erf-rand", k), mask_2d_util.elliptical_radius_from, float(y), float(x), angle, q)

# other scalar / array types going through the same arithmetic
run("erf-f32", mask_2d_util.elliptical_radius_from, np.float32(1.3), np.float32(-0.7), np.float32(33.0), np.float32(0.4))
run("erf-int", mask_2d_util.elliptical_radius_from, 2, 3, 45, 2)
run("erf-arr", mask_2d_util.elliptical_radius_from, np.array([1.0, 2.0]), np.array([0.5, -1.0]), 30.0, 0.5)
run("erf-arr-angle", mask_2d_util.elliptical_radius_from, 1.0, 2.0, np.array([30.0, 60.0]), 0.5)
run("erf-none-angle", mask_2d_util.elliptical_radius_from, 1.0, 2.0, None, 0.5)
run("erf-none-q", mask_2d_util.elliptical_radius_from, 1.0, 2.0, 30.0, None)
run("erf-str-angle", mask_2d_util.elliptical_radius_from, 1.0, 2.0, "30", 0.5)
run("erf-none-y", mask_2d_util.elliptical_radius_from, None, 2.0, 30.0, 0.5)
run("erf-kw", mask_2d_util.elliptical_radius_from, y_scaled=1.0, x_scaled=2.0, angle=30.0, axis_ratio=0.5)
run("erf-badkw", mask_2d_util.elliptical_radius_from, y_scaled=1.0, x_scaled=2.0, phi=30.0, axis_ratio=0.5)

# ---------------------------------------------------------------------------------------------------------------
# 2. mask_2d_elliptical_from / Mask2D.elliptical (unchanged caller of the split function)
# ---------------------------------------------------------------------------------------------------------------
for k in range(60):
    shape = (int(rng.integers(1, 14)), int(rng.integers(1, 14)))
    ps = (float(rng.uniform(0.2, 1.5)), float(rng.uniform(0.2, 1.5)))
    centre = (float(rng.uniform(-1, 1)), float(rng.uniform(-1, 1)))
    run(
        ("ell-util", k),
        mask_2d_util.mask_2d_elliptical_from,
        shape_native=shape,
        pixel_scales=ps,
        major_axis_radius=float(rng.uniform(0.0, 5.0)),
        axis_ratio=float(rng.uniform(0.1, 1.0)),
        angle=float(rng.uniform(-360, 360)),
        centre=centre,
    )

# ---------------------------------------------------------------------------------------------------------------
# 3. mask_2d_elliptical_annular_from: structured sweep (the trigger of the seed is inner_phi != 0 with a
#    non-circular outer ellipse)
# ---------------------------------------------------------------------------------------------------------------
shapes = [(1, 1), (1, 7), (7, 1), (2, 2), (5, 5), (6, 9), (11, 13), (15, 15), (20, 8)]
scales = [(1.0, 1.0), (0.7, 0.5), (0.1, 2.0), (3.0, 3.0)]
centres = [(0.0, 0.0), (0.3, -0.4), (-2.5, 1.75), (100.0, 100.0)]
phis = [0.0, 30.0, 45.0, 60.0, 90.0, 100.0, 180.0, 270.0, 360.0, -30.0, -135.0, 725.5, 1e-12, 1e6]
inners = [(0.0, 1.0), (0.6, 0.4), (0.9, 0.8), (1.2, 1.0), (2.0, 0.25)]
outers = [(2.9, 0.5), (6.1, 0.3), (3.0, 1.0), (1.0, 0.9), (50.0, 0.05)]

k = 0
for shape, ps, centre in itertools.product(shapes, scales, centres):
    # a rotating subset of the angle / ellipse grid for each geometry keeps the run time moderate while every
    # (inner_phi, outer_phi) pair and every ellipse pair is visited many times over the whole sweep
    for j in range(24):
        inner_phi = phis[(k + j) % len(phis)]
        outer_phi = phis[(3 * k + 5 * j + 1) % len(phis)]
        inner = inners[(k + 2 * j) % len(inners)]
        outer = outers[(2 * k + j) % len(outers)]
        run(
            ("ann-grid", k, j),
            annular_util,
            shape_native=shape,
            pixel_scales=ps,
            inner_major_axis_radius=inner[0],
            inner_axis_ratio=inner[1],
            inner_phi=inner_phi,
            outer_major_axis_radius=outer[0],
            outer_axis_ratio=outer[1],
            outer_phi=outer_phi,
            centre=centre,
        )
    k += 1

# every ordered pair of angles on one geometry with two strongly non-circular ellipses
for inner_phi, outer_phi in itertools.product(phis, phis):
    run(
        ("ann-pairs", inner_phi, outer_phi),
        annular_util,
        shape_native=(11, 13),
        pixel_scales=(0.7, 0.5),
        inner_major_axis_radius=0.9,
        inner_axis_ratio=0.4,
        inner_phi=inner_phi,
        outer_major_axis_radius=2.9,
        outer_axis_ratio=0.5,
        outer_phi=outer_phi,
        centre=(0.3, -0.4),
    )

# the three demo cases of the seed, at util level
for tag, shape, ps, centre, inner, outer in [
    ("demo1", (11, 13), (0.7, 0.5), (0.0, 0.0), (0.6, 0.4, 0.0), (2.9, 0.5, 60.0)),
    ("demo2", (11, 13), (0.7, 0.5), (0.3, -0.4), (0.9, 0.4, 30.0), (2.9, 0.5, 60.0)),
    ("demo3", (15, 15), (1.0, 1.0), (0.0, 0.0), (1.2, 0.8, 45.0), (6.1, 0.3, 100.0)),
]:
    run(
        ("ann-" + tag),
        annular_util,
        shape_native=shape,
        pixel_scales=ps,
        inner_major_axis_radius=inner[0],
        inner_axis_ratio=inner[1],
        inner_phi=inner[2],
        outer_major_axis_radius=outer[0],
        outer_axis_ratio=outer[1],
        outer_phi=outer[2],
        centre=centre,
    )

# random sweep
for k in range(400):
    shape = (int(rng.integers(1, 17)), int(rng.integers(1, 17)))
    ps = (float(rng.uniform(0.1, 2.0)), float(rng.uniform(0.1, 2.0)))
    centre = (float(rng.normal(scale=1.5)), float(rng.normal(scale=1.5)))
    run(
        ("ann-rand", k),
        annular_util,
        shape_native=shape,
        pixel_scales=ps,
        inner_major_axis_radius=float(rng.uniform(0.0, 3.0)),
        inner_axis_ratio=float(rng.uniform(0.05, 1.0)),
        inner_phi=float(rng.uniform(-400.0, 400.0)),
        outer_major_axis_radius=float(rng.uniform(0.0, 12.0)),
        outer_axis_ratio=float(rng.uniform(0.05, 1.0)),
        outer_phi=float(rng.uniform(-400.0, 400.0)),
        centre=centre,
    )

# ---------------------------------------------------------------------------------------------------------------
# 4. degenerate / unusual inputs of mask_2d_elliptical_annular_from
# ---------------------------------------------------------------------------------------------------------------
base = dict(
    shape_native=(6, 9),
    pixel_scales=(0.7, 0.5),
    inner_major_axis_radius=0.6,
    inner_axis_ratio=0.4,
    inner_phi=30.0,
    outer_major_axis_radius=2.9,
    outer_axis_ratio=0.5,
    outer_phi=60.0,
    centre=(0.1, -0.2),
)


def variant(**kw):
    d = dict(base)
    d.update(kw)
    return d


degenerate = {
    # empty shapes (valid arguments): loops never run
    "empty-00": variant(shape_native=(0, 0)),
    "empty-05": variant(shape_native=(0, 5)),
    "empty-50": variant(shape_native=(5, 0)),
    # radii
    "inner>outer": variant(inner_major_axis_radius=5.0, outer_major_axis_radius=1.0),
    "zero-radii": variant(inner_major_axis_radius=0.0, outer_major_axis_radius=0.0),
    "neg-inner": variant(inner_major_axis_radius=-1.0),
    "inf-outer": variant(outer_major_axis_radius=np.inf),
    "nan-outer": variant(outer_major_axis_radius=np.nan),
    # axis ratios
    "q-inner-0": variant(inner_axis_ratio=0.0),
    "q-outer-0": variant(outer_axis_ratio=0.0),
    "q-neg": variant(inner_axis_ratio=-0.4, outer_axis_ratio=-0.5),
    "q>1": variant(inner_axis_ratio=2.5, outer_axis_ratio=4.0),
    "q-nan": variant(outer_axis_ratio=np.nan),
    "q-inf": variant(inner_axis_ratio=np.inf),
    # angles
    "phi-nan-inner": variant(inner_phi=np.nan),
    "phi-nan-outer": variant(outer_phi=np.nan),
    "phi-inf-inner": variant(inner_phi=np.inf),
    "phi-inf-outer": variant(outer_phi=-np.inf),
    "phi-int": variant(inner_phi=30, outer_phi=60),
    "phi-f32": variant(inner_phi=np.float32(30.3), outer_phi=np.float32(60.7)),
    "phi-bool": variant(inner_phi=True, outer_phi=False),
    "phi-arr1": variant(inner_phi=np.array([30.0]), outer_phi=np.array([60.0])),
    "phi-arr0d": variant(inner_phi=np.array(30.0), outer_phi=np.array(60.0)),
    "phi-arr2-inner": variant(inner_phi=np.array([30.0, 31.0])),
    "phi-arr2-outer": variant(outer_phi=np.array([60.0, 61.0])),
    "phi-list1": variant(inner_phi=[30.0], outer_phi=[60.0]),
    "phi-none-inner": variant(inner_phi=None),
    "phi-none-outer": variant(outer_phi=None),
    "phi-str-inner": variant(inner_phi="30"),
    "phi-str-outer": variant(outer_phi="60"),
    "phi-complex": variant(inner_phi=30 + 1j),
    # other arguments of the wrong type
    "q-none-inner": variant(inner_axis_ratio=None),
    "q-none-outer": variant(outer_axis_ratio=None),
    "r-none-inner": variant(inner_major_axis_radius=None),
    "r-none-outer": variant(outer_major_axis_radius=None),
    "centre-none": variant(centre=None),
    "centre-1": variant(centre=(0.0,)),
    "ps-float": variant(pixel_scales=0.5),
    "ps-zero": variant(pixel_scales=(0.0, 0.0)),
    "ps-neg": variant(pixel_scales=(-0.7, -0.5)),
    "ps-int": variant(pixel_scales=(1, 2)),
    "ps-arr": variant(pixel_scales=np.array([0.7, 0.5])),
    "shape-int": variant(shape_native=5),
    "shape-3d": variant(shape_native=(3, 4, 5)),
    "shape-neg": variant(shape_native=(-1, 3)),
    "shape-float": variant(shape_native=(3.0, 4.0)),
    "centre-arr": variant(centre=np.array([0.1, -0.2])),
    "huge-centre": variant(centre=(1e300, -1e300)),
    "inf-centre": variant(centre=(np.inf, 0.0)),
}
for tag, kw in degenerate.items():
    run(("ann-degenerate", tag), annular_util, **kw)

# missing / unexpected keyword arguments, positional call
run("ann-missing", annular_util, shape_native=(3, 3), pixel_scales=(1.0, 1.0))
run("ann-unexpected", annular_util, angle=3.0, **base)
run(
    "ann-positional",
    mask_2d_util.mask_2d_elliptical_annular_from,
    (6, 9), (0.7, 0.5), 0.6, 0.4, 30.0, 2.9, 0.5, 60.0, (0.1, -0.2),
)
run("ann-default-centre", annular_util, **{k_: v for k_, v in base.items() if k_ != "centre"})

# arguments are not modified in place; repeated calls with the same (shared) argument objects agree
phi_i = np.array([30.0])
phi_o = np.array([60.0])
ps_arr = np.array([0.7, 0.5])
centre_arr = np.array([0.1, -0.2])
for rep in range(3):
    run(
        ("ann-shared", rep),
        annular_util,
        **variant(inner_phi=phi_i, outer_phi=phi_o, pixel_scales=ps_arr, centre=centre_arr),
    )
    feed(("ann-shared-args", rep), np.concatenate([phi_i, phi_o, ps_arr, centre_arr]))

# result is a fresh writeable bool array each call
a = annular_util(**base)
b = annular_util(**base)
feed("ann-fresh", (a is b, bool(np.shares_memory(a, b)), a.flags.writeable, a.flags.owndata, str(a.dtype)))

# ---------------------------------------------------------------------------------------------------------------
# 5. class level: Mask2D.elliptical_annular (origins, invert, float pixel scales)
# ---------------------------------------------------------------------------------------------------------------
origins = [(0.0, 0.0), (1.0, -2.0), (-3.5, 0.25)]
k = 0
for shape, ps, origin, invert in itertools.product(
    [(1, 1), (3, 8), (11, 13), (15, 15)], [1.0, (0.7, 0.5), (2.0, 0.3)], origins, [False, True]
):
    for j in range(4):
        inner_phi = phis[(k + 3 * j) % len(phis)]
        outer_phi = phis[(5 * k + j + 2) % len(phis)]
        inner = inners[(k + j) % len(inners)]
        outer = outers[(k + 3 * j) % len(outers)]
        run_cls(
            ("cls-grid", k, j),
            shape_native=shape,
            inner_major_axis_radius=inner[0],
            inner_axis_ratio=inner[1],
            inner_phi=inner_phi,
            outer_major_axis_radius=outer[0],
            outer_axis_ratio=outer[1],
            outer_phi=outer_phi,
            pixel_scales=ps,
            origin=origin,
            centre=centres[(k + j) % 3],
            invert=invert,
        )
    k += 1

for tag, shape, ps, centre, origin, inner, outer in [
    ("demo1", (11, 13), (0.7, 0.5), (0.0, 0.0), (0.0, 0.0), (0.6, 0.4, 0.0), (2.9, 0.5, 60.0)),
    ("demo2", (11, 13), (0.7, 0.5), (0.3, -0.4), (1.0, -2.0), (0.9, 0.4, 30.0), (2.9, 0.5, 60.0)),
    ("demo3", (15, 15), (1.0, 1.0), (0.0, 0.0), (0.0, 0.0), (1.2, 0.8, 45.0), (6.1, 0.3, 100.0)),
]:
    run_cls(
        ("cls-" + tag),
        shape_native=shape,
        inner_major_axis_radius=inner[0],
        inner_axis_ratio=inner[1],
        inner_phi=inner[2],
        outer_major_axis_radius=outer[0],
        outer_axis_ratio=outer[1],
        outer_phi=outer[2],
        pixel_scales=ps,
        origin=origin,
        centre=centre,
    )

# class level errors / degenerate
run_cls(
    "cls-all-masked",
    shape_native=(5, 5), inner_major_axis_radius=5.0, inner_axis_ratio=0.5, inner_phi=30.0,
    outer_major_axis_radius=1.0, outer_axis_ratio=0.5, outer_phi=60.0, pixel_scales=1.0,
)
run_cls(
    "cls-none-phi",
    shape_native=(5, 5), inner_major_axis_radius=0.5, inner_axis_ratio=0.5, inner_phi=None,
    outer_major_axis_radius=2.0, outer_axis_ratio=0.5, outer_phi=60.0, pixel_scales=1.0,
)
run_cls(
    "cls-empty",
    shape_native=(0, 4), inner_major_axis_radius=0.5, inner_axis_ratio=0.5, inner_phi=30.0,
    outer_major_axis_radius=2.0, outer_axis_ratio=0.5, outer_phi=60.0, pixel_scales=1.0,
)

# Mask2D.elliptical, which calls the split elliptical_radius_from through mask_2d_elliptical_from
for k in range(20):
    global_kw = dict(
        shape_native=(int(rng.integers(1, 12)), int(rng.integers(1, 12))),
        major_axis_radius=float(rng.uniform(0.0, 4.0)),
        axis_ratio=float(rng.uniform(0.1, 1.0)),
        angle=float(rng.uniform(-200, 200)),
        pixel_scales=(float(rng.uniform(0.2, 1.5)), float(rng.uniform(0.2, 1.5))),
        origin=(float(rng.normal()), float(rng.normal())),
        centre=(float(rng.normal()), float(rng.normal())),
    )
    run(("cls-elliptical", k), lambda **kw: np.array(aa.Mask2D.elliptical(**kw)), **global_kw)

print("calls:", N_CALLS, "of which raised:", N_EXC)
print("DIGEST", H.hexdigest())
