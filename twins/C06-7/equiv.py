"""
Differential test for the C06-7 twin (Mesh2DRectangular.overlay_grid routed through an extent helper).

Prints a sha256 digest over all results (values, dtypes, python types, raised exception types/messages). Run on the
clean HEAD tree and on the twin tree: the two digests must be identical.

    cd /tmp/wt10/C06-7 && PYTHONPATH=/tmp/wt10/C06-7 /venv/bin/python equiv.py
"""
import hashlib
import os
import warnings

warnings.filterwarnings("ignore")

import numpy as np

import autoarray as aa

H = hashlib.sha256()
N_RECORDS = 0


def rec(tag, obj):
    global N_RECORDS
    N_RECORDS += 1
    if os.environ.get("EQUIV_VERBOSE") and "EXC" in repr(tag):
        print(tag, obj)
    H.update(repr(tag).encode())
    H.update(b"|")
    H.update(enc(obj))
    H.update(b"\n")


def enc(obj):
    if isinstance(obj, np.ndarray):
        a = np.ascontiguousarray(obj)
        return (
            b"nd:"
            + str(a.dtype).encode()
            + str(a.shape).encode()
            + (repr(a.tolist()).encode() if a.dtype == object else a.tobytes())
        )
    if isinstance(obj, (tuple, list)):
        return (
            type(obj).__name__.encode()
            + b"("
            + b",".join(enc(o) for o in obj)
            + b")"
        )
    if isinstance(obj, (np.generic,)):
        return b"npg:" + type(obj).__name__.encode() + b":" + np.asarray(obj).tobytes()
    if isinstance(obj, float):
        return b"float:" + np.float64(obj).tobytes()
    return type(obj).__name__.encode() + b":" + repr(obj).encode()


def mesh_record(tag, mesh):
    rec((tag, "type"), type(mesh).__name__)
    rec((tag, "values"), np.array(mesh))
    rec((tag, "shape_native"), tuple(mesh.shape_native))
    rec((tag, "pixel_scales"), tuple(mesh.pixel_scales))
    rec((tag, "pixel_scales_types"), [type(p).__name__ for p in mesh.pixel_scales])
    rec((tag, "origin"), tuple(mesh.origin))
    rec((tag, "origin_types"), [type(o).__name__ for o in mesh.origin])
    rec((tag, "mask_origin"), tuple(mesh.mask.origin))
    rec((tag, "mask_pixel_scales"), tuple(mesh.mask.pixel_scales))
    rec((tag, "mask"), np.array(mesh.mask))
    rec((tag, "extent"), tuple(mesh.geometry.extent))
    rec((tag, "pixels"), int(mesh.pixels))


def try_overlay(tag, **kwargs):
    try:
        mesh = aa.Mesh2DRectangular.overlay_grid(**kwargs)
    except Exception as e:
        rec((tag, "EXC"), (type(e).__name__, str(e)))
        return None
    mesh_record(tag, mesh)
    return mesh


def main():
    rng = np.random.default_rng(20240607)

    # ------------------------------------------------------------------------------------------------------------
    # 1) Direct calls of overlay_grid on random grids: off-diagonal centres, anisotropy, non-square shapes, buffers.
    # ------------------------------------------------------------------------------------------------------------
    shapes = [(1, 1), (1, 5), (5, 1), (3, 3), (4, 6), (7, 2), (2, 9), (10, 10)]
    buffers = [None, 0.0, 1e-8, 0.3, -0.1, 5.0, 1, np.float32(0.25)]
    n_points = [1, 2, 3, 17, 200]

    case = 0
    for shape in shapes:
        for n in n_points:
            for buffer in buffers:
                case += 1
                cy, cx = rng.uniform(-50, 50, size=2)
                sy, sx = 10.0 ** rng.uniform(-3, 2, size=2)
                grid = np.stack(
                    (
                        cy + sy * rng.standard_normal(n),
                        cx + sx * rng.standard_normal(n),
                    ),
                    axis=1,
                )
                kwargs = dict(shape_native=shape, grid=grid)
                if buffer is not None:
                    kwargs["buffer"] = buffer
                grid_before = grid.copy()
                mesh = try_overlay(("rand", case), **kwargs)
                # no in-place effects on the input
                rec(("rand", case, "input_untouched"), bool((grid == grid_before).all()))
                if mesh is not None:
                    rec(("rand", case, "alias"), bool(np.shares_memory(np.array(mesh), grid)))

    # ------------------------------------------------------------------------------------------------------------
    # 2) Hand-picked grids: the trigger (centre_y != centre_x), the suite's grids, degenerate and awkward inputs.
    # ------------------------------------------------------------------------------------------------------------
    hand = {
        "trigger": np.array([[0.4, -1.7], [1.5, 0.6], [0.9, -0.6], [1.2, -0.1]]),
        "suite_sym": np.array(
            [
                [-1.0, -1.0], [-1.0, 0.0], [-1.0, 1.0],
                [0.0, -1.0], [0.0, 0.0], [0.0, 1.0],
                [1.0, -1.0], [1.0, 0.0], [1.0, 1.0],
            ]
        ),
        "suite_2_1": np.array([[2.0, 1.0], [4.0, 3.0], [6.0, 5.0], [8.0, 7.0]]),
        "single_point": np.array([[3.0, -2.0]]),
        "collinear_y": np.array([[1.0, 2.0], [1.0, 5.0], [1.0, -3.0]]),
        "collinear_x": np.array([[1.0, 2.0], [4.0, 2.0], [-6.0, 2.0]]),
        "huge": np.array([[1e300, -1e300], [-1e300, 1e300], [1e308, 1e308]]),
        "tiny": np.array([[1e-310, 3e-310], [2e-320, -1e-315]]),
        "big_offset": np.array([[1e16 + 2, 3.0], [1e16 + 4, 5.0], [1e16, -7.0]]),
        "nan": np.array([[np.nan, 1.0], [2.0, 3.0]]),
        "nan_x": np.array([[0.0, 1.0], [2.0, np.nan]]),
        "inf": np.array([[np.inf, 1.0], [2.0, -np.inf]]),
        "int_grid": np.array([[1, 7], [4, -3], [9, 2]]),
        "int64_overflow": np.array(
            [[2**62, -(2**62)], [2**62 + 5, 2**62], [-(2**62), 7]], dtype=np.int64
        ),
        "float32": np.array([[0.1, 0.7], [1.3, -2.9], [5.5, 0.25]], dtype=np.float32),
        "float16": np.array([[0.1, 0.7], [1.3, -2.9], [5.5, 0.25]], dtype=np.float16),
        "three_cols": np.array([[0.1, 0.7, 9.0], [1.3, -2.9, 8.0]]),
        "fortran": np.asfortranarray(rng.uniform(-3, 9, size=(11, 2))),
        "strided": rng.uniform(-3, 9, size=(22, 4))[::2, 1:3],
        "bool": np.array([[True, False], [False, False]]),
        "complex": np.array([[1 + 2j, 3.0], [0.5, -1j]]),
        "object": np.array([[1.5, 2], [3, -4.25]], dtype=object),
        # malformed inputs -> exceptions must be the same
        "empty": np.zeros((0, 2)),
        "one_col": np.array([[1.0], [2.0]]),
        "one_dim": np.array([1.0, 2.0, 3.0]),
        "three_dim": rng.uniform(size=(3, 2, 2)),
        "zero_dim": np.array(1.0),
        "list": [[1.0, 2.0], [3.0, 5.0]],
        "none": None,
        "str": np.array([["a", "b"], ["c", "d"]]),
    }

    for name, grid in hand.items():
        for shape in [(3, 3), (2, 5), (4, 1)]:
            for buffer in [None, 0.0, 0.5, 2]:
                kwargs = dict(shape_native=shape, grid=grid)
                if buffer is not None:
                    kwargs["buffer"] = buffer
                try_overlay(("hand", name, shape, buffer), **kwargs)

    # awkward shape_native / buffer arguments
    g = hand["trigger"]
    for shape in [(0, 3), (3, 0), (0, 0), (3,), (3, 3, 3), (2.0, 3.0), (-2, 3), None, "ab", [3, 4], np.array([3, 4])]:
        try_overlay(("badshape", repr(shape)), shape_native=shape, grid=g)
    for buffer in [None, "a", np.nan, np.inf, -np.inf, np.array([0.1]), np.array([0.1, 0.2]), [0.1], 1j, True]:
        try_overlay(("badbuffer", repr(buffer)), shape_native=(3, 4), grid=g, buffer=buffer)

    # positional / keyword calling conventions
    mesh_record(("call", "positional"), aa.Mesh2DRectangular.overlay_grid((3, 4), g, 0.2))
    mesh_record(("call", "positional2"), aa.Mesh2DRectangular.overlay_grid((3, 4), g))
    mesh_record(("call", "kw"), aa.Mesh2DRectangular.overlay_grid(grid=g, buffer=0.2, shape_native=(3, 4)))

    # autoarray structures as input grids (Grid2D with non-zero origin / anisotropic, Grid2DIrregular, masked grid)
    mask = aa.Mask2D(
        mask=[
            [False, True, True, True, True, False],
            [True, False, False, False, True, True],
            [True, False, True, False, False, True],
            [False, True, False, False, False, False],
        ],
        pixel_scales=(0.5, 0.3),
        origin=(1.7, -0.4),
    )
    struct_grids = {
        "grid2d_uniform": aa.Grid2D.uniform(shape_native=(5, 3), pixel_scales=(0.7, 0.2), origin=(2.0, -1.0)),
        "grid2d_mask": aa.Grid2D.from_mask(mask=mask),
        "grid2d_irregular": aa.Grid2DIrregular(values=[(0.3, 2.0), (1.0, -4.0), (2.5, 0.1)]),
    }
    for name, grid in struct_grids.items():
        for shape in [(3, 3), (2, 7)]:
            try_overlay(("struct", name, shape), shape_native=shape, grid=grid)
            try_overlay(("struct", name, shape, "buf"), shape_native=shape, grid=grid, buffer=0.05)

    # ------------------------------------------------------------------------------------------------------------
    # 3) Through the pixelization: Rectangular.mesh_grid_from / mapper_grids_from / Mapper, mapping matrices etc.
    # ------------------------------------------------------------------------------------------------------------
    for trial in range(12):
        sub_size = rng.integers(1, 5, size=mask.pixels_in_mask)
        if trial % 3 == 0:
            sub_size[:] = 1 + trial % 4
        over_sampler = aa.OverSamplerUniform(
            mask=mask, sub_size=aa.Array2D(values=sub_size, mask=mask)
        )
        image_grid = np.array(over_sampler.over_sampled_grid)
        y = image_grid[:, 0]
        x = image_grid[:, 1]
        oy, ox = rng.uniform(-3, 3, size=2)
        source = np.stack(
            (
                0.8 * y + 0.1 * x * x + oy + 0.01 * rng.standard_normal(len(y)),
                1.3 * x - 0.05 * y * y + ox + 0.01 * rng.standard_normal(len(y)),
            ),
            axis=1,
        )
        shape = [(4, 6), (3, 3), (7, 3), (3, 5)][trial % 4]
        mesh = aa.mesh.Rectangular(shape=shape)

        for kind in ("irregular", "ndarray_backed"):
            tag = ("mapper", trial, kind)
            if kind == "irregular":
                spdg = aa.Grid2DIrregular(values=source)
            else:
                spdg = aa.Grid2DIrregular(values=[tuple(row) for row in source.tolist()])

            try:
                mapper_grids = mesh.mapper_grids_from(
                    mask=mask, border_relocator=None, source_plane_data_grid=spdg
                )
                mesh_grid = mesh.mesh_grid_from(source_plane_data_grid=spdg)
                mesh_record((tag, "mesh_grid_from"), mesh_grid)
                mapper = aa.Mapper(
                    mapper_grids=mapper_grids, over_sampler=over_sampler, regularization=None
                )
                mesh_record((tag, "mapper_mesh"), mapper.source_plane_mesh_grid)
                rec((tag, "mapping_matrix"), np.array(mapper.mapping_matrix))
                psw = mapper.pix_sub_weights
                rec((tag, "mappings"), np.array(psw.mappings))
                rec((tag, "sizes"), np.array(psw.sizes))
                rec((tag, "weights"), np.array(psw.weights))
                um = mapper.unique_mappings
                rec((tag, "um_unique"), np.array(um.data_to_pix_unique))
                rec((tag, "um_weights"), np.array(um.data_weights))
                rec((tag, "um_lengths"), np.array(um.pix_lengths))
                rec((tag, "neighbors"), np.array(mapper.source_plane_mesh_grid.neighbors))
                rec((tag, "neighbors_sizes"), np.array(mapper.source_plane_mesh_grid.neighbors.sizes))
                rec((tag, "edge_list"), list(mapper.edge_pixel_list))
                values = rng.uniform(size=mapper.pixels)
                rec((tag, "mapped_to_source"), np.array(
                    mapper.mapped_to_source_from(array=aa.Array2D(values=np.arange(mask.pixels_in_mask, dtype=float), mask=mask))
                ))
                interp = mapper.source_plane_mesh_grid.interpolated_array_from(
                    values=values, shape_native=(5, 4)
                )
                rec((tag, "interp"), np.array(interp))
                interp = mapper.source_plane_mesh_grid.interpolated_array_from(
                    values=values, shape_native=(3, 6), extent=(-1.0, 2.0, -0.5, 1.5)
                )
                rec((tag, "interp_extent"), np.array(interp))
            except Exception as e:
                rec((tag, "EXC"), (type(e).__name__, str(e)))

    # with a border relocator (relocated grid is what gets overlaid)
    mask_b = aa.Mask2D.circular(shape_native=(9, 11), radius=1.6, pixel_scales=(0.4, 0.45), centre=(0.3, -0.2))
    for sub in (1, 2):
        tag = ("border", sub)
        try:
            over_sampler = aa.OverSamplerUniform(mask=mask_b, sub_size=sub)
            grid = over_sampler.over_sampled_grid
            arr = np.array(grid)
            src = np.stack((arr[:, 0] * 1.1 + 0.7, arr[:, 1] * 0.9 - 1.3), axis=1)
            src[3] = [9.0, -7.0]  # an outlier that the border relocates
            spdg = aa.Grid2DIrregular(values=src)
            relocator = aa.BorderRelocator(mask=mask_b, sub_size=sub)
            mesh = aa.mesh.Rectangular(shape=(5, 4))
            mapper_grids = mesh.mapper_grids_from(
                mask=mask_b, border_relocator=relocator, source_plane_data_grid=spdg
            )
            mapper = aa.Mapper(mapper_grids=mapper_grids, over_sampler=over_sampler, regularization=None)
            mesh_record((tag, "mesh"), mapper.source_plane_mesh_grid)
            rec((tag, "mapping_matrix"), np.array(mapper.mapping_matrix))
        except Exception as e:
            rec((tag, "EXC"), (type(e).__name__, str(e)))

    # repeated calls on a shared grid object give independent, equal meshes
    g = rng.uniform(-2, 5, size=(30, 2))
    g[:, 1] -= 4.0
    m1 = aa.Mesh2DRectangular.overlay_grid(shape_native=(3, 5), grid=g)
    m2 = aa.Mesh2DRectangular.overlay_grid(shape_native=(3, 5), grid=g)
    rec("repeat_equal", bool((np.array(m1) == np.array(m2)).all()))
    rec("repeat_share", bool(np.shares_memory(np.array(m1), np.array(m2))))
    g[0] = [100.0, -100.0]
    m3 = aa.Mesh2DRectangular.overlay_grid(shape_native=(3, 5), grid=g)
    mesh_record("repeat_after_mutation", m3)
    mesh_record("repeat_first_unchanged", m1)

    # fixture used by the test-suite
    try:
        from autoarray import fixtures

        mesh_record("fixture", fixtures.make_rectangular_mesh_grid_3x3())
    except Exception as e:
        rec("fixture_EXC", (type(e).__name__, str(e)))

    print("records", N_RECORDS)
    print("digest", H.hexdigest())


if __name__ == "__main__":
    main()
