"""
Differential test for the C13-5 twin (hoisted empty-row test in the DFT mapping-matrix transforms).

Prints a sha256 digest over every result (bytes of returned arrays, dtypes, shapes, raised exception types and
whether the inputs were left untouched). The digest must be identical on the clean HEAD tree and on the twin tree.
Only public / pre-existing entry points are used (the new helper is never called directly).

    cd /tmp/wt8/C13-5 && PYTHONPATH=/tmp/wt8/C13-5 /venv/bin/python equiv.py
"""
import hashlib
import sys
import types
import warnings

warnings.filterwarnings("ignore")

import numpy as np

pylops = types.ModuleType("pylops")


class LinearOperator:
    def __init__(self, *args, **kwargs):
        pass


pylops.LinearOperator = LinearOperator
sys.modules.setdefault("pylops", pylops)

import autoarray as aa
from autoarray.operators import transformer_util

H = hashlib.sha256()
N_RECORDS = 0


def record(tag, obj):
    global N_RECORDS
    N_RECORDS += 1
    H.update(tag.encode())
    if isinstance(obj, BaseException):
        H.update(b"EXC:" + type(obj).__name__.encode())
    elif isinstance(obj, np.ndarray):
        arr = np.ascontiguousarray(obj)
        H.update(str(arr.dtype).encode() + str(arr.shape).encode())
        H.update(arr.tobytes())
    else:
        H.update(repr(obj).encode())


def call(tag, func, **kwargs):
    """call func, record result or exception type, and record that array inputs were not modified"""
    before = {
        k: (v.shape, str(v.dtype), np.asarray(v).tobytes())
        for k, v in kwargs.items()
        if isinstance(v, np.ndarray)
    }
    try:
        with np.errstate(all="ignore"):
            result = func(**kwargs)
    except Exception as e:  # noqa
        record(tag, e)
        result = None
    else:
        record(tag, np.asarray(result))
        record(tag + ":type", type(result).__name__)
    for k, v in before.items():
        now = kwargs[k]
        record(tag + ":unchanged:" + k, v == (now.shape, str(now.dtype), np.asarray(now).tobytes()))
    return result


rng = np.random.default_rng(13005)


def grid_uv(n_image, n_vis, kind=0):
    grid = rng.uniform(-1.0e-5, 1.0e-5, size=(n_image, 2))
    uv = rng.uniform(-3.0e5, 3.0e5, size=(n_vis, 2))
    if kind == 1 and n_vis > 1:
        uv[0] = 0.0
        uv[-1] = uv[0]
    return grid, uv


def preload(grid, uv):
    reals = transformer_util.preload_real_transforms(grid_radians=grid, uv_wavelengths=uv)
    imags = transformer_util.preload_imag_transforms(grid_radians=grid, uv_wavelengths=uv)
    return reals, imags


def matrices(n_image, n_source):
    """a zoo of mapping matrices with n_image rows and n_source columns"""
    out = []
    shape = (n_image, n_source)
    # continuous random, any sign
    out.append(("cont", rng.normal(size=shape)))
    # sparse non-negative interpolation-like weights with empty rows
    m = rng.uniform(size=shape) * (rng.uniform(size=shape) < 0.3)
    if n_image:
        m[rng.integers(0, n_image, size=max(1, n_image // 3))] = 0.0
    out.append(("sparse", m))
    # small integer valued: many rows cancel exactly
    out.append(("smallint", rng.integers(-2, 3, size=shape).astype(float)))
    # dyadic
    out.append(("dyadic", rng.integers(-4, 5, size=shape) / 4.0))
    # difference basis: +w / -w per row (the trigger of the seed)
    m = np.zeros(shape)
    if n_source >= 2:
        for i in range(n_image):
            a, b = rng.choice(n_source, size=2, replace=False)
            w = rng.choice([0.25, 0.5, 1.0, 2.0, 0.1, 0.3])
            m[i, a] = w
            m[i, b] = -w
    out.append(("diff", m))
    # all zeros, negative zeros
    out.append(("zeros", np.zeros(shape)))
    out.append(("negzeros", -np.zeros(shape)))
    # nan / inf entries, including rows that sum to nan, inf - inf, and cancelling rows next to them
    m = rng.integers(-1, 2, size=shape).astype(float)
    if n_image >= 3 and n_source >= 2:
        m[0, 0] = np.nan
        m[1, 0] = np.inf
        m[1, 1] = -np.inf
        m[2, :] = 0.0
        m[2, 0] = 1.0e-320
        m[2, 1] = -1.0e-320
    out.append(("nonfinite", m))
    # huge cancelling / overflowing sums
    m = np.zeros(shape)
    if n_source >= 2 and n_image >= 2:
        m[0, 0] = 1.0e308
        m[0, 1] = 1.0e308
        m[1, 0] = 1.0e308
        m[1, 1] = -1.0e308
    out.append(("huge", m))
    # other dtypes
    out.append(("int64", rng.integers(-2, 3, size=shape)))
    out.append(("int8", rng.integers(-2, 3, size=shape).astype(np.int8)))
    out.append(("uint8", rng.integers(0, 3, size=shape).astype(np.uint8)))
    out.append(("bool", rng.uniform(size=shape) < 0.3))
    out.append(("float32", rng.integers(-2, 3, size=shape).astype(np.float32) / 2))
    out.append(("complex", rng.integers(-1, 2, size=shape) + 1j * rng.integers(-1, 2, size=shape)))
    # memory layouts
    out.append(("fortran", np.asfortranarray(rng.integers(-2, 3, size=shape).astype(float))))
    big = rng.integers(-2, 3, size=(2 * n_image, 2 * n_source)).astype(float)
    out.append(("strided", big[::2, ::2]))
    out.append(("transposed", rng.integers(-2, 3, size=(n_source, n_image)).astype(float).T))
    return out


# ---------------------------------------------------------------------------------------------------------------
# 1. the two util kernels, called directly
# ---------------------------------------------------------------------------------------------------------------
for n_image, n_source, n_vis in [
    (6, 3, 5),
    (1, 1, 1),
    (1, 4, 2),
    (5, 1, 3),
    (9, 7, 4),
    (0, 3, 2),
    (4, 0, 2),
    (0, 0, 1),
    (4, 3, 0),
    (12, 5, 6),
]:
    for kind in (0, 1):
        grid, uv = grid_uv(n_image, n_vis, kind)
        reals, imags = preload(grid, uv)
        for name, m in matrices(n_image, n_source):
            tag = f"util:{n_image},{n_source},{n_vis},{kind}:{name}"
            r1 = call(
                tag + ":direct",
                transformer_util.transformed_mapping_matrix_jit,
                mapping_matrix=m,
                grid_radians=grid,
                uv_wavelengths=uv,
            )
            r2 = call(
                tag + ":preload",
                transformer_util.transformed_mapping_matrix_via_preload_jit_from,
                mapping_matrix=m,
                preloaded_reals=reals,
                preloaded_imags=imags,
            )
            # repeated call: fresh, equal, independent result object
            r3 = call(
                tag + ":preload2",
                transformer_util.transformed_mapping_matrix_via_preload_jit_from,
                mapping_matrix=m,
                preloaded_reals=reals,
                preloaded_imags=imags,
            )
            record(tag + ":fresh", r2 is not r3 and (r2 is None or not np.shares_memory(r2, r3)))
            record(tag + ":noalias", r2 is None or not np.shares_memory(r2, m))

# 2. shape mismatches and malformed inputs (exception types must be the same)
grid, uv = grid_uv(4, 3)
reals, imags = preload(grid, uv)
bad = [
    ("more_rows_nonzero", np.ones((6, 2))),
    ("more_rows_cancel", np.array([[0.0, 0.0]] * 4 + [[1.0, -1.0], [0.0, 0.0]])),
    ("more_rows_zero", np.zeros((6, 2))),
    ("more_rows_tailzero", np.vstack([np.ones((4, 2)), np.zeros((2, 2))])),
    ("fewer_rows", np.array([[1.0, -1.0], [2.0, 0.0]])),
    ("one_d", np.ones(4)),
    ("zero_d", np.array(1.0)),
    ("three_d_nonzero", np.ones((4, 2, 2))),
    ("three_d_k1", np.ones((4, 2, 1))),
    ("matrix", np.matrix([[0.5, -0.5], [0.0, 0.0], [1.0, 2.0], [0.0, 3.0]])),
    ("object", np.array([[1, -1], [0, 0], [2, 0], [0, 0.5]], dtype=object)),
    ("masked", np.ma.array([[1.0, -1.0], [0.0, 0.0], [2.0, 0.0], [0.0, 0.5]])),
]
for name, m in bad:
    call(
        "bad:direct:" + name,
        transformer_util.transformed_mapping_matrix_jit,
        mapping_matrix=m,
        grid_radians=grid,
        uv_wavelengths=uv,
    )
    call(
        "bad:preload:" + name,
        transformer_util.transformed_mapping_matrix_via_preload_jit_from,
        mapping_matrix=m,
        preloaded_reals=reals,
        preloaded_imags=imags,
    )
for name, m in [("list", [[1.0, -1.0], [0.0, 0.0]]), ("none", None)]:
    for fname, f, kw in [
        ("direct", transformer_util.transformed_mapping_matrix_jit, dict(grid_radians=grid, uv_wavelengths=uv)),
        (
            "preload",
            transformer_util.transformed_mapping_matrix_via_preload_jit_from,
            dict(preloaded_reals=reals, preloaded_imags=imags),
        ),
    ]:
        try:
            record(f"bad:{fname}:{name}", np.asarray(f(mapping_matrix=m, **kw)))
        except Exception as e:  # noqa
            record(f"bad:{fname}:{name}", e)
# mismatched preload tables (reals larger than imags etc.)
call(
    "bad:preload:tables",
    transformer_util.transformed_mapping_matrix_via_preload_jit_from,
    mapping_matrix=np.array([[1.0, -1.0], [0.0, 0.0], [1.0, 1.0], [0.0, 2.0]]),
    preloaded_reals=reals,
    preloaded_imags=imags[:, :2],
)
call(
    "bad:direct:grid_short",
    transformer_util.transformed_mapping_matrix_jit,
    mapping_matrix=np.array([[0.0, 0.0], [0.0, 0.0], [0.0, 0.0], [1.0, -1.0]]),
    grid_radians=grid[:3],
    uv_wavelengths=uv,
)

# ---------------------------------------------------------------------------------------------------------------
# 3. class layer: TransformerDFT with several masks / pixel scales / origins, preload on and off
# ---------------------------------------------------------------------------------------------------------------
def masks():
    out = []
    m = np.ones((4, 5), dtype=bool)
    m[0, 1:4] = False
    m[1, 2] = False
    m[2, 0] = False
    m[3, 4] = False
    out.append(("edges", m, (0.3, 0.2), (0.1, -0.2)))
    out.append(("full", np.zeros((3, 3), dtype=bool), 0.1, (0.0, 0.0)))
    m = np.ones((3, 7), dtype=bool)
    m[1, 3] = False
    out.append(("single", m, (1.0, 0.05), (-2.0, 3.0)))
    m = np.ones((6, 2), dtype=bool)
    m[:, 0] = False
    out.append(("column", m, (0.05, 0.5), (0.0, 1.0)))
    m = rng.uniform(size=(5, 6)) < 0.5
    m[2, 2] = False
    out.append(("random", m, 0.25, (0.3, 0.3)))
    return out


uv_sets = [
    np.array([[1.0e5, 2.0e5], [0.0, 0.0], [-3.0e5, 5.0e4], [1.0e5, 2.0e5], [7.0e4, -9.0e4]]),
    np.array([[-2.5e4, 1.0e3]]),
    rng.uniform(-1.0e6, 1.0e6, size=(7, 2)),
]

for mname, m, pixel_scales, origin in masks():
    real_space_mask = aa.Mask2D(mask=m, pixel_scales=pixel_scales, origin=origin)
    n_image = real_space_mask.pixels_in_mask
    for iu, uv in enumerate(uv_sets):
        for preload_transform in (False, True):
            transformer = aa.TransformerDFT(
                uv_wavelengths=uv, real_space_mask=real_space_mask, preload_transform=preload_transform
            )
            for n_source in (1, 2, 3, 5):
                for name, mm in matrices(n_image, n_source):
                    if name in ("strided", "transposed", "fortran", "int8", "uint8", "huge"):
                        continue
                    tag = f"cls:{mname}:{iu}:{preload_transform}:{n_source}:{name}"
                    t1 = call(tag, transformer.transform_mapping_matrix, mapping_matrix=mm)
                    t2 = call(tag + ":again", transformer.transform_mapping_matrix, mapping_matrix=mm)
                    record(tag + ":fresh", t1 is None or not np.shares_memory(t1, t2))
            # the trigger matrix of the notes, when it fits
            if n_image == 6:
                trig = np.array(
                    [
                        [0.5, -0.5, 0.0],
                        [0.0, 1.0, -1.0],
                        [-0.25, 0.0, 0.25],
                        [2.0, -1.0, -1.0],
                        [0.0, 0.0, 0.0],
                        [0.3, 0.7, 0.0],
                    ]
                )
                call(f"cls:{mname}:{iu}:{preload_transform}:trigger", transformer.transform_mapping_matrix, mapping_matrix=trig)
            # transformer state not disturbed by the transforms
            record(f"cls:{mname}:{iu}:{preload_transform}:uv", np.asarray(transformer.uv_wavelengths))
            record(f"cls:{mname}:{iu}:{preload_transform}:grid", np.asarray(transformer.grid))
            if preload_transform:
                record(f"cls:{mname}:{iu}:reals", np.asarray(transformer.preload_real_transforms))
                record(f"cls:{mname}:{iu}:imags", np.asarray(transformer.preload_imag_transforms))

# ---------------------------------------------------------------------------------------------------------------
# 4. downstream: data vector / curvature matrix built from a transformed signed mapping matrix
# ---------------------------------------------------------------------------------------------------------------
from autoarray.inversion.inversion.interferometer import inversion_interferometer_util as iiu

mname, m, pixel_scales, origin = masks()[0]
real_space_mask = aa.Mask2D(mask=m, pixel_scales=pixel_scales, origin=origin)
for preload_transform in (False, True):
    transformer = aa.TransformerDFT(
        uv_wavelengths=uv_sets[0], real_space_mask=real_space_mask, preload_transform=preload_transform
    )
    for name, mm in matrices(real_space_mask.pixels_in_mask, 3):
        if mm.dtype.kind not in "fiu":
            continue
        t = transformer.transform_mapping_matrix(mapping_matrix=mm)
        vis = rng.normal(size=5) + 1j * rng.normal(size=5)
        noise = rng.uniform(0.5, 2.0, size=5) + 1j * rng.uniform(0.5, 2.0, size=5)
        with np.errstate(all="ignore"):
            dv = iiu.data_vector_via_transformed_mapping_matrix_from(
                transformed_mapping_matrix=t, visibilities=vis, noise_map=noise
            )
        record(f"down:{preload_transform}:{name}:dv", np.asarray(dv))

print("records", N_RECORDS)
print("digest", H.hexdigest())
