"""
Differential test for the C14-7 twin: `Array2D.trimmed_after_convolution_from` (and the dataset-level wrapper).

Prints a sha256 digest over every observable of every result (or the raised exception type). The digest must be
identical on the clean HEAD tree and on the tree with twin.patch applied.

Run: cd /tmp/wt10/C14-7 && PYTHONPATH=/tmp/wt10/C14-7 /venv/bin/python -W ignore equiv.py
"""
import hashlib
import itertools
import sys
import warnings

import numpy as np

warnings.simplefilter("ignore")

import autoarray as aa
from autoconf import conf

H = hashlib.sha256()
N_RECORDS = 0
N_EXC = 0


def put(*items):
    global N_RECORDS
    N_RECORDS += 1
    for it in items:
        if isinstance(it, np.ndarray):
            H.update(str(it.dtype).encode())
            H.update(repr(it.shape).encode())
            H.update(np.ascontiguousarray(it).tobytes())
        else:
            H.update(repr(it).encode())
        H.update(b"|")
    H.update(b"\n")


def describe(result, source):
    """Every caller-visible observable of a trimmed array."""
    arr = np.array(result._array)
    nat = np.array(result.native._array)
    slim = np.array(result.slim._array)
    m = np.array(result.mask)
    put(
        type(result).__name__,
        tuple(int(s) for s in result.shape_native),
        int(result.shape_slim),
        bool(result.store_native),
        arr,
        nat,
        slim,
        m,
        type(result.mask).__name__,
        tuple(float(p) for p in result.mask.pixel_scales),
        tuple(float(o) for o in result.mask.origin),
        int(result.mask.pixels_in_mask),
        result.header is source.header,
        result.mask is source.mask,
        bool(np.shares_memory(np.array(result.mask), np.array(source.mask))),
        bool(np.shares_memory(result._array, source._array)),
    )
    # coordinates of the unmasked pixels
    if result.mask.pixels_in_mask > 0:
        grid = aa.Grid2D.from_mask(mask=result.mask)
        put(np.array(grid._array))


def run_trim(source, kernel_shape, tag):
    global N_EXC
    before_vals = np.array(source._array).copy()
    before_mask = np.array(source.mask).copy()
    put("CASE", tag, repr(kernel_shape))
    try:
        result = source.trimmed_after_convolution_from(kernel_shape=kernel_shape)
    except Exception as e:  # noqa
        N_EXC += 1
        put("EXC", type(e).__name__)
        result = None
    if result is not None:
        try:
            describe(result, source)
        except Exception as e:  # noqa
            N_EXC += 1
            put("EXC-describe", type(e).__name__)
    # no in-place effect on the input
    put(
        "INPUT",
        np.array_equal(before_vals, np.array(source._array), equal_nan=True)
        if before_vals.dtype.kind in "fc"
        else np.array_equal(before_vals, np.array(source._array)),
        np.array_equal(before_mask, np.array(source.mask)),
    )
    return result


rng = np.random.RandomState(1407)

SHAPES = [(6, 5), (5, 6), (1, 1), (2, 2), (3, 7), (7, 3), (1, 6), (9, 9)]
GEOMS = [((1.0, 1.0), (0.0, 0.0)), ((1.0, 2.0), (0.5, -1.0)), ((0.05, 0.05), (-3.0, 2.0))]
KERNELS = [
    (1, 1), (3, 3), (5, 3), (1, 7), (3, 5), (7, 7),
    (2, 2), (4, 6), (3, 4), (6, 1),
    (0, 0), (9, 9), (11, 3), (13, 13),
    (-1, -2), (-3, 3),
    (3.0, 3.0), (4.5, 3), (2.5, 5.0),
    (np.int64(3), np.int32(5)), (np.float64(3.0), 3), (True, 3),
    [3, 3], np.array([5, 3]),
]
BAD_KERNELS = [("3", 3), (3,), None, 3, (None, 3), (3 + 0j, 3)]


def masks_for(shape):
    ny, nx = shape
    out = {}
    out["all_false"] = np.zeros(shape, dtype=bool)
    out["all_true"] = np.ones(shape, dtype=bool)
    m = np.ones(shape, dtype=bool)
    m[ny // 2, nx // 2] = False
    out["single"] = m
    m = np.ones(shape, dtype=bool)
    m[0, :] = False
    m[:, 0] = False
    out["top_left_edges"] = m
    m = np.ones(shape, dtype=bool)
    m[-1, :] = False
    m[:, -1] = False
    out["bottom_right_edges"] = m
    m = np.zeros(shape, dtype=bool)
    m[0, 0] = True
    m[-1, -1] = True
    out["corners_masked"] = m
    out["random_a"] = rng.rand(*shape) < 0.5
    out["random_b"] = rng.rand(*shape) < 0.8
    return out


header = aa.Header(header_sci_obj={"EXPTIME": 10.0}, header_hdu_obj={"BSCALE": 1.0})

# ---------------------------------------------------------------------------------------------------------------
# 1) masked / unmasked arrays, slim and native storage, header or not, all kernel shapes
# ---------------------------------------------------------------------------------------------------------------
for shape in SHAPES:
    values = rng.normal(size=shape) + 10.0
    for (mname, m2d), (ps, origin) in itertools.product(masks_for(shape).items(), GEOMS):
        mask = aa.Mask2D(mask=m2d, pixel_scales=ps, origin=origin)
        for store_native, hdr in [(False, None), (True, header)]:
            array = aa.Array2D(
                values=values, mask=mask, header=hdr, store_native=store_native
            )
            for k in KERNELS:
                run_trim(array, k, f"{shape}-{mname}-{ps}-{origin}-{store_native}")

# ---------------------------------------------------------------------------------------------------------------
# 2) invalid kernel shapes -> same exception types
# ---------------------------------------------------------------------------------------------------------------
for shape in [(6, 5), (1, 1)]:
    for mname in ["all_false", "random_a"]:
        mask = aa.Mask2D(mask=masks_for(shape)[mname], pixel_scales=(1.0, 2.0), origin=(0.5, -1.0))
        array = aa.Array2D(values=np.arange(1.0, 1.0 + shape[0] * shape[1]).reshape(shape), mask=mask)
        for k in BAD_KERNELS:
            run_trim(array, k, f"bad-{shape}-{mname}")

# ---------------------------------------------------------------------------------------------------------------
# 3) pad -> trim round trip (the seed's trigger), both pad values, masked arrays
# ---------------------------------------------------------------------------------------------------------------
for shape in [(6, 5), (3, 7), (1, 1), (2, 2)]:
    values = np.arange(1.0, 1.0 + shape[0] * shape[1]).reshape(shape)
    for mname, m2d in masks_for(shape).items():
        mask = aa.Mask2D(mask=m2d, pixel_scales=(1.0, 2.0), origin=(0.5, -1.0))
        for store_native in [False, True]:
            array = aa.Array2D(values=values, mask=mask, store_native=store_native, header=header)
            for k in [(3, 3), (5, 3), (1, 7), (3, 5), (4, 4), (2, 3)]:
                for pad_value in [0, 1]:
                    padded = array.padded_before_convolution_from(
                        kernel_shape=k, mask_pad_value=pad_value
                    )
                    trimmed = run_trim(padded, k, f"roundtrip-{shape}-{mname}-{store_native}-{pad_value}")
                    if trimmed is not None:
                        put(
                            "RT",
                            tuple(trimmed.shape_native) == tuple(array.shape_native),
                            np.array_equal(np.array(trimmed.mask), np.array(array.mask)),
                            int(trimmed.shape_slim),
                        )
                        # trimming twice / trimming the trimmed result again
                        run_trim(trimmed, k, "roundtrip-again")

# ---------------------------------------------------------------------------------------------------------------
# 4) dtypes and non-finite values, incl. non-finite / non-zero values at masked pixels of natively stored arrays
# ---------------------------------------------------------------------------------------------------------------
shape = (6, 5)
m2d = masks_for(shape)["random_a"]
m2d[0, 0] = True
m2d[2, 2] = True
m2d[3, 3] = False
mask = aa.Mask2D(mask=m2d, pixel_scales=(1.0, 2.0), origin=(0.5, -1.0))
base = np.arange(1.0, 31.0).reshape(shape)

v_nan = base.copy()
v_nan[2, 2] = np.nan
v_nan[0, 0] = np.inf
v_nan[3, 3] = np.nan
v_nan[1, 1] = -np.inf

typed = {
    "int64": base.astype("int64"),
    "int32": base.astype("int32"),
    "uint8": base.astype("uint8"),
    "bigint": (base.astype("int64") + 2**60 + 1),
    "float32": (base / 3.0).astype("float32"),
    "float16": (base / 3.0).astype("float16"),
    "bool": (base % 2 == 0),
    "nonfinite": v_nan,
    "complex": base + 1j * base,
    "list": base.tolist(),
}
for name, vals in typed.items():
    for store_native, skip_mask in [(False, False), (True, False), (True, True), (False, True)]:
        try:
            array = aa.Array2D(
                values=vals, mask=mask, store_native=store_native, skip_mask=skip_mask
            )
        except Exception as e:  # noqa
            put("CONSTRUCT-EXC", name, type(e).__name__)
            continue
        for k in [(1, 1), (3, 3), (5, 3), (2, 4), (7, 7), (3.0, 3)]:
            run_trim(array, k, f"dtype-{name}-{store_native}-{skip_mask}")

# slim input (1D) values, object built from slim data
slim_vals = np.arange(1.0, 1.0 + mask.pixels_in_mask)
array = aa.Array2D(values=slim_vals, mask=mask)
for k in [(3, 3), (5, 5), (1, 3)]:
    run_trim(array, k, "slim-input")

# ---------------------------------------------------------------------------------------------------------------
# 5) other Array2D flavours: no_mask / full / Kernel2D / results of arithmetic / sliced objects
# ---------------------------------------------------------------------------------------------------------------
a_nm = aa.Array2D.no_mask(values=base, pixel_scales=(1.0, 2.0), origin=(0.5, -1.0), header=header)
a_full = aa.Array2D.full(fill_value=2.0, shape_native=(4, 7), pixel_scales=0.1)
kern = aa.Kernel2D.no_mask(values=np.arange(25.0).reshape(5, 5), pixel_scales=1.0)
a_arith = aa.Array2D(values=base, mask=mask) * 2.0 + 1.0
for obj, name in [(a_nm, "no_mask"), (a_full, "full"), (kern, "kernel"), (a_arith, "arith")]:
    for k in [(1, 1), (3, 3), (5, 3), (2, 2), (3, 5), (9, 9)]:
        run_trim(obj, k, f"flavour-{name}")

# ---------------------------------------------------------------------------------------------------------------
# 6) dataset layer: Imaging.trimmed_after_convolution_from
# ---------------------------------------------------------------------------------------------------------------
def triples(ds):
    g = np.array(ds.grids.uniform._array)
    return np.column_stack(
        [g.reshape(-1, 2), np.array(ds.data.slim._array), np.array(ds.noise_map.slim._array)]
    )


for shape in [(6, 5), (3, 7)]:
    vals = np.arange(1.0, 1.0 + shape[0] * shape[1]).reshape(shape)
    for mname in ["all_false", "single", "random_a", "top_left_edges"]:
        msk = aa.Mask2D(mask=masks_for(shape)[mname], pixel_scales=(1.0, 2.0), origin=(0.5, -1.0))
        data = aa.Array2D(values=vals, mask=msk)
        noise = aa.Array2D(values=vals + 100.0, mask=msk)
        for k in [(3, 5), (3, 3), (1, 1), (5, 3)]:
            put("DATASET", shape, mname, k)
            try:
                ds_padded = aa.Imaging(
                    data=data.padded_before_convolution_from(kernel_shape=k, mask_pad_value=1),
                    noise_map=noise.padded_before_convolution_from(kernel_shape=k, mask_pad_value=1),
                )
                ds_trim = ds_padded.trimmed_after_convolution_from(kernel_shape=k)
                describe(ds_trim.data, ds_padded.data)
                describe(ds_trim.noise_map, ds_padded.noise_map)
                put(np.array(ds_trim.mask), triples(ds_trim))
                # the un-trimmed dataset is untouched
                put(np.array(ds_padded.data.native._array), np.array(ds_padded.mask))
            except Exception as e:  # noqa
                N_EXC += 1
                put("EXC", type(e).__name__)

# ---------------------------------------------------------------------------------------------------------------
# 7) Mask2D.trimmed_array_from / unmasked_blurred_array_from (the helper the twin delegates to; must be untouched)
# ---------------------------------------------------------------------------------------------------------------
for shape, image_shape in [((7, 7), (5, 5)), ((6, 8), (4, 4)), ((5, 5), (5, 5)), ((4, 6), (3, 3))]:
    msk = aa.Mask2D(mask=masks_for(shape)["random_a"], pixel_scales=(1.0, 2.0), origin=(0.5, -1.0))
    padded = aa.Array2D.no_mask(
        values=np.arange(1.0, 1.0 + shape[0] * shape[1]).reshape(shape), pixel_scales=(1.0, 2.0), origin=(0.5, -1.0)
    )
    t = msk.trimmed_array_from(padded_array=padded, image_shape=image_shape)
    describe(t, padded)
    psf = aa.Kernel2D.no_mask(values=np.ones((3, 3)) / 9.0, pixel_scales=(1.0, 2.0))
    b = msk.unmasked_blurred_array_from(padded_array=padded, psf=psf, image_shape=image_shape)
    describe(b, padded)

# ---------------------------------------------------------------------------------------------------------------
# 8) `native_binned_only` configuration (every Array2D is stored natively)
# ---------------------------------------------------------------------------------------------------------------
structures_conf = conf.instance["general"]["structures"]
old = structures_conf["native_binned_only"]
try:
    structures_conf["native_binned_only"] = True
    put("NBO", bool(conf.instance["general"]["structures"]["native_binned_only"]))
    for name in ["int64", "nonfinite", "float32", "bool"]:
        for skip_mask in [False, True]:
            array = aa.Array2D(values=typed[name], mask=mask, skip_mask=skip_mask, header=header)
            for k in [(1, 1), (3, 3), (5, 3), (2, 4), (7, 7)]:
                run_trim(array, k, f"nbo-{name}-{skip_mask}")
            padded = array.padded_before_convolution_from(kernel_shape=(3, 5), mask_pad_value=1)
            run_trim(padded, (3, 5), f"nbo-roundtrip-{name}-{skip_mask}")
except Exception as e:  # noqa
    put("NBO-EXC", type(e).__name__)
finally:
    try:
        structures_conf["native_binned_only"] = old
    except Exception:  # noqa
        pass

print(f"records {N_RECORDS} exceptions {N_EXC}", file=sys.stderr)
print(H.hexdigest())
