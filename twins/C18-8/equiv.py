"""
Differential test for the C18-8 twin (sub_slim_indexes_for_slim_index_via_mask_2d_from and its consumers).

Prints a sha256 digest over the repr of every result (return values with element types, raised exception types).
Run on the clean HEAD tree and on the twin tree: the digests must be identical.

    cd /tmp/wt10/C18-8 && PYTHONPATH=/tmp/wt10/C18-8 /venv/bin/python -W ignore equiv.py
"""
import hashlib
import sys
import warnings

import numpy as np

warnings.filterwarnings("ignore")

import autoarray as aa
from autoarray.inversion.pixelization import border_relocator as br

H = hashlib.sha256()
N_RECORDS = 0
N_EXC = 0
VERBOSE = "-v" in sys.argv


def canon(obj):
    """Deterministic, type-revealing description of a result."""
    if isinstance(obj, (list, tuple)):
        return type(obj).__name__ + "[" + ",".join(canon(o) for o in obj) + "]"
    if isinstance(obj, np.ndarray):
        arr = np.ascontiguousarray(obj)
        return f"nd<{arr.dtype}|{arr.shape}|{hashlib.sha256(arr.tobytes()).hexdigest()}>"
    if hasattr(obj, "_array") or hasattr(obj, "native"):
        return type(obj).__name__ + ":" + canon(np.array(obj))
    return f"{type(obj).__name__}:{obj!r}"


def record(label, fn):
    global N_RECORDS, N_EXC
    try:
        out = canon(fn())
    except Exception as e:  # noqa
        out = "EXC:" + type(e).__name__
        N_EXC += 1
    N_RECORDS += 1
    H.update(f"{label}=>{out}\n".encode())
    if VERBOSE:
        print(label, "=>", out[:150])


# ------------------------------------------------------------------------------------------------------------------
# masks (plain bool ndarrays)
# ------------------------------------------------------------------------------------------------------------------

rng = np.random.default_rng(18008)


def plain_masks():
    masks = {}
    masks["all_masked_3x3"] = np.full((3, 3), True)
    masks["all_masked_1x1"] = np.full((1, 1), True)
    masks["empty_0x0"] = np.full((0, 0), True)
    masks["empty_0x4"] = np.full((0, 4), True)
    masks["single_1x1"] = np.full((1, 1), False)
    m = np.full((3, 3), True)
    m[1, 1] = False
    masks["single_centre"] = m
    m = np.full((4, 5), True)
    m[0, 0] = False
    masks["single_corner"] = m
    masks["all_unmasked_3x4"] = np.full((3, 4), False)
    masks["all_unmasked_1x6"] = np.full((1, 6), False)
    masks["all_unmasked_6x1"] = np.full((6, 1), False)
    masks["docstring_row"] = np.array([[True, False, True]])
    m = np.full((7, 5), True)
    m[1:6, 1:4] = False
    masks["rect_7x5"] = m
    m = np.full((6, 9), False)
    m[2:4, 3:6] = True
    masks["hole_touching_edges_6x9"] = m
    m = np.full((9, 9), True)
    m[1:8, 1:8] = False
    m[2:7, 2:7] = True
    m[3:6, 3:6] = False
    m[4, 4] = True
    masks["nested_rings_9x9"] = m
    for i, (shape, p) in enumerate(
        [((5, 8), 0.3), ((8, 5), 0.5), ((11, 7), 0.7), ((6, 6), 0.1), ((4, 13), 0.9)]
    ):
        masks[f"random_{i}"] = rng.random(shape) < p
    # int-valued mask (0 == unmasked)
    masks["int_mask"] = (rng.random((5, 6)) < 0.4).astype("int")
    return masks


def sub_size_variants(n):
    """sub_size inputs for a mask with n unmasked pixels (valid and contract-violating ones)."""
    v = {}
    for s in (1, 2, 3, 4):
        v[f"uniform_{s}"] = np.full(n, s, dtype="int")
    v["uniform_2_list"] = [2] * n
    v["uniform_2_int32"] = np.full(n, 2, dtype="int32")
    v["uniform_2_uint8"] = np.full(n, 2, dtype="uint8")
    v["map_1_4"] = rng.integers(1, 5, size=n)
    v["map_2_4_alt"] = np.where(np.arange(n) % 2 == 0, 2, 4)
    v["map_increasing"] = 1 + (np.arange(n) * 5) // max(n, 1)
    v["map_decreasing"] = 5 - (np.arange(n) * 5) // max(n, 1)
    v["map_first_large"] = np.where(np.arange(n) == 0, 8, 1)
    v["map_last_large"] = np.where(np.arange(n) == n - 1, 8, 1)
    v["map_list"] = [int(x) for x in rng.integers(1, 4, size=n)]
    v["map_with_zeros"] = rng.integers(0, 3, size=n)
    v["all_zeros"] = np.zeros(n, dtype="int")
    v["map_with_negatives"] = rng.integers(-2, 3, size=n)
    v["float_uniform"] = np.full(n, 2.0)
    v["float_map"] = rng.integers(1, 4, size=n).astype("float")
    v["float_nan"] = np.full(n, np.nan)
    v["bool"] = np.full(n, True)
    v["object_ints"] = np.array([int(x) for x in rng.integers(1, 4, size=n)], dtype=object)
    v["column_2d"] = np.full((n, 1), 2, dtype="int")
    v["too_short"] = np.full(max(n - 1, 0), 2, dtype="int")
    v["too_long_1"] = np.full(n + 1, 2, dtype="int")
    v["too_long_map"] = rng.integers(1, 4, size=n + 3)
    v["empty"] = np.zeros(0, dtype="int")
    v["scalar_2"] = 2
    v["scalar_0"] = 0
    v["scalar_0d"] = np.array(3)
    v["none"] = None
    v["string"] = "ab"
    return v


# ------------------------------------------------------------------------------------------------------------------
# 1) the restructured function itself, and the util that consumes it
# ------------------------------------------------------------------------------------------------------------------

for mname, m in plain_masks().items():
    n = int(np.sum(~m.astype(bool))) if m.size else 0
    for sname, s in sub_size_variants(n).items():
        s_before = repr(s)
        record(
            f"lists|{mname}|{sname}",
            lambda: br.sub_slim_indexes_for_slim_index_via_mask_2d_from(mask_2d=m, sub_size=s),
        )
        # inputs must not be altered
        record(f"lists-input-unchanged|{mname}|{sname}", lambda: repr(s) == s_before)
        record(
            f"subborder|{mname}|{sname}",
            lambda: br.sub_border_pixel_slim_indexes_from(mask_2d=m, sub_size=s),
        )

# freshness of the returned lists: two calls, mutate the first result, second unaffected; no list shared within
m = plain_masks()["rect_7x5"]
s = np.where(np.arange(15) % 3 == 0, 3, 2)
r1 = br.sub_slim_indexes_for_slim_index_via_mask_2d_from(mask_2d=m, sub_size=s)
r1[0].append(-1)
r1[3].clear()
r2 = br.sub_slim_indexes_for_slim_index_via_mask_2d_from(mask_2d=m, sub_size=s)
record("fresh-lists", lambda: r2)
record("no-shared-inner-lists", lambda: len({id(x) for x in r2}) == len(r2))
record("elem-types", lambda: sorted({type(i).__name__ for l in r2 for i in l}))

# wrong mask dimensionality
record("mask-1d", lambda: br.sub_slim_indexes_for_slim_index_via_mask_2d_from(np.array([False, True]), np.array([2])))
record(
    "mask-3d",
    lambda: br.sub_slim_indexes_for_slim_index_via_mask_2d_from(np.full((2, 2, 2), False), np.full(8, 2)),
)

# ------------------------------------------------------------------------------------------------------------------
# 2) BorderRelocator on aa.Mask2D objects
# ------------------------------------------------------------------------------------------------------------------


def aa_masks():
    out = {}
    out["circ_centred"] = aa.Mask2D.circular(shape_native=(15, 15), radius=2.6, pixel_scales=0.4)
    out["circ_offcentre_nonsquare"] = aa.Mask2D.circular(
        shape_native=(14, 21), radius=1.3, pixel_scales=(0.3, 0.2), centre=(0.4, -0.6)
    )
    out["circ_origin"] = aa.Mask2D.circular(
        shape_native=(17, 13), radius=2.0, pixel_scales=(0.25, 0.4), origin=(1.5, -2.5), centre=(1.6, -2.2)
    )
    out["circ_clipped_by_edges"] = aa.Mask2D.circular(shape_native=(9, 12), radius=5.0, pixel_scales=1.0)
    out["annular"] = aa.Mask2D.circular_annular(
        shape_native=(21, 18), inner_radius=0.7, outer_radius=2.2, pixel_scales=(0.3, 0.35), centre=(-0.2, 0.3)
    )
    out["elliptical_demo"] = aa.Mask2D.elliptical(
        shape_native=(19, 24),
        major_axis_radius=1.6,
        axis_ratio=0.6,
        angle=30.0,
        pixel_scales=(0.2, 0.25),
        centre=(0.2, -0.5),
    )
    out["all_false"] = aa.Mask2D.all_false(shape_native=(5, 7), pixel_scales=(0.5, 0.3))
    out["all_true"] = aa.Mask2D(mask=np.full((4, 4), True), pixel_scales=1.0)
    m = np.full((5, 5), True)
    m[2, 3] = False
    out["single_pixel"] = aa.Mask2D(mask=m, pixel_scales=(2.0, 0.5), origin=(0.3, 0.1))
    out["random"] = aa.Mask2D(mask=rng.random((10, 13)) < 0.45, pixel_scales=(0.7, 0.9), origin=(-1.0, 2.0))
    out["docstring_rings"] = aa.Mask2D(mask=plain_masks()["nested_rings_9x9"], pixel_scales=1.0)
    return out


def relocator_sub_sizes(mask):
    n = mask.pixels_in_mask
    grid = np.array(aa.Grid2D.from_mask(mask=mask)) if n else np.zeros((0, 2))
    out = {"int1": 1, "int2": 2, "int3": 3}
    if n:
        c = grid.mean(axis=0)
        d = np.sqrt(((grid - c) ** 2).sum(axis=1))
        out["adaptive_4_2"] = aa.Array2D(values=np.where(d < np.median(d), 4, 2).astype("int"), mask=mask)
        out["adaptive_1_3_outer_fine"] = aa.Array2D(values=np.where(d < np.median(d), 1, 3).astype("int"), mask=mask)
        out["random_map"] = aa.Array2D(values=rng.integers(1, 5, size=n), mask=mask)
        out["ndarray_map"] = rng.integers(1, 4, size=n)
        out["uniform_array2d"] = aa.Array2D(values=np.full(n, 2, dtype="int"), mask=mask)
    return out


for mname, mask in aa_masks().items():
    for sname, sub_size in relocator_sub_sizes(mask).items():
        label = f"reloc|{mname}|{sname}"
        try:
            relocator = aa.BorderRelocator(mask=mask, sub_size=sub_size)
        except Exception as e:  # noqa
            record(label + "|init", lambda: (_ for _ in ()).throw(e))
            continue

        record(label + "|sub_border_slim", lambda: relocator.sub_border_slim)
        record(label + "|sub_border_slim-cached-identity", lambda: relocator.sub_border_slim is relocator.sub_border_slim)
        record(label + "|sub_border_grid", lambda: relocator.sub_border_grid)
        record(label + "|border_grid", lambda: relocator.border_grid)
        record(label + "|sub_size-unchanged", lambda: np.array(relocator.sub_size))

        def sub_grid():
            return np.array(relocator.sub_grid)

        def distorted():
            g = sub_grid().copy()
            g = g * np.array([1.7, 0.6]) + np.array([0.31, -0.47])
            g[::5] *= 3.0
            g[1::7] += np.array([4.0, -6.0])
            return g

        record(label + "|relocated-identity-grid", lambda: relocator.relocated_grid_from(grid=aa.Grid2DIrregular(sub_grid())))
        record(label + "|relocated-distorted-grid", lambda: relocator.relocated_grid_from(grid=aa.Grid2DIrregular(distorted())))
        # second call on the same object (cached sub_border_slim re-used)
        record(label + "|relocated-distorted-grid-2", lambda: relocator.relocated_grid_from(grid=aa.Grid2DIrregular(distorted())))
        mesh = rng.uniform(-6.0, 6.0, size=(23, 2))
        record(
            label + "|relocated-mesh",
            lambda: relocator.relocated_mesh_grid_from(
                grid=aa.Grid2DIrregular(distorted()), mesh_grid=aa.Grid2DIrregular(mesh)
            ),
        )

print(f"records {N_RECORDS} (of which exceptions {N_EXC})")
print("digest", H.hexdigest())
