"""
Differential test for the C11-5 twin (shared `clear_cached_properties` helper).

Prints a sha256 digest over the observable results of many "read a cached quantity, derive an object, read again"
scenarios. The digest must be identical on the clean HEAD tree and on the tree with twin.patch applied.

Run:  cd /tmp/wt8/C11-5 && PYTHONPATH=/tmp/wt8/C11-5 /venv/bin/python equiv.py
"""
import copy
import hashlib
import os
import warnings

warnings.filterwarnings("ignore")

import numpy as np

import autoarray as aa
from autoconf import cached_property
from autoarray.abstract_ndarray import AbstractNDArray
from autoarray.dataset.abstract.dataset import AbstractDataset

H = hashlib.sha256()
N_RECORDS = 0


def enc(value, depth=0):
    """Deterministic, address-free encoding of a result."""
    if depth > 4:
        return "<deep>"
    if isinstance(value, AbstractNDArray):
        return "%s(%s)" % (type(value).__name__, enc(np.asarray(value.array), depth + 1))
    if isinstance(value, np.ndarray):
        if value.dtype == object:
            return "objarr[%s]" % ",".join(enc(v, depth + 1) for v in value.tolist())
        return "nd(%s,%s,%s)" % (
            value.dtype.str,
            value.shape,
            hashlib.sha256(np.ascontiguousarray(value).tobytes()).hexdigest()[:16],
        )
    if isinstance(value, (bool, int, float, complex, str, type(None), np.generic)):
        return repr(value)
    if isinstance(value, (list, tuple)):
        return "[%s]" % ",".join(enc(v, depth + 1) for v in value)
    if isinstance(value, dict):
        return "{%s}" % ",".join(
            "%s:%s" % (k, enc(v, depth + 1)) for k, v in value.items()
        )
    if hasattr(value, "simplices") and hasattr(value, "points"):
        return "Delaunay(%s,%s)" % (enc(value.points), enc(value.simplices))
    if hasattr(value, "vertices") and hasattr(value, "points"):
        return "Voronoi(%s,%s)" % (enc(value.points), enc(value.vertices))
    if hasattr(value, "sizes") and hasattr(value, "arr"):
        return "Neighbors(%s,%s)" % (enc(np.asarray(value.arr)), enc(np.asarray(value.sizes)))
    if type(value).__name__ == "OverSamplerUniform":
        return "OverSamplerUniform(%s,%s)" % (enc(value.mask, depth + 1), enc(value.sub_size, depth + 1))
    return "<%s>" % type(value).__name__


def record(label, value):
    global N_RECORDS
    N_RECORDS += 1
    line = "%s=%s" % (label, enc(value))
    if os.environ.get("EQUIV_VERBOSE"):
        print(line)
    H.update((line + "\n").encode())


def attempt(label, func):
    try:
        value = func()
    except Exception as e:  # exception TYPE is part of the behaviour
        record(label, "EXC:" + type(e).__name__)
        return None
    record(label, value)
    return value


def dict_state(obj):
    """Ordered keys of the instance dict (which cached values are present is caller visible via __dict__)."""
    return list(obj.__dict__.keys())


def shared_cached(src, new, names):
    """For each name, whether the derived object holds the very same cached object as the source."""
    out = []
    for name in names:
        if name in new.__dict__ and name in src.__dict__:
            out.append((name, new.__dict__[name] is src.__dict__[name]))
        else:
            out.append((name, name in src.__dict__, name in new.__dict__))
    return out


# ---------------------------------------------------------------------------------------------------------------------
# Generic scenario runner for array structures
# ---------------------------------------------------------------------------------------------------------------------


def derivations_for(obj):
    """name -> callable(obj) returning a derived object (or mutating obj in place and returning it)."""

    def setitem_copy(o):
        c = o.copy()
        c[0] = c[0] * 0 + 3
        return c

    def setitem_self(o):
        o[0] = o[0] * 0 + 5
        return o

    return {
        "mul2": lambda o: o * 2.0,
        "rmul": lambda o: 3.0 * o,
        "add": lambda o: o + 1.0,
        "sub_self": lambda o: o - o,
        "neg": lambda o: -o,
        "abs": lambda o: abs(o),
        "div": lambda o: o / 2.0,
        "pow": lambda o: o ** 2,
        "slice": lambda o: o[1:],
        "copy": lambda o: o.copy(),
        "copy_copy": lambda o: copy.copy(o),
        "deepcopy": lambda o: copy.deepcopy(o),
        "with_new_array": lambda o: o.with_new_array(np.array(o.array) * 0.5),
        "sqrt": lambda o: o.sqrt(),
        "reshape": lambda o: o.reshape(o.shape),
        "astype": lambda o: o.astype(o.dtype),
        "invert": lambda o: o.invert(),
        "setitem_copy": setitem_copy,
        "setitem_self": setitem_self,
        "slim": lambda o: o.slim,
        "native": lambda o: o.native,
    }


def run_structure(tag, factory, names, extra_reads=()):
    """
    factory() -> fresh object; names = cached quantities to read. For every subset-order of prior reads
    (none / each single / all) and every derivation, record the derived object's contents, its queries, its
    instance-dict state, and the source's state afterwards.
    """
    read_sets = [()] + [(n,) for n in names] + [tuple(names)] + [tuple(reversed(names))]
    probe = factory()
    for dname, deriv in derivations_for(probe).items():
        for reads in read_sets:
            label = "%s/%s/%s" % (tag, dname, "+".join(reads) or "noread")
            src = factory()
            for n in reads:
                attempt(label + "/pre/" + n, lambda: getattr(src, n))
            try:
                new = deriv(src)
            except Exception as e:
                record(label + "/derive", "EXC:" + type(e).__name__)
                continue
            record(label + "/type", type(new).__name__)
            if not hasattr(new, "__dict__"):
                record(label + "/plain", new)
                continue
            record(label + "/dict0", dict_state(new))
            record(label + "/srcdict0", dict_state(src))
            if new is not src:
                record(label + "/shared", shared_cached(src, new, names))
            if isinstance(new, AbstractNDArray):
                record(label + "/array", np.asarray(new.array))
            for n in list(names) + list(extra_reads):
                attempt(label + "/post/" + n, lambda: getattr(new, n))
            record(label + "/dict1", dict_state(new))
            # the source must still answer from its own contents
            for n in names:
                attempt(label + "/src/" + n, lambda: getattr(src, n))
            record(label + "/srcdict1", dict_state(src))
            # second generation: derive again from the derived object after its queries were read
            try:
                new2 = deriv(new)
            except Exception as e:
                record(label + "/derive2", "EXC:" + type(e).__name__)
                continue
            if hasattr(new2, "__dict__"):
                record(label + "/g2dict0", dict_state(new2))
                for n in names:
                    attempt(label + "/g2/" + n, lambda: getattr(new2, n))


# ---------------------------------------------------------------------------------------------------------------------
# Visibilities (cached properties inherited from AbstractVisibilities: the trigger of the seed)
# ---------------------------------------------------------------------------------------------------------------------

VIS = [
    np.array([1.0 + 2.0j, -3.0 + 0.5j, 0.25 - 4.0j]),
    np.array([0.0 + 0.0j]),
    np.array([1.0 + 1.0j, 2.0 - 2.0j]),
    np.arange(7) * (1.0 - 0.5j) + 0.1j,
]
for i, v in enumerate(VIS):
    run_structure("Vis%d" % i, lambda v=v: aa.Visibilities(visibilities=v.copy()), ["amplitudes", "phases"],
                  extra_reads=("in_array", "shape_slim"))
    run_structure("VisNM%d" % i, lambda v=v: aa.VisibilitiesNoiseMap(visibilities=v.copy() + (1.0 + 1.0j)),
                  ["amplitudes", "phases"], extra_reads=("weight_list_ordered_1d",))

attempt("Vis/empty", lambda: aa.Visibilities(visibilities=np.array([], dtype=complex)).amplitudes)


# ---------------------------------------------------------------------------------------------------------------------
# Grid2D / Array2D / Mask2D (cached properties declared on the concrete class)
# ---------------------------------------------------------------------------------------------------------------------


def mask_edge():
    m = np.ones((5, 4), dtype=bool)
    m[0, 0] = False
    m[0, 3] = False
    m[4, 1] = False
    m[2, 2] = False
    return aa.Mask2D(mask=m, pixel_scales=(0.5, 2.0), origin=(1.0, -2.0))


GRIDS = {
    "uni34": lambda: aa.Grid2D.uniform(shape_native=(3, 4), pixel_scales=(1.0, 2.0)),
    "uni11": lambda: aa.Grid2D.uniform(shape_native=(1, 1), pixel_scales=1.0),
    "uni52o": lambda: aa.Grid2D.uniform(shape_native=(5, 2), pixel_scales=(0.3, 0.7), origin=(2.0, -1.0)),
    "masked": lambda: aa.Grid2D.from_mask(mask=mask_edge()),
    "sub": lambda: aa.Grid2D.uniform(
        shape_native=(3, 3), pixel_scales=1.0, over_sampling=aa.OverSamplingUniform(sub_size=2)
    ),
    "submask": lambda: aa.Grid2D.from_mask(mask=mask_edge(), over_sampling=aa.OverSamplingUniform(sub_size=3)),
}
for gname, gf in GRIDS.items():
    run_structure("Grid/" + gname, gf, ["is_uniform", "over_sampler"], extra_reads=("shape_native", "pixel_scales"))

# the demo's squash case, and its read-first variant
for pre in (False, True):
    g = aa.Grid2D.uniform(shape_native=(3, 4), pixel_scales=(1.0, 2.0))
    if pre:
        record("squash/pre", g.is_uniform)
    s = g * np.array([0.37, 1.0])
    record("squash/%s" % pre, (s.is_uniform, g.is_uniform, dict_state(s), dict_state(g)))

ARRAYS = {
    "a34": lambda: aa.Array2D.no_mask(values=np.arange(12.0).reshape(3, 4) + 1.0, pixel_scales=(1.0, 2.0)),
    "a11": lambda: aa.Array2D.no_mask(values=[[4.0]], pixel_scales=1.0),
    "amask": lambda: aa.Array2D(values=np.arange(20.0).reshape(5, 4) + 1.0, mask=mask_edge()),
    "a1d": lambda: aa.Array1D.no_mask(values=[1.0, 2.0, 3.0, 4.0], pixel_scales=0.5),
    "irr": lambda: aa.ArrayIrregular(values=[1.0, 4.0, 9.0]),
    "girr": lambda: aa.Grid2DIrregular(values=[(1.0, 2.0), (3.0, 4.0), (5.0, 7.0)]),
    "vec": lambda: aa.VectorYX2D.no_mask(
        values=[[(1.0, 2.0), (3.0, 4.0)], [(5.0, 6.0), (7.0, 8.0)]], pixel_scales=1.0
    ),
    "kernel": lambda: aa.Kernel2D.no_mask(values=np.arange(9.0).reshape(3, 3) + 1.0, pixel_scales=1.0),
}
for aname, af in ARRAYS.items():
    run_structure("Arr/" + aname, af, [], extra_reads=("shape_native", "pixel_scales", "origin"))


def mask_circ(shape=(7, 6), ps=(1.0, 0.5), radius=2.0, centre=(0.0, 0.0)):
    return aa.Mask2D.circular(shape_native=shape, pixel_scales=ps, radius=radius, centre=centre)


MASKS = {
    "circ": lambda: mask_circ(shape=(7, 7), ps=(1.0, 1.0)),
    "circ_aniso": mask_circ,
    "circ_off": lambda: mask_circ(shape=(6, 9), ps=(0.5, 0.5), radius=1.2, centre=(0.5, -0.5)),
    "edge": mask_edge,
    "allfalse": lambda: aa.Mask2D.all_false(shape_native=(3, 5), pixel_scales=(2.0, 1.0)),
    "one": lambda: aa.Mask2D(mask=[[False]], pixel_scales=1.0),
    "alltrue": lambda: aa.Mask2D(mask=np.ones((3, 3), dtype=bool), pixel_scales=1.0),
    "m1d": lambda: aa.Mask1D(mask=[True, False, False, True], pixel_scales=1.0),
}
for mname, mf in MASKS.items():
    run_structure("Mask/" + mname, mf, ["circular_radius"] if mname != "m1d" else [],
                  extra_reads=("pixels_in_mask", "shape_native", "is_all_false"))


# ---------------------------------------------------------------------------------------------------------------------
# Meshes (Delaunay / Voronoi inherit cached properties from Abstract2DMeshTriangulation; Rectangular declares its own)
# ---------------------------------------------------------------------------------------------------------------------

PTS = np.array(
    [[0.0, 0.0], [1.0, 0.1], [0.2, 1.0], [1.1, 1.2], [0.5, 0.45], [2.0, 0.3], [1.8, 1.9], [-0.4, 1.7], [0.9, 2.2]]
)
TRI_NAMES = ["delaunay", "voronoi", "neighbors", "edge_pixel_list", "split_cross", "voronoi_pixel_areas_for_split"]

run_structure("Delaunay", lambda: aa.Mesh2DDelaunay(values=PTS.copy()), TRI_NAMES)
run_structure("Voronoi", lambda: aa.Mesh2DVoronoi(values=PTS.copy()), TRI_NAMES)
run_structure(
    "Rect",
    lambda: aa.Mesh2DRectangular.overlay_grid(shape_native=(3, 4), grid=PTS.copy()),
    ["neighbors", "edge_pixel_list"],
)
run_structure(
    "Rect33",
    lambda: aa.Mesh2DRectangular.overlay_grid(shape_native=(3, 3), grid=PTS[:4] * np.array([2.0, 0.5])),
    ["neighbors", "edge_pixel_list"],
)


# ---------------------------------------------------------------------------------------------------------------------
# Synthetic subclasses: inheritance depth, overriding, name mismatch, instance attributes shadowing class attributes
# ---------------------------------------------------------------------------------------------------------------------


def _total(self):
    return float(np.sum(np.abs(self.array)))


class VisOwn(aa.Visibilities):
    """own cached property + inherited ones"""

    @cached_property
    def total(self):
        return _total(self)


class VisDeep(VisOwn):
    """two levels below the declaring classes, declares nothing cached itself"""

    plain = 3


class VisOverride(VisOwn):
    """overrides an inherited cached property by something that is not one: a stored value must be KEPT"""

    amplitudes = None

    @property
    def total(self):
        return -1.0


class VisReoverride(VisOverride):
    """... and overrides it back to a cached property further down"""

    @cached_property
    def amplitudes(self):
        return np.abs(self.array) + 100.0


class VisAlias(aa.Visibilities):
    """attribute name differs from the wrapped function name (value is stored under the FUNCTION name)"""

    aliased = cached_property(_total)

    @cached_property
    def _total(self):
        return 2.0 * _total(self)


class VisAlias2(aa.Visibilities):
    """stored under '_total', which is not a class attribute here: must be kept"""

    aliased = cached_property(_total)


SYN = [VisOwn, VisDeep, VisOverride, VisReoverride, VisAlias, VisAlias2]
SYN_NAMES = ["amplitudes", "phases", "total", "aliased", "_total", "plain"]

for cls in SYN:
    for reads in [(), ("amplitudes",), ("total",), ("aliased",), ("_total",), tuple(SYN_NAMES), tuple(reversed(SYN_NAMES))]:
        for manual in (False, True):
            for dname in ("mul2", "slice", "copy", "deepcopy", "setitem_self", "setitem_copy", "with_new_array"):
                label = "Syn/%s/%s/%s/%s" % (cls.__name__, "+".join(reads) or "noread", manual, dname)
                src = cls(visibilities=VIS[0].copy())
                for n in reads:
                    attempt(label + "/pre/" + n, lambda: getattr(src, n))
                if manual:
                    # values put in the instance dict by hand under names that are / are not cached properties
                    src.__dict__["amplitudes"] = "manual-amplitudes"
                    src.__dict__["total"] = "manual-total"
                    src.__dict__["not_a_property"] = "manual-other"
                    src.__dict__["in_array"] = "manual-shadow-of-plain-property"
                deriv = derivations_for(src)[dname]
                try:
                    new = deriv(src)
                except Exception as e:
                    record(label + "/derive", "EXC:" + type(e).__name__)
                    continue
                record(label + "/dict0", dict_state(new))
                record(label + "/srcdict0", dict_state(src))
                for n in SYN_NAMES:
                    attempt(label + "/post/" + n, lambda: getattr(new, n))
                record(label + "/dict1", dict_state(new))
                record(label + "/dictvals", {k: v for k, v in new.__dict__.items()})


# ---------------------------------------------------------------------------------------------------------------------
# Datasets: trimmed_after_convolution_from
# ---------------------------------------------------------------------------------------------------------------------


def imaging_from(shape=(7, 6), ps=(1.0, 0.5), cov=False, masked=False, psf_shape=(3, 3)):
    rng = np.random.RandomState(shape[0] * 10 + shape[1])
    data = aa.Array2D.no_mask(values=rng.rand(*shape) + 1.0, pixel_scales=ps)
    noise = aa.Array2D.no_mask(values=rng.rand(*shape) + 0.5, pixel_scales=ps)
    psf = aa.Kernel2D.no_mask(values=rng.rand(*psf_shape) + 0.1, pixel_scales=ps)
    n = shape[0] * shape[1]
    ncm = None
    if cov:
        a = rng.rand(n, n)
        ncm = a @ a.T + n * np.eye(n)
    ds = aa.Imaging(data=data, noise_map=noise, psf=psf, noise_covariance_matrix=ncm)
    if masked:
        m = aa.Mask2D.circular(shape_native=shape, pixel_scales=ps, radius=2.0 * ps[0])
        ds = ds.apply_mask(mask=m)
    return ds


class ImagingSub(aa.Imaging):
    """declares nothing itself: everything cached is inherited"""


class ImagingOwn(aa.Imaging):
    @cached_property
    def data_total(self):
        return float(np.sum(self.data.array))

    convolver = None  # overrides an inherited cached property with a non-cached attribute


class PlainDataset(AbstractDataset):
    """direct subclass of AbstractDataset: `grids` and `noise_covariance_matrix_inv` are inherited"""

    def __init__(self, data, noise_map, noise_covariance_matrix=None):
        super().__init__(data=data, noise_map=noise_map, noise_covariance_matrix=noise_covariance_matrix)


DS_NAMES = ["grids", "convolver", "w_tilde", "noise_covariance_matrix_inv", "data_total"]


def ds_value(name, value):
    if name == "grids":
        return (value.uniform, value.non_uniform, value.pixelization)
    if name == "convolver":
        return None if value is None else (value.mask, value.kernel, value.image_frame_1d_lengths)
    if name == "w_tilde":
        return (value.curvature_preload, value.indexes, value.lengths, value.noise_map_value)
    return value


def run_dataset(tag, factory, kernel_shapes, names=DS_NAMES):
    read_sets = [()] + [(n,) for n in names] + [tuple(names)]
    for ks in kernel_shapes:
        for reads in read_sets:
            for manual in (False, True):
                label = "%s/%s/%s/%s" % (tag, ks, "+".join(reads) or "noread", manual)
                ds = factory()
                for n in reads:
                    attempt(label + "/pre/" + n, lambda: ds_value(n, getattr(ds, n)))
                if manual:
                    ds.__dict__["not_a_property"] = "manual-other"
                    ds.__dict__["grid"] = "manual-shadow-of-plain-property"
                before = dict_state(ds)
                try:
                    tr = ds.trimmed_after_convolution_from(kernel_shape=ks)
                except Exception as e:
                    record(label + "/trim", "EXC:" + type(e).__name__)
                    continue
                record(label + "/type", type(tr).__name__)
                record(label + "/dict0", dict_state(tr))
                record(label + "/srcdict", (before, dict_state(ds)))
                record(label + "/shared", shared_cached(ds, tr, names))
                record(label + "/data", (tr.data, tr.noise_map, tr.data.mask, tr.noise_map.mask))
                record(label + "/aliases", (getattr(tr, "psf", None) is getattr(ds, "psf", None),
                                            tr.noise_covariance_matrix is ds.noise_covariance_matrix,
                                            tr.over_sampling is ds.over_sampling))
                for n in names:
                    attempt(label + "/post/" + n, lambda: ds_value(n, getattr(tr, n)))
                record(label + "/dict1", dict_state(tr))
                for n in names:
                    attempt(label + "/src/" + n, lambda: ds_value(n, getattr(ds, n)))
                record(label + "/srcdata", (ds.data, ds.noise_map))
                # trim the trimmed
                attempt(label + "/trim2", lambda: dict_state(tr.trimmed_after_convolution_from(kernel_shape=(3, 3))))


def as_cls(cls, ds):
    new = cls.__new__(cls)
    new.__dict__.update(ds.__dict__)
    return new


run_dataset("Img", lambda: imaging_from(), [(3, 3), (1, 1), (3, 5), (5, 3)])
run_dataset("ImgM", lambda: imaging_from(shape=(11, 9), ps=(1.0, 1.0), masked=True), [(3, 3), (1, 1), (3, 1), (5, 3)])
run_dataset("ImgMCov", lambda: imaging_from(shape=(9, 9), ps=(0.5, 0.5), masked=True, cov=True), [(3, 3)])
run_dataset("ImgCov", lambda: imaging_from(shape=(6, 5), cov=True), [(3, 3), (3, 1)])
run_dataset("ImgMasked", lambda: imaging_from(shape=(9, 9), ps=(1.0, 1.0), masked=True), [(3, 3)])
run_dataset("ImgSub", lambda: as_cls(ImagingSub, imaging_from(shape=(9, 9), ps=(1.0, 1.0), masked=True, cov=True)), [(3, 3)])
run_dataset("ImgOwn", lambda: as_cls(ImagingOwn, imaging_from(shape=(9, 9), ps=(1.0, 1.0), masked=True, cov=True)), [(3, 3), (5, 5)])
run_dataset("ImgTooBig", lambda: imaging_from(shape=(3, 3)), [(3, 3), (5, 5), (7, 7)])


def plain_from(cov):
    ds = imaging_from(shape=(6, 5), cov=cov)
    return PlainDataset(data=ds.data, noise_map=ds.noise_map, noise_covariance_matrix=ds.noise_covariance_matrix)


run_dataset("Plain", lambda: plain_from(False), [(3, 3)], names=["grids", "noise_covariance_matrix_inv"])
run_dataset("PlainCov", lambda: plain_from(True), [(3, 3), (1, 3)], names=["grids", "noise_covariance_matrix_inv"])


# Interferometer: data are Visibilities (trimmed_after_convolution_from is not defined for them -> exception type)
class DummyTransformer:
    def __init__(self, uv_wavelengths, real_space_mask):
        self.uv_wavelengths = uv_wavelengths
        self.real_space_mask = real_space_mask


def interferometer_from():
    mask = aa.Mask2D.circular(shape_native=(7, 7), pixel_scales=1.0, radius=2.5)
    return aa.Interferometer(
        data=aa.Visibilities(visibilities=VIS[0].copy()),
        noise_map=aa.VisibilitiesNoiseMap(visibilities=VIS[0].copy() * 0 + (1.0 + 1.0j)),
        uv_wavelengths=np.array([[1.0, 2.0], [-0.5, 0.3], [2.0, -1.0]]),
        real_space_mask=mask,
        transformer_class=DummyTransformer,  # PyLops is not installed: the real transformers cannot be built
    )


for reads in [(), ("grids",), ("grids", "w_tilde")]:
    label = "Interf/%s" % ("+".join(reads) or "noread")
    ds = attempt(label + "/make", interferometer_from)
    if isinstance(ds, str) or ds is None:
        continue
    for n in reads:
        attempt(label + "/pre/" + n, lambda: type(getattr(ds, n)).__name__)
    before = dict_state(ds)
    attempt(label + "/trim", lambda: dict_state(ds.trimmed_after_convolution_from(kernel_shape=(3, 3))))
    record(label + "/srcdict", (before, dict_state(ds)))
    # the data of the dataset derived by arithmetic after a read
    ds.data.amplitudes
    attempt(label + "/s2n", lambda: (ds.signal_to_noise_map, ds.signal_to_noise_map.amplitudes))


# ---------------------------------------------------------------------------------------------------------------------
# Objects without an instance dict entry / unusual holders passed through the AbstractNDArray machinery
# ---------------------------------------------------------------------------------------------------------------------

v = aa.Visibilities(visibilities=VIS[0].copy())
v.amplitudes
w = v.copy()
record("copy-array-independent", (w.array is v.array, np.shares_memory(w.array, v.array)))
w[1] = 0.0
record("copy-setitem-src", (v.array, v.amplitudes, w.amplitudes))
chain = ((v * 2.0)[1:] + 1.0).copy()
record("chain", (chain.array, chain.amplitudes, chain.phases, dict_state(chain)))
record("pickle-like-flatten", attempt("flatten", lambda: [str(k) for k in type(v).instance_flatten(v)[1]]))

print("records", N_RECORDS)
print("digest", H.hexdigest())
