"""
Differential test for the C14-8 twin (guard clauses in array_2d_util.extracted_array_2d_from).

Prints a sha256 digest over every result (shape, dtype, raw bytes, or the exception type) of:
  A. extracted_array_2d_from called directly, exhaustively over all windows [y0,y1) x [x0,x1) reaching up to 3 pixels
     outside small arrays (square, non-square, single row / column / pixel, zero-sized), several dtypes, nan / inf,
     negative-extent windows, numpy-integer arguments, 3D input, plus random windows on larger arrays;
     also checks the input is not mutated and the output does not alias the input.
  B. Array2D.zoomed_around_mask / extent_of_zoomed_array for masks in the interior, touching each edge / corner,
     tall-thin and wide-flat regions near every edge (squared bounding box leaves the frame), single unmasked pixel,
     fully unmasked, fully masked (exception), buffers 0..3, anisotropic pixel scales, non-zero origins, random masks,
     repeated calls on the same object.
  C. resized_array_2d_from / Array2D.resized_from / padded_before_convolution_from / trimmed_after_convolution_from
     (neighbouring C14 routines, as a regression net).

Run on the clean tree and on the twin tree: the two digests must be identical.
"""
import hashlib
import itertools
import warnings

import numpy as np

warnings.filterwarnings("ignore")

import autoarray as aa
from autoarray.structures.arrays import array_2d_util

H = hashlib.sha256()
N = [0]


def feed(tag, obj):
    N[0] += 1
    H.update(repr(tag).encode())
    if isinstance(obj, np.ndarray):
        H.update(repr((obj.shape, str(obj.dtype))).encode())
        H.update(np.ascontiguousarray(obj).tobytes())
    else:
        H.update(repr(obj).encode())


def call(tag, fn):
    try:
        out = fn()
    except Exception as e:  # noqa
        feed(tag, ("EXC", type(e).__name__))
        return None
    feed(tag, out)
    return out


# ---------------------------------------------------------------------------------------------------------------
# A. direct calls
# ---------------------------------------------------------------------------------------------------------------

rng = np.random.RandomState(1408)


def values(shape, kind):
    size = int(np.prod(shape))
    base = np.arange(1.0, size + 1.0).reshape(shape)
    if kind == "float":
        return base + 0.25
    if kind == "int":
        return base.astype("int64")
    if kind == "bool":
        return (base.astype(int) % 2).astype(bool)
    if kind == "nan":
        out = base.copy()
        if size:
            out.flat[0] = np.nan
            out.flat[-1] = -np.inf
        return out
    if kind == "neg":
        return -base
    if kind == "fortran":
        return np.asfortranarray(base * 1.5)
    raise ValueError(kind)


small_shapes = [(1, 1), (1, 4), (4, 1), (2, 2), (3, 3), (3, 5), (5, 3), (4, 4), (0, 3), (3, 0), (0, 0)]

for shape in small_shapes:
    for kind in ("float", "int"):
        arr = values(shape, kind)
        before = arr.copy()
        lo_y, hi_y = -3, shape[0] + 3
        lo_x, hi_x = -3, shape[1] + 3
        for y0 in range(lo_y, hi_y + 1):
            for y1 in range(y0, hi_y + 1):
                for x0 in range(lo_x, hi_x + 1):
                    for x1 in range(x0, hi_x + 1):
                        out = call(
                            ("A", shape, kind, y0, y1, x0, x1),
                            lambda: array_2d_util.extracted_array_2d_from(
                                array_2d=arr, y0=y0, y1=y1, x0=x0, x1=x1
                            ),
                        )
                        if out is not None and out.size:
                            feed("alias", bool(np.shares_memory(out, arr)))
        feed(("unmutated", shape, kind), bool(np.array_equal(arr, before)))

for shape in [(3, 5), (5, 3), (1, 1), (2, 6)]:
    for kind in ("bool", "nan", "neg", "fortran"):
        arr = values(shape, kind)
        for y0, y1, x0, x1 in itertools.product(
            (-2, 0, 1), (1, shape[0], shape[0] + 2), (-2, 0, 1), (1, shape[1], shape[1] + 2)
        ):
            call(
                ("A2", shape, kind, y0, y1, x0, x1),
                lambda: array_2d_util.extracted_array_2d_from(arr, y0, y1, x0, x1),
            )

# far outside windows, negative extents (np.zeros raises), numpy integer / float / None arguments
arr = values((4, 6), "float")
for win in [
    (-10, -5, -10, -5),
    (10, 15, 10, 15),
    (-10, 15, -10, -5),
    (-10, 15, 8, 12),
    (-10, -5, 0, 6),
    (6, 9, 0, 6),
    (0, 4, -9, 0),
    (0, 4, 6, 9),
    (0, 4, -1, 7),
    (-1, 5, -1, 7),
    (3, 1, 0, 6),
    (0, 4, 5, 2),
    (3, 1, 5, 2),
    (3, 1, -5, -8),
]:
    call(("A3", win), lambda: array_2d_util.extracted_array_2d_from(arr, *win))
    call(
        ("A3np", win),
        lambda: array_2d_util.extracted_array_2d_from(arr, *[np.int64(w) for w in win]),
    )
call(("A3float",), lambda: array_2d_util.extracted_array_2d_from(arr, 0.0, 2.0, 0.0, 2.0))
call(("A3none",), lambda: array_2d_util.extracted_array_2d_from(arr, None, 2, 0, 2))
call(("A3mixed",), lambda: array_2d_util.extracted_array_2d_from(arr, 0, 2, -1.0, 2))

# 3D input (row of length 1 can be assigned, longer cannot), 2D views with strides, masked arrays
arr3 = np.arange(24.0).reshape(2, 3, 4)
arr3b = np.arange(6.0).reshape(2, 3, 1)
for win in [(-1, 3, -1, 4), (0, 2, 0, 3), (-3, -1, -3, -1), (0, 1, -2, 0), (0, 0, 0, 0)]:
    call(("A4", win), lambda: array_2d_util.extracted_array_2d_from(arr3, *win))
    call(("A4b", win), lambda: array_2d_util.extracted_array_2d_from(arr3b, *win))
big = np.arange(100.0).reshape(10, 10)
view = big[::2, 1::3]
viewT = big.T[1:7, 2:5]
for win in [(-1, 6, -2, 5), (1, 3, 1, 2), (0, 5, -1, 1), (-2, 1, 2, 6)]:
    call(("A5", win), lambda: array_2d_util.extracted_array_2d_from(view, *win))
    call(("A5T", win), lambda: array_2d_util.extracted_array_2d_from(viewT, *win))
marr = np.ma.array(np.arange(12.0).reshape(3, 4), mask=np.arange(12).reshape(3, 4) % 3 == 0)
for win in [(-1, 4, -1, 5), (0, 3, 0, 4), (1, 2, -2, 2)]:
    call(("A6", win), lambda: np.asarray(array_2d_util.extracted_array_2d_from(marr, *win)))

# inputs outside the documented domain, with windows that reach the array (both trees raise)
call(("A7-1d",), lambda: array_2d_util.extracted_array_2d_from(np.arange(5.0), 0, 2, 0, 2))
call(("A7-1d-left",), lambda: array_2d_util.extracted_array_2d_from(np.arange(5.0), -1, 2, -1, 2))
call(("A7-list",), lambda: array_2d_util.extracted_array_2d_from([[1.0, 2.0], [3.0, 4.0]], 0, 2, 0, 2))
call(("A7-list-left",), lambda: array_2d_util.extracted_array_2d_from([[1.0, 2.0], [3.0, 4.0]], -1, 2, -1, 2))
call(("A7-complex",), lambda: array_2d_util.extracted_array_2d_from(np.ones((2, 2)) * (1 + 2j), -1, 3, -1, 3))
call(("A7-str",), lambda: array_2d_util.extracted_array_2d_from(np.array([["a", "b"], ["c", "d"]]), -1, 3, -1, 3))
call(("A7-obj",), lambda: array_2d_util.extracted_array_2d_from(np.array([[1, None], [2, 3]], dtype=object), -1, 1, -1, 1))

# random windows on larger arrays
for trial in range(400):
    ny, nx = rng.randint(1, 13), rng.randint(1, 13)
    arr = rng.normal(size=(ny, nx))
    y0 = rng.randint(-6, ny + 4)
    x0 = rng.randint(-6, nx + 4)
    y1 = y0 + rng.randint(0, ny + 8)
    x1 = x0 + rng.randint(0, nx + 8)
    call(
        ("A8", trial, ny, nx, y0, y1, x0, x1),
        lambda: array_2d_util.extracted_array_2d_from(arr, y0, y1, x0, x1),
    )

# ---------------------------------------------------------------------------------------------------------------
# B. zoom around a mask
# ---------------------------------------------------------------------------------------------------------------


def rect_mask(shape, ys, xs):
    m = np.full(shape, True)
    m[ys[0] : ys[1], xs[0] : xs[1]] = False
    return m


masks = {}
masks["interior"] = rect_mask((6, 6), (2, 4), (2, 5))
masks["top"] = rect_mask((6, 6), (0, 2), (2, 4))
masks["bottom"] = rect_mask((6, 6), (4, 6), (2, 4))
masks["left"] = rect_mask((6, 6), (2, 4), (0, 2))
masks["right"] = rect_mask((6, 6), (2, 4), (4, 6))
masks["corner_tl"] = rect_mask((5, 7), (0, 2), (0, 1))
masks["corner_tr"] = rect_mask((5, 7), (0, 1), (5, 7))
masks["corner_bl"] = rect_mask((7, 5), (6, 7), (0, 2))
masks["corner_br"] = rect_mask((7, 5), (5, 7), (4, 5))
masks["tall_near_left"] = rect_mask((7, 5), (1, 6), (1, 2))
masks["tall_on_left"] = rect_mask((7, 5), (0, 7), (0, 1))
masks["tall_near_right"] = rect_mask((7, 5), (1, 6), (3, 4))
masks["tall_on_right"] = rect_mask((9, 4), (0, 9), (3, 4))
masks["wide_near_top"] = rect_mask((5, 7), (1, 2), (1, 6))
masks["wide_on_top"] = rect_mask((4, 9), (0, 1), (0, 9))
masks["wide_near_bottom"] = rect_mask((5, 7), (3, 4), (1, 6))
masks["wide_on_bottom"] = rect_mask((4, 9), (3, 4), (0, 9))
masks["single_centre"] = rect_mask((5, 5), (2, 3), (2, 3))
masks["single_00"] = rect_mask((5, 5), (0, 1), (0, 1))
masks["single_last"] = rect_mask((4, 6), (3, 4), (5, 6))
masks["single_left_mid"] = rect_mask((5, 5), (2, 3), (0, 1))
masks["all_false"] = np.full((4, 5), False)
masks["all_true"] = np.full((4, 5), True)
masks["one_by_one"] = np.full((1, 1), False)
masks["one_row"] = rect_mask((1, 7), (0, 1), (0, 3))
masks["one_col"] = rect_mask((7, 1), (2, 6), (0, 1))
diag = np.full((6, 6), True)
diag[0, 0] = diag[5, 5] = False
masks["two_corners"] = diag
scat = np.full((8, 6), True)
scat[1, 0] = scat[6, 0] = scat[3, 1] = False
masks["scatter_left"] = scat
for i in range(40):
    ny, nx = rng.randint(1, 10), rng.randint(1, 10)
    m = rng.uniform(size=(ny, nx)) > rng.uniform(0.05, 0.6)
    masks[f"random_{i}"] = m

geoms = [
    ((1.0, 1.0), (0.0, 0.0)),
    ((0.5, 2.0), (0.0, 0.0)),
    ((2.0, 0.5), (0.5, -1.0)),
    ((0.1, 0.1), (-3.0, 4.0)),
]

for name, m in masks.items():
    for pixel_scales, origin in geoms:

        def build():
            mask = aa.Mask2D(mask=m, pixel_scales=pixel_scales, origin=origin)
            vals = np.arange(1.0, m.size + 1.0).reshape(m.shape) * 1.5 - 4.0
            return aa.Array2D(values=vals, mask=mask)

        try:
            array = build()
        except Exception as e:  # noqa
            feed(("B-build", name, pixel_scales, origin), type(e).__name__)
            continue

        native_before = np.array(array.native).copy()

        for buffer in (0, 1, 2, 3):
            tag = ("B", name, pixel_scales, origin, buffer)

            def zoom():
                z = array.zoomed_around_mask(buffer=buffer)
                return (
                    np.array(z.native),
                    np.array(z.slim),
                    np.array(z.mask),
                    tuple(z.shape_native),
                    tuple(z.pixel_scales),
                    tuple(float(v) for v in z.origin),
                )

            try:
                res = zoom()
                for i, r in enumerate(res):
                    feed(tag + (i,), r)
            except Exception as e:  # noqa
                feed(tag, ("EXC", type(e).__name__))

            call(tag + ("extent",), lambda: np.array(array.extent_of_zoomed_array(buffer=buffer), dtype=float))

        # repeated call on the same object, default buffer, input not modified
        call(("B-default", name), lambda: np.array(array.zoomed_around_mask().native))
        call(("B-default-again", name), lambda: np.array(array.zoomed_around_mask().native))
        feed(("B-unmutated", name), bool(np.array_equal(np.array(array.native), native_before)))
        call(("B-region", name), lambda: [int(v) for v in array.mask.zoom_region])

# ---------------------------------------------------------------------------------------------------------------
# C. neighbouring C14 routines
# ---------------------------------------------------------------------------------------------------------------

for shape in [(1, 1), (3, 3), (4, 4), (3, 5), (6, 3), (2, 7)]:
    arr = values(shape, "float")
    for new_shape in [(1, 1), (2, 2), (3, 3), (4, 6), (7, 2), (5, 5), (8, 9)]:
        call(
            ("C-resize", shape, new_shape),
            lambda: array_2d_util.resized_array_2d_from(array_2d=arr, resized_shape=new_shape),
        )
        for origin in [(0, 0), (1, 1), (shape[0] - 1, shape[1] - 1)]:
            call(
                ("C-resize-o", shape, new_shape, origin),
                lambda: array_2d_util.resized_array_2d_from(
                    array_2d=arr, resized_shape=new_shape, origin=origin
                ),
            )

m = rect_mask((6, 5), (1, 5), (0, 3))
mask = aa.Mask2D(mask=m, pixel_scales=(1.0, 2.0), origin=(0.5, -1.0))
array = aa.Array2D(values=np.arange(30.0).reshape(6, 5), mask=mask)
for new_shape in [(3, 3), (8, 9), (6, 5), (2, 7)]:
    call(("C-resized_from", new_shape), lambda: np.array(array.resized_from(new_shape=new_shape).native))
for kernel_shape in [(3, 3), (5, 3), (1, 7)]:
    call(
        ("C-pad", kernel_shape),
        lambda: np.array(array.padded_before_convolution_from(kernel_shape=kernel_shape).native),
    )
    call(
        ("C-pad-trim", kernel_shape),
        lambda: np.array(
            array.padded_before_convolution_from(kernel_shape=kernel_shape)
            .trimmed_after_convolution_from(kernel_shape=kernel_shape)
            .native
        ),
    )

print("records", N[0])
print("digest", H.hexdigest())
