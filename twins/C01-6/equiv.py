"""
Differential test for the C01-6 twin (`mask_slim_indexes_from` reusing `native_index_for_slim_index_2d_from`).

Prints a sha256 digest over the results (values, dtype, shape, flags, raised exception types, input-not-mutated
flags) of many calls. Run on the clean tree and on the twin tree: the digests must be identical.

    cd /tmp/wt8/C01-6 && PYTHONPATH=/tmp/wt8/C01-6 /venv/bin/python equiv.py
"""
import hashlib
import warnings

import numpy as np

warnings.filterwarnings("ignore")

import autoarray as aa
from autoarray.mask import mask_2d_util

H = hashlib.sha256()
N_RECORDS = 0


def record(*parts):
    global N_RECORDS
    N_RECORDS += 1
    for p in parts:
        H.update(repr(p).encode())
        H.update(b"|")
    H.update(b"\n")


def describe(result):
    if isinstance(result, np.ndarray):
        return (
            "ndarray",
            type(result).__name__,
            str(result.dtype),
            result.shape,
            bool(result.flags["C_CONTIGUOUS"]),
            bool(result.flags["OWNDATA"]),
            bool(result.flags["WRITEABLE"]),
            result.tobytes().hex(),
        )
    return (type(result).__name__, repr(result))


def call(label, func, *args, **kwargs):
    try:
        result = func(*args, **kwargs)
    except Exception as e:  # noqa
        record(label, "EXC", type(e).__name__)
        return None
    record(label, "OK", describe(result))
    return result


def util_case(label, mask, *args, **kwargs):
    """Call the util kernel; also record that the input mask is not mutated and the result is not aliased."""
    before = mask.copy() if isinstance(mask, np.ndarray) else None
    result = call(label, mask_2d_util.mask_slim_indexes_from, mask, *args, **kwargs)
    if before is not None:
        same = (
            mask.shape == before.shape
            and mask.dtype == before.dtype
            and mask.tobytes() == before.tobytes()
        )
        record(label, "input_unchanged", same)
    if isinstance(result, np.ndarray) and isinstance(mask, np.ndarray):
        record(label, "shares_memory", bool(np.shares_memory(result, mask)))
        # repeated call gives an independent, equal array (no caching / aliasing)
        again = mask_2d_util.mask_slim_indexes_from(mask, *args, **kwargs)
        record(
            label,
            "repeat",
            again is result,
            bool(np.shares_memory(again, result)),
            describe(again),
        )
        if result.size and result.flags["WRITEABLE"]:
            result[0] = -7.0
            third = mask_2d_util.mask_slim_indexes_from(mask, *args, **kwargs)
            record(label, "after_write", describe(third))


rng = np.random.default_rng(20240601)

# ---------------------------------------------------------------------------------------------------------------
# 1) util kernel on bool masks of many shapes (square, wide, tall, degenerate) and fill fractions
# ---------------------------------------------------------------------------------------------------------------
shapes = [
    (1, 1), (1, 2), (2, 1), (1, 7), (7, 1), (2, 2), (3, 4), (4, 3), (4, 4), (2, 9), (9, 2),
    (5, 8), (8, 5), (7, 7), (6, 13), (13, 6), (10, 31), (31, 10), (16, 16),
    (0, 0), (0, 5), (5, 0),
]
for shape in shapes:
    for frac in (0.0, 0.15, 0.5, 0.85, 1.0):
        mask = rng.random(shape) < frac
        for rmi in (True, False):
            util_case(f"bool{shape}-{frac}-{rmi}", mask, return_masked_indexes=rmi)
        # default and positional argument
        util_case(f"bool{shape}-{frac}-default", mask)
        util_case(f"bool{shape}-{frac}-positional", mask, False)

# keyword-only spelling of the first argument
call("kw-mask_2d", mask_2d_util.mask_slim_indexes_from, mask_2d=np.array([[True, False, True]]), return_masked_indexes=False)
call("kw-bad", mask_2d_util.mask_slim_indexes_from, mask=np.array([[True, False, True]]))

# the trigger masks of the notes / demo
square = np.array(
    [
        [True, False, False, True],
        [False, False, True, False],
        [True, True, False, False],
        [False, True, True, False],
    ]
)
for name, m in (("square", square), ("wide", square[:3, :]), ("tall", square[:, :3])):
    for rmi in (True, False):
        util_case(f"demo-{name}-{rmi}", m, return_masked_indexes=rmi)  # non-contiguous views included

# masks touching the edges / single pixel / borders only
for shape in ((3, 5), (5, 3), (6, 6)):
    m = np.ones(shape, dtype=bool)
    m[0, :] = False
    util_case(f"toprow{shape}", m, False)
    util_case(f"toprow{shape}-m", m, True)
    m = np.ones(shape, dtype=bool)
    m[:, -1] = False
    util_case(f"lastcol{shape}", m, False)
    util_case(f"lastcol{shape}-m", m, True)
    m = np.ones(shape, dtype=bool)
    m[-1, -1] = False
    util_case(f"corner{shape}", m, False)
    util_case(f"corner{shape}-m", m, True)
    m = np.zeros(shape, dtype=bool)
    m[1:-1, 1:-1] = True
    util_case(f"ring{shape}", m, False)
    util_case(f"ring{shape}-m", m, True)

# memory layouts: Fortran order, strided views, transposes, read-only
base = rng.random((9, 14)) < 0.4
util_case("fortran", np.asfortranarray(base), False)
util_case("fortran-m", np.asfortranarray(base), True)
util_case("transpose", base.T, False)
util_case("strided", base[::2, 1::3], False)
util_case("strided-m", base[::2, 1::3], True)
util_case("reversed", base[::-1, ::-1], False)
ro = base.copy()
ro.setflags(write=False)
util_case("readonly", ro, False)
util_case("readonly-m", ro, True)

# ---------------------------------------------------------------------------------------------------------------
# 2) non-bool dtypes / unusual values of both arguments
# ---------------------------------------------------------------------------------------------------------------
ints = rng.integers(0, 3, size=(4, 7))  # contains 0, 1, 2
for dtype in ("int8", "int64", "uint8", "float32", "float64", "complex128", "object"):
    m = ints.astype(dtype)
    for rmi in (True, False, 1, 0, 2, 1.0, 0.0, np.True_, np.False_, np.int64(2), None):
        util_case(f"dtype-{dtype}-{rmi!r}", m, rmi)

fl = np.array([[np.nan, 0.0, 1.0], [-0.0, np.inf, 1.0]])
for rmi in (True, False, np.nan, 0, 1):
    util_case(f"nan-{rmi!r}", fl, rmi)

bm = rng.random((3, 5)) < 0.5
for rmi in ("a", "True", [True], (False,), np.array(True), np.array([True]), np.array([True, False]), 2, -1, 0.5):
    util_case(f"odd-rmi-{rmi!r}", bm, rmi)

# ---------------------------------------------------------------------------------------------------------------
# 3) wrong-dimensional / non-array inputs (exception types must match)
# ---------------------------------------------------------------------------------------------------------------
util_case("1d-5", np.array([True, False, True, False, False]), False)
util_case("0d", np.array(True), False)
util_case("3d-1", (rng.random((3, 4, 1)) < 0.5), False)
util_case("3d-1-m", (rng.random((3, 4, 1)) < 0.5), True)
util_case("3d-2", (rng.random((3, 4, 2)) < 0.5), False)
util_case("3d-empty-rows", np.zeros((0, 4, 2), dtype=bool), False)
call("list", mask_2d_util.mask_slim_indexes_from, [[True, False], [False, True]], False)
call("tuple", mask_2d_util.mask_slim_indexes_from, ((True, False), (False, True)), True)
call("none", mask_2d_util.mask_slim_indexes_from, None, True)
call("scalar", mask_2d_util.mask_slim_indexes_from, True, True)
call("no-args", mask_2d_util.mask_slim_indexes_from)

# Mask2D / Array2D objects given directly to the kernel
for shape in ((3, 4), (4, 3), (5, 5)):
    m = rng.random(shape) < 0.4
    m[0, 0] = False
    mask_obj = aa.Mask2D(mask=m, pixel_scales=(1.0, 2.0))
    for rmi in (True, False):
        call(f"Mask2D-obj{shape}-{rmi}", mask_2d_util.mask_slim_indexes_from, mask_obj, rmi)
        call(
            f"Mask2D-obj-array{shape}-{rmi}",
            mask_2d_util.mask_slim_indexes_from,
            getattr(mask_obj, "_array", None),
            rmi,
        )

# ---------------------------------------------------------------------------------------------------------------
# 4) class layer: Mask2D.derive_indexes.unmasked_slim / masked_slim, with anisotropic scales and non-zero origins,
#    repeated reads, shared mask objects, consistency with slim / native of arrays
# ---------------------------------------------------------------------------------------------------------------
class_shapes = [(1, 1), (1, 6), (6, 1), (3, 4), (4, 3), (5, 5), (7, 11), (11, 7), (12, 12)]
for shape in class_shapes:
    for frac in (0.0, 0.3, 0.7):
        m = rng.random(shape) < frac
        m[rng.integers(0, shape[0]), rng.integers(0, shape[1])] = False  # at least one unmasked pixel
        for pixel_scales, origin in (((1.0, 1.0), (0.0, 0.0)), ((0.5, 2.0), (1.5, -3.0))):
            label = f"cls{shape}-{frac}-{pixel_scales}-{origin}"
            mask = aa.Mask2D(mask=m, pixel_scales=pixel_scales, origin=origin)
            di = mask.derive_indexes
            u1 = call(label + "-unmasked", lambda: di.unmasked_slim)
            k1 = call(label + "-masked", lambda: di.masked_slim)
            u2 = call(label + "-unmasked-again", lambda: mask.derive_indexes.unmasked_slim)
            k2 = call(label + "-masked-again", lambda: mask.derive_indexes.masked_slim)
            record(label, "identity", u1 is u2, k1 is k2)
            call(label + "-native_for_slim", lambda: np.array(di.native_for_slim))
            record(label, "mask-unchanged", np.array(mask).tobytes().hex(), np.array(mask).shape)

            values = rng.normal(size=shape)
            arr = aa.Array2D(values=values, mask=mask)
            call(label + "-slim", lambda: np.array(arr.slim))
            call(label + "-native", lambda: np.array(arr.native))
            call(label + "-slim-native-slim", lambda: np.array(arr.native.slim))
            call(label + "-native-slim-native", lambda: np.array(arr.slim.native))
            if u1 is not None:
                call(label + "-gather", lambda: np.array(arr.native).ravel()[u1])
            if k1 is not None:
                call(label + "-gather-masked", lambda: np.array(arr.native).ravel()[k1])

# fully masked mask through the class layer
for shape in ((2, 3), (3, 2)):
    label = f"cls-allmasked{shape}"
    try:
        mask = aa.Mask2D(mask=np.ones(shape, dtype=bool), pixel_scales=1.0)
    except Exception as e:  # noqa
        record(label, "EXC-construct", type(e).__name__)
    else:
        call(label + "-unmasked", lambda: mask.derive_indexes.unmasked_slim)
        call(label + "-masked", lambda: mask.derive_indexes.masked_slim)

# library-made masks (circular / annular on non-square grids, off-centre so that they touch the edges)
for shape in ((8, 13), (13, 8), (10, 10)):
    for centre in ((0.0, 0.0), (1.5, -2.0)):
        label = f"circ{shape}-{centre}"
        mask = aa.Mask2D.circular(shape_native=shape, pixel_scales=(0.7, 1.1), radius=3.0, centre=centre)
        call(label + "-unmasked", lambda: mask.derive_indexes.unmasked_slim)
        call(label + "-masked", lambda: mask.derive_indexes.masked_slim)
        mask = aa.Mask2D.circular_annular(
            shape_native=shape, pixel_scales=(0.7, 1.1), inner_radius=1.0, outer_radius=3.5, centre=centre
        )
        call(label + "-ann-unmasked", lambda: mask.derive_indexes.unmasked_slim)
        call(label + "-ann-masked", lambda: mask.derive_indexes.masked_slim)
    mask = aa.Mask2D.all_false(shape_native=shape, pixel_scales=1.0)
    call(f"allfalse{shape}-unmasked", lambda: mask.derive_indexes.unmasked_slim)
    call(f"allfalse{shape}-masked", lambda: mask.derive_indexes.masked_slim)

# ---------------------------------------------------------------------------------------------------------------
# 5) the reused sibling itself must be untouched
# ---------------------------------------------------------------------------------------------------------------
for shape in ((3, 4), (4, 3), (0, 3), (5, 5)):
    m = rng.random(shape) < 0.5
    call(f"sibling{shape}", mask_2d_util.native_index_for_slim_index_2d_from, m)
    call(f"sibling-total{shape}", mask_2d_util.total_pixels_2d_from, m)

print("records", N_RECORDS)
print("digest", H.hexdigest())
