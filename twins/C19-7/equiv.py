"""
Differential test for C19-7 (rotate_region_via_roe_corner_from and its callers).

Prints a sha256 digest over a deterministic description of every result (value, type of every element, type /
nesting / aliasing of the `.region` payload, exception type and message). Run on the clean tree and on the twin
tree: the two digests must be identical.
"""
import hashlib
import itertools
import warnings
from types import SimpleNamespace

import numpy as np

import autoarray as aa
from autoarray.layout import layout_util

warnings.simplefilter("ignore")

LINES = []


def describe_scalar(x):
    return "{}:{!r}".format(type(x).__name__, x)


def describe_payload(payload, source, depth=0):
    """
    Describe the `.region` payload of a Region2D: its type, whether it is the very object passed in (aliasing),
    nested regions and the type + value of every element.
    """
    if payload is None:
        return "None"
    alias = "ALIAS" if payload is source else "new"
    if isinstance(payload, aa.Region2D):
        if depth > 4:
            return "Region2D(...)"
        return "Region2D[{}]<{}>".format(
            alias, describe_payload(payload.region, getattr(source, "region", None), depth + 1)
        )
    try:
        items = [describe_scalar(payload[i]) for i in range(len(payload))]
    except Exception as e:  # pragma: no cover
        items = ["?{}".format(type(e).__name__)]
    return "{}[{}]({})".format(type(payload).__name__, alias, ",".join(items))


def describe_region(result, source):
    if result is None:
        return "None"
    out = "{}|{}".format(type(result).__name__, describe_payload(result.region, source))
    try:
        out += "|repr={!r}|shape={!r}|slice={!r}".format(result, result.shape, result.slice)
    except Exception as e:
        out += "|props-raise-{}".format(type(e).__name__)
    try:
        out += "|eq_tuple={}".format(result == tuple(result[i] for i in range(4)))
    except Exception as e:
        out += "|eq-raise-{}".format(type(e).__name__)
    return out


def record(tag, func):
    try:
        LINES.append("{} -> {}".format(tag, func()))
    except Exception as e:
        LINES.append("{} -> RAISE {}: {}".format(tag, type(e).__name__, e))


class LoggingSeq:
    """A sequence that logs every __getitem__ into a shared log: exposes the order of evaluation."""

    def __init__(self, name, values, log):
        self.name, self.values, self.log = name, values, log

    def __getitem__(self, i):
        self.log.append("{}[{}]".format(self.name, i))
        return self.values[i]


CORNERS = [(1, 0), (0, 0), (1, 1), (0, 1)]

ODD_CORNERS = [
    (2, 0),
    (0, 2),
    (-1, 0),
    (1, 0, 0),
    (1,),
    (),
    None,
    "10",
    [1, 0],
    [0, 1],
    (1.0, 0.0),
    (0.0, 1.0),
    (True, False),
    (False, True),
    (False, False),
    (np.int64(0), np.int64(1)),
    (np.float32(1), np.int8(1)),
    np.array([1, 0]),
    np.array([0, 1]),
    np.array([1, 0, 0]),
    np.array(1),
    1,
    0,
]

SHAPES = [(7, 10), (10, 7), (8, 8), (1, 1), (1, 9), (9, 1), (3, 100)]


def regions_for(shape):
    ny, nx = shape
    regs = set()
    ys = sorted({0, 1, ny // 2, max(ny - 1, 0), ny})
    xs = sorted({0, 1, nx // 2, max(nx - 1, 0), nx})
    for y0, y1 in itertools.combinations(ys, 2):
        for x0, x1 in itertools.combinations(xs, 2):
            regs.add((y0, y1, x0, x1))
    return sorted(regs)


def main():
    # 1. exhaustive integer regions (square, elongated, touching every edge, full frame, single pixel) ---------------

    for shape in SHAPES:
        for region in regions_for(shape):
            for corner in CORNERS:
                record(
                    "int {} {} {}".format(shape, region, corner),
                    lambda: describe_region(
                        layout_util.rotate_region_via_roe_corner_from(
                            region=region, shape_native=shape, roe_corner=corner
                        ),
                        region,
                    ),
                )

    # the trigger of the notes
    for corner in CORNERS:
        for region in [(1, 6, 8, 10), (5, 7, 1, 7), (0, 7, 0, 1)]:
            record(
                "trigger {} {}".format(region, corner),
                lambda: describe_region(
                    layout_util.rotate_region_via_roe_corner_from(
                        region=region, shape_native=(7, 10), roe_corner=corner
                    ),
                    region,
                ),
            )

    # 2. random regions, also outside / larger than the array (negative reflected bounds -> RegionException) --------

    rng = np.random.RandomState(19)
    for i in range(1500):
        shape = (int(rng.randint(1, 30)), int(rng.randint(1, 30)))
        region = tuple(int(v) for v in rng.randint(-2, 35, size=4))
        corner = CORNERS[rng.randint(4)]
        record(
            "rand {} {} {}".format(shape, region, corner),
            lambda: describe_region(
                layout_util.rotate_region_via_roe_corner_from(
                    region=region, shape_native=shape, roe_corner=corner
                ),
                region,
            ),
        )

    # 3. region containers / element types: list, ndarray (several dtypes), Region2D, nested Region2D, floats,
    #    over-long and too-short regions, non-numeric entries -------------------------------------------------------

    def containers():
        yield "tuple", (1, 6, 8, 10)
        yield "list", [1, 6, 8, 10]
        yield "arr_int64", np.array([1, 6, 8, 10])
        yield "arr_int8", np.array([1, 6, 8, 10], dtype=np.int8)
        yield "arr_uint8", np.array([1, 6, 8, 10], dtype=np.uint8)
        yield "arr_uint8_big", np.array([1, 200, 8, 250], dtype=np.uint8)
        yield "arr_float", np.array([1.0, 6.0, 8.0, 10.0])
        yield "npints", (np.int64(1), np.int32(6), np.int16(8), np.uint8(10))
        yield "Region2D", aa.Region2D(region=(1, 6, 8, 10))
        yield "Region2D_nested", aa.Region2D(region=aa.Region2D(region=(1, 6, 8, 10)))
        yield "Region2D_list", aa.Region2D(region=[1, 6, 8, 10])
        yield "floats", (0.1, 0.3, 0.2, 0.7)
        yield "floats2", (1.1, 6.7, 2.3, 9.9)
        yield "floats3", (0.1, 0.7, 1e-17, 3.3)
        yield "mixed", (1, 6.5, 8, 10)
        yield "bools", (False, True, False, True)
        yield "long5", (1, 6, 8, 10, 99)
        yield "long6_list", [1, 6, 8, 10, 99, 100]
        yield "short3", (1, 6, 8)
        yield "short2", (1, 6)
        yield "short1", (1,)
        yield "empty", ()
        yield "empty_list", []
        yield "strings", ("a", "b", "c", "d")
        yield "string", "1268"
        yield "nones", (None, None, None, None)
        yield "int", 5
        yield "dict", {0: 1, 1: 6, 2: 8, 3: 10}
        yield "degenerate_rows", (3, 3, 1, 4)
        yield "degenerate_cols", (1, 4, 3, 3)
        yield "inverted", (6, 1, 10, 8)
        yield "negative", (-1, 6, 8, 10)
        yield "nan", (float("nan"), 6, 8, 10)
        yield "inf", (1, float("inf"), 8, 10)
        yield "huge", (1, 2**70, 8, 2**80)

    shapes_odd = [
        (7, 10),
        [7, 10],
        np.array([7, 10]),
        (7.5, 10.25),
        (1.0, 1.0),
        (np.uint8(7), np.uint8(10)),
        (7,),
        (),
        None,
        7,
        (7, 10, 3),
        ("7", "10"),
        (2**70, 2**71),
        (0, 0),
        (-3, -4),
    ]

    for corner in CORNERS:
        for shape in shapes_odd:
            for name, region in containers():
                record(
                    "container {} shape={!r} {}".format(name, shape, corner),
                    lambda: describe_region(
                        layout_util.rotate_region_via_roe_corner_from(
                            region=region, shape_native=shape, roe_corner=corner
                        ),
                        region,
                    ),
                )

    # 4. unusual read-out corners (unknown corners -> None; lists are not tuples; arrays are ambiguous) -------------

    for corner in ODD_CORNERS:
        for name, region in [
            ("tuple", (1, 6, 8, 10)),
            ("list", [1, 6, 8, 10]),
            ("Region2D", aa.Region2D(region=(1, 6, 8, 10))),
            ("short", (1, 6)),
            ("none", None),
            ("bad", (6, 1, 10, 8)),
        ]:
            for shape in [(7, 10), None, (7,)]:
                record(
                    "corner {!r} {} shape={!r}".format(corner, name, shape),
                    lambda: describe_region(
                        layout_util.rotate_region_via_roe_corner_from(
                            region=region, shape_native=shape, roe_corner=corner
                        ),
                        region,
                    ),
                )

    # region None comes first, whatever the other arguments are
    for corner in CORNERS + ODD_CORNERS:
        record(
            "none-region {!r}".format(corner),
            lambda: layout_util.rotate_region_via_roe_corner_from(
                region=None, shape_native=None, roe_corner=corner
            ),
        )

    # 5. order of evaluation of region / shape_native look-ups, and which of two invalid arguments raises -----------

    for corner in CORNERS:
        for rvals, svals in [
            ((1, 6, 8, 10), (7, 10)),
            ((1, 6), (7, 10)),
            ((1, 6, 8, 10), (7,)),
            ((1, 6), (7,)),
            ((1,), ()),
            ((), ()),
            ((1, 6, 8), (7,)),
        ]:
            log = []
            region = LoggingSeq("r", rvals, log)
            shape = LoggingSeq("s", svals, log)

            try:
                result = layout_util.rotate_region_via_roe_corner_from(
                    region=region, shape_native=shape, roe_corner=corner
                )
                access = list(log)
                LINES.append(
                    "order {} {} {} -> {} payload={} alias={}".format(
                        corner,
                        rvals,
                        svals,
                        access,
                        type(result.region).__name__,
                        result.region is region,
                    )
                )
            except Exception as e:
                LINES.append(
                    "order {} {} {} -> {} RAISE {}: {}".format(
                        corner, rvals, svals, list(log), type(e).__name__, e
                    )
                )

    for corner in CORNERS:
        for region, shape in [
            ((1, 6), None),
            (5, ()),
            (5, None),
            ((1, 6, 8), (7,)),
            ("ab", (7,)),
            ((1, "b", 8, 10), ("7", 10)),
            ({}, (7, 10)),
            ((1, 6, 8, 10), {}),
        ]:
            record(
                "two-bad {!r} {!r} {}".format(region, shape, corner),
                lambda: describe_region(
                    layout_util.rotate_region_via_roe_corner_from(
                        region=region, shape_native=shape, roe_corner=corner
                    ),
                    region,
                ),
            )

    # 6. inputs are not modified in place ---------------------------------------------------------------------------

    for corner in CORNERS:
        region = [1, 6, 8, 10]
        shape = [7, 10]
        arr = np.array([1, 6, 8, 10])
        r2d = aa.Region2D(region=[1, 6, 8, 10])
        out_l = layout_util.rotate_region_via_roe_corner_from(region, shape, corner)
        out_a = layout_util.rotate_region_via_roe_corner_from(arr, shape, corner)
        out_r = layout_util.rotate_region_via_roe_corner_from(r2d, shape, corner)
        LINES.append(
            "inplace {} {} {} {} {} | alias {} {} {}".format(
                corner,
                region,
                shape,
                arr.tolist(),
                r2d.region,
                out_l.region is region,
                out_a.region is arr,
                out_r.region is r2d,
            )
        )
        # mutation of the input after the call is (or is not) seen through the output
        region[0] = 0
        arr[0] = 0
        r2d.region[0] = 0
        LINES.append(
            "after-mutation {} {} {} {}".format(
                corner, out_l[0], out_a[0], out_r[0]
            )
        )

    # 7. callers: Layout2D.rotated_from_roe_corner, new_rotated_from (twice = involution), pattern rotation ----------

    def describe_layout(layout, sources=(None, None, None)):
        return "roe={!r} shape={!r} po={} sp={} so={}".format(
            layout.original_roe_corner,
            layout.shape_2d,
            describe_region(layout.parallel_overscan, sources[0]),
            describe_region(layout.serial_prescan, sources[1]),
            describe_region(layout.serial_overscan, sources[2]),
        )

    layouts_kwargs = [
        dict(parallel_overscan=(5, 7, 1, 7), serial_prescan=(0, 7, 0, 1), serial_overscan=(1, 6, 8, 10)),
        dict(parallel_overscan=None, serial_prescan=(0, 7, 0, 3), serial_overscan=None),
        dict(),
        dict(parallel_overscan=[5, 7, 1, 7], serial_prescan=aa.Region2D((0, 7, 0, 1)), serial_overscan=np.array([1, 6, 8, 10])),
        dict(parallel_overscan=(6, 7, 0, 10), serial_prescan=(0, 1, 0, 1), serial_overscan=(0, 7, 9, 10)),
        dict(parallel_overscan=(0, 20, 0, 3)),
        dict(serial_overscan=(1, 2, 0, 30)),
    ]

    for corner in CORNERS + [(2, 2), [1, 1], None]:
        for shape in [(7, 10), (10, 7), (7, 7)]:
            for k, kwargs in enumerate(layouts_kwargs):

                def run():
                    layout = aa.Layout2D.rotated_from_roe_corner(
                        roe_corner=corner, shape_native=shape, **kwargs
                    )
                    out = [
                        describe_layout(
                            layout,
                            (
                                kwargs.get("parallel_overscan"),
                                kwargs.get("serial_prescan"),
                                kwargs.get("serial_overscan"),
                            ),
                        )
                    ]
                    for corner_2 in CORNERS + [(3, 3)]:
                        again = layout.new_rotated_from(roe_corner=corner_2)
                        out.append(
                            describe_layout(
                                again,
                                (
                                    layout.parallel_overscan,
                                    layout.serial_prescan,
                                    layout.serial_overscan,
                                ),
                            )
                        )
                        twice = again.new_rotated_from(roe_corner=corner_2)
                        out.append(describe_layout(twice))
                    return " || ".join(out)

                record("layout {!r} {} #{}".format(corner, shape, k), run)

    # direct construction + rotation, commutation with the array rotation
    array = np.arange(70.0).reshape(7, 10)
    for corner in CORNERS:
        layout = aa.Layout2D(
            shape_2d=(7, 10),
            original_roe_corner=(1, 0),
            parallel_overscan=(5, 7, 1, 7),
            serial_prescan=(0, 7, 0, 1),
            serial_overscan=(1, 6, 8, 10),
        )
        rotated = layout.new_rotated_from(roe_corner=corner)
        rotated_array = layout_util.rotate_array_via_roe_corner_from(array, corner)
        for name in ["parallel_overscan", "serial_prescan", "serial_overscan"]:
            reg = getattr(rotated, name)
            LINES.append(
                "commute {} {} {} {}".format(
                    corner, name, describe_region(reg, getattr(layout, name)), rotated_array[reg.slice].tolist()
                )
            )

    # charge injection pattern (duck typed: anything with `.regions`)
    for corner in CORNERS + [(5, 5)]:
        regions = [(0, 2, 1, 4), [3, 6, 0, 10], aa.Region2D((1, 6, 8, 10)), None, (6, 7, 9, 10)]
        pattern = SimpleNamespace(regions=regions, normalization=10.0)

        def run():
            new = layout_util.rotate_pattern_ci_via_roe_corner_from(
                pattern_ci=pattern, shape_native=(7, 10), roe_corner=corner
            )
            return "{} | same_obj={} | orig={!r}".format(
                [describe_region(r, s) for r, s in zip(new.regions, regions)],
                new is pattern,
                pattern.regions,
            )

        record("pattern {}".format(corner), run)

        bad = SimpleNamespace(regions=[(0, 2, 1, 4), (0, 9, 1, 14)])
        record(
            "pattern-bad {}".format(corner),
            lambda: [
                describe_region(r, None)
                for r in layout_util.rotate_pattern_ci_via_roe_corner_from(
                    pattern_ci=bad, shape_native=(7, 10), roe_corner=corner
                ).regions
            ],
        )

    # 8. repeated calls / shared objects: the function is stateless ---------------------------------------------------

    shared = aa.Region2D(region=(1, 6, 8, 10))
    for _ in range(3):
        for corner in CORNERS:
            out = layout_util.rotate_region_via_roe_corner_from(shared, (7, 10), corner)
            LINES.append(
                "repeat {} {} shared={!r}".format(corner, describe_region(out, shared), shared)
            )

    digest = hashlib.sha256("\n".join(LINES).encode()).hexdigest()
    import os
    if os.environ.get("EQUIV_DUMP"):
        open(os.environ["EQUIV_DUMP"], "w").write("\n".join(LINES))
    print("cases", len(LINES))
    print("digest", digest)


if __name__ == "__main__":
    main()
